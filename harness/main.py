"""entry point of ./check"""
import argparse
import importlib
import json
import os
import sys
import time
import traceback

from . import core


def setup():
    t0 = time.time()
    res = core.build(timeout=3300)
    ok = res.gen.get('ok') and res.make_rc == 0 and res.extract_ok
    print('setup: translator ok=%s, make rc=%s, extraction ok=%s, failed files=%s, %.0fs' % (
        res.gen.get('ok'), res.make_rc, res.extract_ok, res.failed_files, time.time() - t0))
    if not ok:
        print(res.make_log[-4000:])
        print(json.dumps(res.gen.get('errors')))
    return 0 if ok else 1


def main():
    ap = argparse.ArgumentParser()
    ap.add_argument('pid', nargs='?')
    ap.add_argument('--setup', action='store_true')
    ap.add_argument('--tier', default=os.environ.get('VERIF_TIER', 'quick'))
    ap.add_argument('--replay')
    ap.add_argument('--no-build', action='store_true')
    a = ap.parse_args()
    if a.setup:
        return setup()
    if not a.pid:
        ap.error('property id required')
    pid = a.pid.upper()
    tier = a.tier if a.tier in ('quick', 'thorough') else 'quick'
    seed = int(os.environ.get('VERIF_SEED', '20260930'))
    mod = importlib.import_module('harness.props.' + pid.lower())
    if a.replay:
        return mod.replay(a.replay)
    ctx = core.Ctx(pid, tier, seed)
    try:
        if not a.no_build:
            res = core.build()
            ctx.extra['build_wall_s'] = round(res.wall, 1)
            ctx.extra['translated_definitions'] = {
                k: {'changed': v['changed'], 'bytes': v['bytes'], 'n_definitions': len(v['definitions']),
                    'definitions': v['definitions'][:40]}
                for k, v in res.gen.get('files', {}).items() if k in getattr(mod, 'GEN', [])}
            for k, e in res.gen.get('errors', {}).items():
                if k in getattr(mod, 'GEN', []) or k == 'translator':
                    ctx.broken.append(('translation', '%s: %s' % (k, e)))
            deps = set(core.vo_deps('Props/%s.v' % pid))
            bad = [f for f in res.failed_files if f in deps]
            for f in bad:
                ctx.broken.append(('proof', 'coqc failed on %s (a dependency of Props/%s.v); see make log: %s' % (
                    f, pid, _excerpt(res.make_log, f))))
            if not res.extract_ok:
                ctx.broken.append(('extraction', 'model extraction / OCaml build failed: ' + res.make_log[-800:]))
                ctx.model.available = False
        info = core.compile_props(pid)
        ctx.add_obligations(info)
        if tier == 'thorough':
            # independent re-check of the property file and everything it depends on
            # (modules listed in COQCHK_ADMIT - exhaustive vm_compute sweeps that take hours in the checker - are
            # trusted as compiled by coqc; they are named in the evidence)
            admit = list(getattr(mod, 'COQCHK_ADMIT', []))
            rc, out = core.sh('timeout 3000 coqchk -silent -o -Q . CssV %s CssV.Props.%s' % (
                ' '.join('-admit CssV.%s' % a for a in admit), pid), cwd=core.COQ, timeout=3100)
            if admit:
                ctx.trusted.append('coqchk: modules admitted (checked by coqc only): %s' % ', '.join(admit))
            summary = out[out.find('CONTEXT SUMMARY'):][:1500] if 'CONTEXT SUMMARY' in out else out[-1500:]
            ctx.extra['coqchk'] = {'exit': rc, 'summary': ' '.join(summary.split())}
            ctx.trusted.append('coqchk -o CssV.Props.%s: %s' % (pid, ' '.join(summary.split())[:400]))
            if rc != 0:
                ctx.broken.append(('proof', 'coqchk rejected the compiled development: ' + out[-800:]))
        mod.run(ctx)
    except Exception:
        ctx.broken.append(('harness', traceback.format_exc()[-3000:]))
        traceback.print_exc()
    return ctx.finish()


def _excerpt(log, f):
    i = log.find('File "./%s"' % f)
    return log[i:i + 700] if i >= 0 else ''


if __name__ == '__main__':
    sys.exit(main())
