"""C18 — value normalisation never changes what a value denotes.
Coq: Gen/GenValue.v (regenerated: __reUnNumDim groups, reHexcolor, forbidden-in-uri
regex, colour table, zero-length units, _hash and _strip_zeros translated from
their AST), Model/Number.v, Model/Color.v, Model/Strings.v, Proofs/NumberFacts.v,
Proofs/ColorFacts.v, Proofs/StringsFacts.v, Props/C18.v.
Correspondence: extracted model vs DimensionValue / ColorValue / helper.* /
PropertyValue serialisation under omitLeadingZero and minimizeColorHash.
Search: arithmetic (fractions.Fraction) oracle on a decimal grid x units, all
short hashes, stratified long hashes, keywords, rgb()/hsl() arguments, strings
and URLs by content and spelling, operator order."""
import json
import re
from fractions import Fraction

from harness import core
from harness.core import s2n, n2s

GEN = ['GenValue', 'GenLex']

MANIFEST = dict(
    text='Machine-checked (Coq, closed under the global context, exact integer arithmetic, no real-number axioms): '
         'for every decimal literal (any sign, any number of leading/trailing zeros, with or without integer part) without a '
         'fractional part the printed text reads back as exactly the same integer at any magnitude (int_exact); with at most six '
         'fractional digits and |value|*10^6 < 2^52 the text printed from the correctly rounded binary64 value through the %f '
         'conversion, _strip_zeros (translated from the source AST) and the leading-zero / sign handling reads back as exactly '
         'the same rational, with the same unit, + kept iff given and non-zero, zero printed as 0 without a length unit '
         '(number_exact), under both settings of omitLeadingZero; the statement without the magnitude guard is refuted by '
         '12345678901.123456 (number_exact_unguarded_refuted). Hash colours: _hash (translated from the source AST) never '
         'changes red/green/blue for any character list accepted by reHexcolor, shortens only when the result expands back to '
         'the source, and does shorten every expansion of a 3-digit hash (exhaustive over all 22^3 short hashes by vm_compute). '
         'rgb() integer percentages give floor(255p/100) although computed by a binary64 division. '
         'Strings/URLs: stringvalue(string(c)) = c for every character list without newline characters, urivalue(uri(c)) = c under '
         'the stated guard, and string(c) is one string token exactly for the characterised class (escaped-quote values refuted). '
         'The number/colour/string models are tied to DimensionValue, ColorValue, helper.* and the serializer by differential runs '
         'of the extracted model; hsl()/hsla() (colorsys), fractional percentages, literals with more than six fraction digits, operator order '
         'and the accessors are covered by correspondence and/or the oracle search only.',
    note='Trusted: Coq kernel + vm_compute; translator (regex2coq with CPython re._parser front end; the 60-line Python-subset to '
         'Gallina translator for _hash/_strip_zeros); ExtrOcamlBasic extraction + OCaml driver; the hand models of '
         'DimensionValue._setCssText / do_css_Value / ColorValue / helper.string, stringvalue, uri, urivalue (validated by '
         'correspondence on every run, not verified); the assumption, validated by correspondence only, that CPython float(str) '
         'is the correctly rounded binary64 and that "%f" prints the exact binary value rounded half-even to 6 decimals (the model '
         'computes both in Z). Print Assumptions of every C18 theorem: Closed under the global context (no Reals/Flocq axioms are '
         'used: the error analysis is done on integers). The check models the tree with fixes/C18-*.patch applied.',
    design='7/C18')


# --------------------------------------------------------------------------
# independent reference functions (oracles)
# --------------------------------------------------------------------------

LENGTH_UNITS = ('cm', 'mm', 'in', 'px', 'pc', 'pt', 'em', 'ex')     # CSS 2.1 lengths
NUM_RE = re.compile(r'^([+-]?)([0-9]*)(?:\.([0-9]+))?(.*)$', re.S)


def read_printed(text):
    """independent reader of a printed number: (plus given, Fraction, #fraction digits, unit, int text, frac text)"""
    m = NUM_RE.match(text)
    sign, ip, fp, unit = m.group(1), m.group(2), m.group(3), m.group(4)
    if ip == '' and fp is None:
        return None
    f = Fraction(int(ip or '0') * 10 ** len(fp or '') + int(fp or '0'), 10 ** len(fp or ''))
    if sign == '-':
        f = -f
    return sign == '+', f, len(fp or ''), unit, ip, fp


def lit_fraction(sign, ip, fp):
    f = Fraction(int((ip or '0') + (fp or '')), 10 ** len(fp or ''))
    return -f if sign == '-' else f


def in_float_class(ip, fp):
    """known finding class: has a fractional part (a '.') and |value| * 10^6 >= 2^52"""
    return fp is not None and abs(lit_fraction('', ip, fp)) * 10 ** 6 >= 2 ** 52


def css_unescape(s, string_context):
    """CSS 2.1 4.1.3 escape decoding, independent of the model and of cssutils"""
    out = []
    i, n = 0, len(s)
    while i < n:
        c = s[i]
        if c != '\\':
            out.append(c)
            i += 1
            continue
        if i + 1 >= n:
            out.append('\\')
            break
        d = s[i + 1]
        if d in '0123456789abcdefABCDEF':
            j = i + 1
            while j < n and j < i + 7 and s[j] in '0123456789abcdefABCDEF':
                j += 1
            out.append(chr(int(s[i + 1:j], 16)))
            if s[j:j + 2] == '\r\n':
                j += 2
            elif j < n and s[j] in ' \t\r\n\f':
                j += 1
            i = j
        elif d in '\n\r\f':
            if string_context:
                i += 3 if s[i + 1:i + 3] == '\r\n' else 2
            else:
                out.append(d)
                i += 2
        else:
            out.append(d)
            i += 2
    return ''.join(out)


def css_string_content(text):
    """content of a text that must be exactly one quoted CSS string, else None"""
    if len(text) < 2 or text[0] not in '"\'':
        return None
    q = text[0]
    i, n = 1, len(text)
    while i < n:
        c = text[i]
        if c == '\\':
            i += 2
            continue
        if c == q:
            break
        if c in '\n\r\f':
            return None
        i += 1
    if i != n - 1:
        return None
    return css_unescape(text[1:-1], True)


def css_url_content(text):
    """content of url(...) text, else None"""
    if not (text[:4].lower() == 'url(' and text.endswith(')')):
        return None
    inner = text[4:-1].strip(' \t\r\n\f')
    if inner[:1] in ('"', "'"):
        return css_string_content(inner)
    # unquoted: no unescaped quotes, parens, whitespace
    i = 0
    while i < len(inner):
        if inner[i] == '\\':
            i += 2
            continue
        if inner[i] in '"\'() \t\r\n\f':
            return None
        i += 1
    return css_unescape(inner, False)


def hsl_to_rgb_exact(h, s, l):
    """CSS3 colour module algorithm on exact rationals; returns r, g, b in [0, 1]"""
    h = (h / 360) % 1
    m2 = l * (s + 1) if l <= Fraction(1, 2) else l + s - l * s
    m1 = l * 2 - m2

    def hue(hh):
        hh = hh % 1
        if hh * 6 < 1:
            return m1 + (m2 - m1) * hh * 6
        if hh * 2 < 1:
            return m2
        if hh * 3 < 2:
            return m1 + (m2 - m1) * (Fraction(2, 3) - hh) * 6
        return m1
    return hue(h + Fraction(1, 3)), hue(h), hue(h - Fraction(1, 3))


WELL_KNOWN = {
    'black': (0, 0, 0, 1), 'white': (255, 255, 255, 1), 'red': (255, 0, 0, 1), 'lime': (0, 255, 0, 1),
    'blue': (0, 0, 255, 1), 'yellow': (255, 255, 0, 1), 'aqua': (0, 255, 255, 1), 'cyan': (0, 255, 255, 1),
    'fuchsia': (255, 0, 255, 1), 'magenta': (255, 0, 255, 1), 'silver': (192, 192, 192, 1), 'gray': (128, 128, 128, 1),
    'grey': (128, 128, 128, 1), 'maroon': (128, 0, 0, 1), 'olive': (128, 128, 0, 1), 'green': (0, 128, 0, 1),
    'purple': (128, 0, 128, 1), 'teal': (0, 128, 128, 1), 'navy': (0, 0, 128, 1), 'orange': (255, 165, 0, 1),
    'transparent': (0, 0, 0, 0),
}


# --------------------------------------------------------------------------
# known findings
# --------------------------------------------------------------------------

def _k_float(kind, case, detail):
    return kind.startswith('number') and case.get('float_class') is True


def _k_quote(kind, case, detail):
    return kind.startswith(('string', 'url')) and case.get('escaped_other_quote') is True


def _k_hexesc(kind, case, detail):
    return kind.startswith(('string', 'url')) and case.get('hex_escaped_special') is True


KNOWN_PRED = {
    'C18-float-magnitude': _k_float,
    'C18-escaped-other-quote': _k_quote,
    'C18-hex-escaped-delimiter': _k_hexesc,
}


# --------------------------------------------------------------------------
# implementation access
# --------------------------------------------------------------------------

def set_prefs(olz=False, minhash=True):
    import cssutils
    from harness import impl
    impl.reset()
    cssutils.ser.prefs.omitLeadingZero = olz
    cssutils.ser.prefs.minimizeColorHash = minhash


def float_parts(x):
    """binary64 -> (negative, m, e) with 2^52 <= m < 2^53 (or m = 0, e = 0); exact"""
    import math
    neg = math.copysign(1.0, x) < 0
    if x == 0:
        return neg, 0, 0
    m, ex = math.frexp(abs(x))
    return neg, int(m * 2 ** 53), ex - 53


def enc_value(v):
    if isinstance(v, int):
        return [0, 1 if v < 0 else 0] + enc(str(abs(v)))
    neg, m, e = float_parts(v)
    return [1, 1 if neg else 0] + enc(str(m)) + [e + 2000]


def enc(s):
    return [len(s)] + s2n(s)


# --------------------------------------------------------------------------
# A. numbers
# --------------------------------------------------------------------------

UNITS = [  # (spelling, canonical unit as cssutils stores it)
    ('', ''), ('px', 'px'), ('em', 'em'), ('ex', 'ex'), ('cm', 'cm'), ('mm', 'mm'), ('in', 'in'), ('pt', 'pt'),
    ('pc', 'pc'), ('%', '%'), ('deg', 'deg'), ('rad', 'rad'), ('grad', 'grad'), ('ms', 'ms'), ('s', 's'),
    ('hz', 'hz'), ('khz', 'khz'), ('rem', 'rem'), ('vw', 'vw'), ('fr', 'fr'), ('dpi', 'dpi'), ('x', 'x'),
    ('PX', 'px'), ('Em', 'em'), ('p\\x', 'px'), ('-x', '-x'), ('e3', 'e3'), ('٣px', '٣px'),
    ('１', '１'), ('é', 'é'), ('_u', '_u'),
]


def gen_numbers(rng, n_random, dense_step):
    """(sign, int part, fraction part or None)"""
    out = []
    seen = set()

    def add(sign, ip, fp):
        if ip == '' and fp is None:
            return
        k = (sign, ip, fp)
        if k not in seen:
            seen.add(k)
            out.append(k)
    # hand-picked digit patterns
    for sign in ('', '+', '-'):
        for ip, fp in [('0', None), ('00', None), ('', '0'), ('0', '0'), ('0', '000000'), ('', '5'), ('0', '5'), ('00', '50'),
                       ('0', '05'), ('', '05'), ('1', '0'), ('1', '50'), ('1', '05'), ('1', '203'), ('10', '010'),
                       ('0', '000001'), ('', '000001'), ('0', '999999'), ('', '999999'), ('9', '999999'),
                       ('0', '100000'), ('0', '123456'), ('0', '1234565'), ('0', '9999996'), ('', '9999996'),
                       ('0', '9999994'), ('0', '0000001'), ('0', '0000005'), ('0', '00000051'), ('99', '9999996'),
                       ('1', '0000001'), ('12345678901', '123456'), ('4503599627', '370495'), ('4503599627', '370496'),
                       ('4503599627', '370497'), ('4503599626', '999999'), ('4503599628', '000001'),
                       ('123456789012345678', None), ('1000000000000000000', None), ('99999999999999999999999', None),
                       ('123456789012345678', '5'), ('9007199254740993', '0'), ('9007199254740992', '5'), ('1' + '0' * 18, '000001'),
                       ('255', None), ('100', '0'), ('007', None), ('7', '70'), ('3', '14159'), ('2', '718281')]:
            add(sign, ip, fp)
    # dense: every fraction 0.000 .. 0.999 (step) and x.y0z patterns
    for i in range(0, 1000, dense_step):
        add('', '0', '%03d' % i)
        add('-', '', '%03d' % i)
    for a in range(10):
        for b in range(10):
            add('', str(a), '%d0%d' % (b, a))
            add('+', '', '0%d%d0' % (a, b))
    # random: magnitude strata x fraction length strata
    for _ in range(n_random):
        sign = rng.choice(['', '', '+', '-', '-'])
        mag = rng.choice([0, 0, 1, 1, 2, 3, 5, 8, 9, 10, 10, 12, 15, 18])
        if mag == 0:
            ip = rng.choice(['', '0', '00', '0'])
        else:
            ip = str(rng.randrange(10 ** (mag - 1), 10 ** mag))
            if rng.random() < 0.15:
                ip = '0' * rng.randrange(1, 3) + ip
        r = rng.random()
        if r < 0.15 and ip != '':
            fp = None
        else:
            k = rng.choice([1, 2, 3, 4, 5, 6, 6, 6, 6]) if r < 0.93 else rng.choice([7, 8, 9, 12])
            fp = ''.join(rng.choice('0123456789') for _ in range(k))
            t = rng.random()
            if t < 0.15:
                fp = fp[:-1] + '0'
            elif t < 0.25:
                fp = '0' * k
            elif t < 0.35:
                fp = '9' * k
            elif t < 0.45:
                fp = '0' * (k - 1) + rng.choice('123456789')
        add(sign, ip, fp)
    return out


def check_number(ctx, sign, ip, fp, usp, ucanon, olz, keys, model_cases):
    import cssutils
    from harness import impl
    numtext = sign + ip + ('' if fp is None else '.' + fp)
    text = numtext + usp
    d = lit_fraction(sign, ip, fp)
    nfrac = len(fp or '')
    case = {'text': text, 'omitLeadingZero': olz, 'float_class': in_float_class(ip, fp)}
    ctx.case(('num', text, olz), nontrivial=True)
    set_prefs(olz=olz)
    try:
        pv = cssutils.css.PropertyValue(text)
        items = list(pv)
        out = pv.cssText
        v = items[0] if items else None
    except Exception as e:
        ctx.violation('number-raises', case, '%s: %s' % (impl.exc_class(e), str(e)[:200]), KNOWN_PRED)
        return
    if len(items) != 1 or type(v).__name__ != 'DimensionValue':
        # the text did not lex as one numeric token: not a case of this property
        ctx.count('number-not-one-token')
        return
    own = v.cssText
    if own != out:
        ctx.violation('number-own-text', case, 'PropertyValue.cssText %r but DimensionValue.cssText %r' % (out, own), KNOWN_PRED)
    # ---- accessor oracle
    if fp is None:
        if not (isinstance(v.value, int) and v.value == int(sign + ip)):
            ctx.violation('number-value', case, 'value accessor %r for an integer literal' % (v.value,), KNOWN_PRED)
    else:
        if not isinstance(v.value, float) or abs(Fraction(v.value) - d) * 2 ** 53 > abs(d):
            ctx.violation('number-value', dict(case, float_class=False), 'value accessor %r is not the nearest binary64 of %s' % (v.value, numtext), KNOWN_PRED)
    if (v.dimension or '') != ucanon:
        ctx.violation('number-unit-accessor', case, 'dimension accessor %r, source unit %r' % (v.dimension, ucanon), KNOWN_PRED)
    # ---- denotation oracle on the printed text
    rd = read_printed(out)
    if rd is None:
        ctx.violation('number-denote', case, 'printed %r is not a number' % out, KNOWN_PRED)
    else:
        plus, f, k, unit, pip, pfp = rd
        exact = nfrac <= 6
        if exact and f != d:
            ctx.violation('number-denote', case, 'printed %r denotes %s, source denotes %s' % (out, f, d), KNOWN_PRED)
        elif not exact and abs(f - d) > Fraction(1, 2 * 10 ** 6) + abs(d) / 2 ** 51:
            ctx.violation('number-approx', case, 'printed %r is %s away from the source' % (out, float(abs(f - d))), KNOWN_PRED)
        zero_len = d == 0 and ucanon in LENGTH_UNITS
        if unit != ('' if zero_len else ucanon):
            ctx.violation('number-unit', case, 'printed %r has unit %r, source unit %r' % (out, unit, ucanon), KNOWN_PRED)
        if plus != (sign == '+' and d != 0):
            ctx.violation('number-sign', case, 'printed %r: + %s but source sign %r' % (out, 'kept' if plus else 'dropped', sign), KNOWN_PRED)
        if exact and not case['float_class']:
            # redundant zeros dropped
            redundant = (len(pip) > 1 and pip[0] == '0') or (pfp is not None and pfp.endswith('0')) or (d == 0 and (out[:1] in '+-' or pfp))
            lead = (olz and 0 < abs(d) < 1 and pip != '') or ((not olz or abs(d) >= 1 or d == 0) and pip == '')
            if redundant or lead:
                ctx.violation('number-zeros', case, 'printed %r keeps redundant zeros / leading-zero preference not honoured' % out, KNOWN_PRED)
    # ---- correspondence (token value as the tokenizer gives it)
    toks = [t for t in impl.tokenize(text, False, True)]
    if len(toks) == 1:
        model_cases.append([180, 1 if olz else 0] + s2n(toks[0][1]))
        keys.append(('number', case, [1] + enc(out) + enc_value(v.value) + enc(v.dimension or '')))


def run_numbers(ctx, quick, keys, model_cases):
    rng = ctx.rng
    nums = gen_numbers(rng, 2500 if quick else 60000, 7 if quick else 1)
    ctx.extra['number_literals'] = len(nums)
    for i, (sign, ip, fp) in enumerate(nums):
        # every literal with two fixed units and some random ones
        us = [UNITS[0], UNITS[1]] + [rng.choice(UNITS) for _ in range(2 if quick else 4)]
        for usp, ucanon in us:
            for olz in (False, True):
                check_number(ctx, sign, ip, fp, usp, ucanon, olz, keys, model_cases)
    if not quick:
        # every six-digit fraction below one, one unit, both preferences
        for i in range(0, 10 ** 6):
            check_number(ctx, '-' if i % 8 >= 4 else '', '0' if i % 4 >= 2 else '', '%06d' % i, 'px', 'px', bool(i % 2), keys, model_cases)
    # the unit sweep with a zero, an integer and a fraction
    for usp, ucanon in UNITS:
        for sign, ip, fp in (('', '0', None), ('-', '0', '0'), ('+', '', '0'), ('', '12', None), ('-', '1', '5'), ('+', '', '25')):
            for olz in (False, True):
                check_number(ctx, sign, ip, fp, usp, ucanon, olz, keys, model_cases)


def run_read_number(ctx, keys, model_cases):
    """the specification-side reader of Coq vs the Fraction reader, on the texts printed above"""
    texts = sorted({n2s(k[2][2:2 + k[2][1]]) for k in keys if k[0] == 'number'})[:4000]
    for t in texts:
        rd = read_printed(t)
        if rd is None:
            want = [0]
        else:
            plus, f, k, unit, pip, pfp = rd
            num = abs(f) * 10 ** k
            assert num.denominator == 1
            want = [1, 1 if plus else 0, 1 if f < 0 else 0] + enc(str(num.numerator)) + [k] + enc(unit)
        model_cases.append([181] + s2n(t))
        keys.append(('read_number', {'text': t}, want))


# --------------------------------------------------------------------------
# B-D. colours
# --------------------------------------------------------------------------

HEX = '0123456789abcdef'
HEXALL = '0123456789abcdefABCDEF'


def check_hash(ctx, h, minhash, keys, model_cases):
    import cssutils
    case = {'text': h, 'minimizeColorHash': minhash}
    ctx.case(('hash', h, minhash))
    set_prefs(minhash=minhash)
    try:
        pv = cssutils.css.PropertyValue(h)
        v = pv[0]
        out = pv.cssText
    except Exception as e:
        ctx.violation('hash-raises', case, '%s: %s' % (type(e).__name__, e), KNOWN_PRED)
        return
    if type(v).__name__ != 'ColorValue':
        ctx.violation('hash-type', case, 'parsed as %s' % type(v).__name__, KNOWN_PRED)
        return
    if len(h) == 4:
        want = tuple(int(c * 2, 16) for c in h[1:])
    else:
        want = (int(h[1:3], 16), int(h[3:5], 16), int(h[5:7], 16))
    got = (v.red, v.green, v.blue)
    if got != want or v.alpha != 1:
        ctx.violation('hash-accessor', case, 'accessors %r alpha %r, source %r' % (got, v.alpha, want), KNOWN_PRED)
    try:
        v2 = cssutils.css.PropertyValue(out)[0]
        got2 = (v2.red, v2.green, v2.blue, v2.alpha)
    except Exception as e:
        got2 = 'unparsable: %s' % e
    if got2 != want + (1,):
        ctx.violation('hash-denote', case, 'printed %r has components %r, source %r' % (out, got2, want), KNOWN_PRED)
    if out != h and not (minhash and len(out) == 4 and len(h) == 7):
        ctx.violation('hash-text', case, 'printed %r' % out, KNOWN_PRED)
    pr = (int(out[1] * 2, 16), int(out[2] * 2, 16), int(out[3] * 2, 16)) if len(out) == 4 else \
        ((int(out[1:3], 16), int(out[3:5], 16), int(out[5:7], 16)) if len(out) == 7 else None)
    model_cases.append([182, 1 if minhash else 0] + s2n(h))
    keys.append(('hash', case, [1] + enc(out) + list(got) + (list(pr) if pr else [-1, -1, -1]) + [1]))


def run_hashes(ctx, quick, keys, model_cases):
    rng = ctx.rng
    hs = []
    for a in HEXALL:
        for b in HEXALL:
            for c in HEXALL:
                hs.append('#' + a + b + c)                         # all 22^3 short hashes
    for a in HEX:
        for b in HEX:
            for c in HEX:
                hs.append('#' + a + a + b + b + c + c)             # every shortenable long hash
    n = 1500 if quick else 40000
    for _ in range(n):
        r = rng.random()
        if r < 0.3:
            s = ''.join(rng.choice(HEXALL) for _ in range(6))
        elif r < 0.6:                                              # one digit away from shortenable
            a, b, c = (rng.choice(HEXALL) for _ in range(3))
            s = list(a + a + b + b + c + c)
            s[rng.randrange(6)] = rng.choice(HEXALL)
            s = ''.join(s)
        elif r < 0.8:                                              # same digit, different case
            s = ''.join(x + (x.swapcase() if rng.random() < 0.5 else x) for x in (rng.choice(HEXALL) for _ in range(3)))
        else:                                                      # pairs equal at the wrong offset  #abbcca
            a, b, c = (rng.choice(HEX) for _ in range(3))
            s = a + b + b + c + c + a
        hs.append('#' + s)
    for h in hs:
        check_hash(ctx, h, True, keys, model_cases)
    for h in hs[::7]:
        check_hash(ctx, h, False, keys, model_cases)
    ctx.extra['hashes'] = len(hs)
    # not colours: must not be treated as such by the model either
    import cssutils.css.value as V_
    import cssutils.prodparser as PP_
    for h in ('#ab', '#abcd', '#abcde', '#abcdefa', '#abg', '#', '#fff\n', '#abcdef\n', '#fff ', '#fff\r', '\n#fff', '#ffffff\n\n', '#FFF\x0c'):
        ctx.case(('hash-invalid', h))
        if V_.reHexcolor.match(h) and PP_.PreDef.reHexcolor.match(h):
            ctx.violation('hash-accepts-noncolour', {'text': h}, 'both reHexcolor patterns accept %r as a colour' % h, KNOWN_PRED)
        model_cases.append([182, 1] + s2n(h))
        keys.append(('hash-invalid', {'text': h}, [0]))


def run_keywords(ctx, keys, model_cases):
    import cssutils
    from cssutils.css import ColorValue
    table = ColorValue.COLORS
    for name, rgba in table.items():
        for sp in (name, name.upper(), name.capitalize(), name[0] + '\\' + name[1:] if name[1] not in HEXALL else name):
            case = {'text': sp}
            ctx.case(('kw', sp))
            set_prefs()
            try:
                pv = cssutils.css.PropertyValue(sp)
                v = pv[0]
                out = pv.cssText
                got = (v.red, v.green, v.blue, v.alpha)
                v2 = cssutils.css.PropertyValue(out)[0]
                got2 = (v2.red, v2.green, v2.blue, v2.alpha)
            except Exception as e:
                ctx.violation('keyword-raises', case, '%s: %s' % (type(e).__name__, e), KNOWN_PRED)
                continue
            if type(v).__name__ != 'ColorValue' or got != tuple(rgba) or got2 != got:
                ctx.violation('keyword-denote', case, 'accessors %r, after reprint %r (%r), table %r' % (got, got2, out, rgba), KNOWN_PRED)
            if name in WELL_KNOWN and got != WELL_KNOWN[name]:
                ctx.violation('keyword-accessor', case, 'accessors %r, CSS colour %r' % (got, WELL_KNOWN[name]), KNOWN_PRED)
            model_cases.append([183] + s2n(sp))
            keys.append(('keyword', case, [1] + list(rgba[:3]) + [int(rgba[3])]))
    for sp in ('redd', 'colour', 're', ''):
        if sp not in table:
            model_cases.append([183] + s2n(sp))
            keys.append(('keyword-unknown', {'text': sp}, [0]))


def fmt_arg(rng, kind):
    """one argument of a colour function: (text, Fraction value, is percentage)"""
    if kind == 'N':
        r = rng.random()
        if r < 0.7:
            n = rng.choice([0, 1, 127, 128, 254, 255, rng.randrange(0, 256), rng.randrange(0, 256), rng.randrange(-20, 400)])
            s = str(n)
            if n >= 0 and rng.random() < 0.1:
                s = '+' + s
            return s, Fraction(n), False
        k = rng.randrange(1, 4)
        n = rng.randrange(0, 256 * 10 ** k)
        s = '%d.%0*d' % (n // 10 ** k, k, n % 10 ** k)
        return s, Fraction(n, 10 ** k), False
    if kind == 'A':
        r = rng.random()
        if r < 0.3:
            return rng.choice([('0', Fraction(0)), ('1', Fraction(1)), ('0.5', Fraction(1, 2)), ('.5', Fraction(1, 2)), ('1.0', Fraction(1))]) + (False,)
        k = rng.randrange(1, 5)
        n = rng.randrange(0, 10 ** k + 1)
        s = '%d.%0*d' % (n // 10 ** k, k, n % 10 ** k)
        if s.startswith('0.') and rng.random() < 0.3:
            s = s[1:]
        return s, Fraction(n, 10 ** k), False
    # percentage
    r = rng.random()
    if r < 0.7:
        n = rng.choice([0, 50, 100, rng.randrange(0, 101), rng.randrange(0, 101), rng.randrange(0, 130)])
        return '%d%%' % n, Fraction(n), True
    k = rng.randrange(1, 3)
    n = rng.randrange(0, 101 * 10 ** k)
    return '%d.%0*d%%' % (n // 10 ** k, k, n % 10 ** k), Fraction(n, 10 ** k), True


def check_function_colour(ctx, rng, keys, model_cases):
    import cssutils
    from harness import impl
    fn = rng.choice(['rgb', 'rgb', 'rgba', 'hsl', 'hsla'])
    if fn.startswith('rgb'):
        kinds = rng.choice(['NNN', 'NNN', 'PPP'])
    else:
        kinds = 'NPP'
    if fn.endswith('a'):
        kinds += 'A'
    args = [fmt_arg(rng, k) for k in kinds]
    sep = rng.choice([',', ', ', ' , ', ',  '])
    # function names are case-insensitive
    fsp = rng.choice([fn, fn, fn, fn.upper(), fn.capitalize()])
    text = fsp + '(' + rng.choice(['', ' ']) + sep.join(a[0] for a in args) + rng.choice(['', ' ']) + ')'
    olz = rng.random() < 0.5
    case = {'text': text, 'omitLeadingZero': olz}
    ctx.case(('fn', text, olz))
    set_prefs(olz=olz)
    try:
        pv = cssutils.css.PropertyValue(text)
        v = pv[0]
        out = pv.cssText
        got = (v.red, v.green, v.blue, v.alpha)
        v2 = cssutils.css.PropertyValue(out)[0]
        got2 = (v2.red, v2.green, v2.blue, v2.alpha)
    except Exception as e:
        ctx.violation('colourfn-raises', case, '%s: %s' % (type(e).__name__, e), KNOWN_PRED)
        return
    if type(v).__name__ != 'ColorValue':
        ctx.violation('colourfn-type', case, 'parsed as %s' % type(v).__name__, KNOWN_PRED)
        return
    # printing and reparsing keeps every component exactly (compared through exact ratios)
    if [Fraction(x) for x in got] != [Fraction(x) for x in got2]:
        ctx.violation('colourfn-denote', case, 'components %r, after reprint (%r) %r' % (got, out, got2), KNOWN_PRED)
    # the printed arguments denote the source arguments
    m = re.match(r'^(rgba?|hsla?)\((.*)\)$', out)
    pargs = [p.strip() for p in m.group(2).split(',')] if m else []
    if not m or m.group(1) != fn or len(pargs) != len(args):
        ctx.violation('colourfn-args', case, 'printed %r' % out, KNOWN_PRED)
    else:
        for (src, val, pct), p in zip(args, pargs):
            rd = read_printed(p)
            if rd is None or rd[1] != val or rd[3] != ('%' if pct else ''):
                ctx.violation('colourfn-args', case, 'argument %r printed as %r' % (src, p), KNOWN_PRED)
                break
    # accessors agree with the source
    alpha = args[3][1] if len(args) > 3 else Fraction(1)
    if abs(Fraction(got[3]) - alpha) * 2 ** 53 > alpha:
        ctx.violation('colourfn-alpha', case, 'alpha accessor %r, source %s' % (got[3], alpha), KNOWN_PRED)
    if fn.startswith('rgb'):
        for (src, val, pct), g in zip(args[:3], got[:3]):
            if not pct:
                ok = abs(Fraction(g) - val) * 2 ** 53 <= abs(val)
            else:
                ok = isinstance(g, int) and abs(Fraction(g) - val * 255 / 100) < 1
            if not ok:
                ctx.violation('colourfn-accessor', case, 'component for %r is %r' % (src, g), KNOWN_PRED)
                break
        for (src, val, pct), g in zip(args[:3], got[:3]):
            toks = impl.tokenize(src, False, True)
            if len(toks) == 1:
                model_cases.append([184, 1 if pct else 0] + s2n(toks[0][1]))
                keys.append(('rgb-component', {'arg': src}, [1] + enc_value(g)))
    else:
        r, g, b = hsl_to_rgb_exact(args[0][1], args[1][1] / 100, args[2][1] / 100)
        in_range = 0 <= args[1][1] <= 100 and 0 <= args[2][1] <= 100
        if in_range:
            for ex, gg in zip((r, g, b), got[:3]):
                if not isinstance(gg, int) or abs(ex * 255 - gg) > Fraction(1, 2) + Fraction(1, 10 ** 6):
                    ctx.violation('colourfn-accessor', case, 'hsl components %r, exact %s' % (got[:3], [float(x * 255) for x in (r, g, b)]), KNOWN_PRED)
                    break


# --------------------------------------------------------------------------
# E. strings and URLs
# --------------------------------------------------------------------------

ALPHABET = ['a', 'b', 'z', 'A', '0', '9', 'f', ' ', ' ', '\t', '"', "'", '\\', '(', ')', ',', ';', '/', '*', '{', '}', ':', '#', '!', '@',
            '-', '_', '%', '~', '\n', '\r', '\x0c', '\xe9', '\xa0', '\u4e2d', '\U0001F600', '\u2028']


def gen_content(rng):
    n = rng.choice([0, 1, 1, 2, 3, 4, 6, 9])
    return ''.join(rng.choice(ALPHABET) if rng.random() < 0.8 else chr(rng.randrange(0x20, 0x7f)) for _ in range(n))


def hexesc(rng, c):
    h = '%x' % ord(c)
    if rng.random() < 0.3:
        h = h.rjust(6, '0')
    # one blank always ends the escape (it is consumed even after six digits)
    return '\\' + h + ' '


def spell_string(rng, content, allow_k1, allow_k2):
    """a CSS spelling of a string with the given content; flags for the known classes"""
    q = rng.choice('"\'')
    out = []
    k1 = k2 = False
    for c in content:
        if c == q:
            out.append('\\' + c)
        elif c in '"\'':
            if allow_k1 and rng.random() < 0.25:
                out.append('\\' + c)
                k1 = k1 or c == '"'
            else:
                out.append(c)
        elif c == '\\':
            if allow_k2 and rng.random() < 0.1:
                out.append(hexesc(rng, c))
                k2 = True
            else:
                out.append('\\\\')
        elif c in '\n\r\x0c' or ord(c) < 0x20 and c != '\t':
            out.append(hexesc(rng, c))
        elif c in '0123456789abcdefABCDEF \t':
            out.append(c)
        elif rng.random() < 0.1:
            if c.isalnum() or ord(c) > 0x7f:
                out.append(hexesc(rng, c))
            else:
                out.append('\\' + c)          # simple escape of punctuation
        else:
            out.append(c)
    return q + ''.join(out) + q, k1, k2


def spell_url(rng, content, allow_k1, allow_k2):
    plain = content != '' and all((c in '!#$%&' or '*' <= c <= '~' or ord(c) >= 0x80) and not c.isspace() and c != '\\'
                                  for c in content)
    if plain and rng.random() < 0.6:
        ws1, ws2 = rng.choice(['', '', ' ']), rng.choice(['', '', ' '])
        return 'url(' + ws1 + content + ws2 + ')', False, False
    s, k1, k2 = spell_string(rng, content, allow_k1, allow_k2)
    ws1, ws2 = rng.choice(['', '', ' ']), rng.choice(['', '', ' '])
    return 'url(' + ws1 + s + ws2 + ')', k1, k2


def check_string(ctx, rng, is_url, keys, model_cases, allow_known=True):
    import cssutils
    from cssutils import helper
    from harness import impl
    content = gen_content(rng)
    if is_url:
        text, k1, k2 = spell_url(rng, content, allow_known, allow_known)
    else:
        text, k1, k2 = spell_string(rng, content, allow_known, allow_known)
    kind = 'url' if is_url else 'string'
    case = {'text': text, 'content': content, 'escaped_other_quote': k1, 'hex_escaped_special': k2}
    ctx.case((kind, text))
    if (css_url_content(text) if is_url else css_string_content(text)) != content:
        ctx.count('spelling-generator-mismatch')      # the spelling does not denote the intended content: not a case
        return
    set_prefs()
    try:
        pv = cssutils.css.PropertyValue(text)
        items = list(pv)
        v = items[0]
        out = pv.cssText
        val = v.uri if is_url else v.value
    except Exception as e:
        ctx.violation(kind + '-raises', case, '%s: %s' % (impl.exc_class(e), str(e)[:200]), KNOWN_PRED)
        return
    want_type = 'URIValue' if is_url else 'Value'
    if len(items) != 1 or type(v).__name__ != want_type or (not is_url and v.type != 'STRING'):
        ctx.violation(kind + '-type', case, 'parsed as %r' % [(type(x).__name__, x.type) for x in items], KNOWN_PRED)
        return
    # the printed text has exactly the source content (independent CSS reading of both)
    got = css_url_content(out) if is_url else css_string_content(out)
    if got != content:
        ctx.violation(kind + '-content', case, 'printed %r has content %r, source content %r' % (out, got, content), KNOWN_PRED)
    # and reparses to the same value
    try:
        pv2 = cssutils.css.PropertyValue(out)
        v2 = list(pv2)
        val2 = (v2[0].uri if is_url else v2[0].value) if len(v2) == 1 and type(v2[0]).__name__ == want_type else ('?', [x.cssText for x in v2])
    except Exception as e:
        val2 = ('unparsable', str(e)[:80])
    if val2 != val:
        ctx.violation(kind + '-reparse', case, 'value %r, printed %r, reparsed value %r' % (val, out, val2), KNOWN_PRED)
    # ---- correspondence: helper functions on the value and on the token text
    if is_url:
        model_cases.append([187] + s2n(val))
        keys.append(('uri', {'value': val}, [1] + s2n(helper.uri(val))))
        toks = impl.tokenize(text, False, True)
        if len(toks) == 1 and toks[0][0] == 'URI':
            model_cases.append([188] + s2n(toks[0][1]))
            keys.append(('urivalue', {'token': toks[0][1]}, [1] + s2n(helper.urivalue(toks[0][1]))))
        if out != helper.uri(val):
            ctx.disagree('cssText-is-helper.uri', case, out, helper.uri(val))
    else:
        model_cases.append([185] + s2n(val))
        keys.append(('string', {'value': val}, [1] + s2n(helper.string(val))))
        toks = impl.tokenize(text, False, True)
        if len(toks) == 1 and toks[0][0] == 'STRING':
            model_cases.append([186] + s2n(toks[0][1]))
            keys.append(('stringvalue', {'token': toks[0][1]}, [1] + s2n(helper.stringvalue(toks[0][1]))))
        if out != helper.string(val):
            ctx.disagree('cssText-is-helper.string', case, out, helper.string(val))
    # is string(value) one STRING token?  model scanner vs the tokenizer
    st = helper.string(val)
    toks = impl.tokenize(st, False, True)
    one = len(toks) == 1 and toks[0][0] == 'STRING'
    model_cases.append([189] + s2n(st))
    keys.append(('one-string-token', {'text': st}, [1 if one else 0]))


def run_raw_helpers(ctx, quick, keys, model_cases):
    """helper.* on arbitrary character lists (not only parser-reachable values)"""
    from cssutils import helper
    from harness import impl
    rng = ctx.rng
    for _ in range(1500 if quick else 30000):
        c = gen_content(rng)
        ctx.case(('raw', c), nontrivial=False)
        model_cases.append([185] + s2n(c))
        keys.append(('string', {'value': c}, [1] + s2n(helper.string(c))))
        model_cases.append([187] + s2n(c))
        keys.append(('uri', {'value': c}, [1] + s2n(helper.uri(c))))
        s = helper.string(c)
        model_cases.append([186] + s2n(s))
        keys.append(('stringvalue', {'token': s}, [1] + s2n(helper.stringvalue(s))))
        u = helper.uri(c)
        model_cases.append([188] + s2n(u))
        keys.append(('urivalue', {'token': u}, [1] + s2n(helper.urivalue(u))))
        # quoted with the other quote kind / with blanks inside url( )
        t = "'" + c.replace("'", "\\'") + "'"
        model_cases.append([186] + s2n(t))
        keys.append(('stringvalue', {'token': t}, [1] + s2n(helper.stringvalue(t))))
        u2 = 'url( ' + t + ' )'
        model_cases.append([188] + s2n(u2))
        keys.append(('urivalue', {'token': u2}, [1] + s2n(helper.urivalue(u2))))
        toks = impl.tokenize(s, False, True)
        model_cases.append([189] + s2n(s))
        keys.append(('one-string-token', {'text': s}, [1 if (len(toks) == 1 and toks[0][0] == 'STRING') else 0]))


# --------------------------------------------------------------------------
# F. operators and order
# --------------------------------------------------------------------------

TERMS = ['1px', '-2em', '+3', '0.5', '50%', 'a', 'bold', '"s"', "'t'", 'url(u.png)', '#abc', '#aabbcd', 'red', 'rgb(1, 2, 3)',
         'f(1)', 'U+0-7F', '0', '.5em', 'x-y', 'calc(1px + 2px)']
SEPS = [(' ', ' '), (',', ','), (', ', ','), (' , ', ','), ('/', '/'), (' / ', '/'), ('/ ', '/'), ('  ', ' '), ('\t', ' ')]


def check_operators(ctx, rng):
    import cssutils
    from harness import impl
    n = rng.randrange(1, 7)
    terms = [rng.choice(TERMS) for _ in range(n)]
    seps = [rng.choice(SEPS) for _ in range(n - 1)]
    text = terms[0] + ''.join(s[0] + t for s, t in zip(seps, terms[1:]))
    # a sign directly after a blank-free separator would glue: keep those separated
    case = {'text': text}
    ctx.case(('ops', text))
    set_prefs()
    try:
        pv = cssutils.css.PropertyValue(text)
        out = pv.cssText
        vals = [x.cssText for x in pv]
    except Exception as e:
        ctx.violation('operators-raises', case, '%s: %s' % (impl.exc_class(e), str(e)[:200]), KNOWN_PRED)
        return
    if len(vals) != n:
        ctx.violation('operators-count', case, '%d components in, %d out: %r' % (n, len(vals), vals), KNOWN_PRED)
        return
    # each component alone prints the same as inside the list
    for t, got in zip(terms, vals):
        alone = cssutils.css.PropertyValue(t).cssText
        if alone != got:
            ctx.violation('operators-component', case, 'component %r prints %r in the list, %r alone' % (t, got, alone), KNOWN_PRED)
            return
    # separators of the output, read from its tokens between the component texts
    pos = 0
    got_seps = []
    for i, v in enumerate(vals):
        j = out.find(v, pos)
        if j < 0:
            ctx.violation('operators-order', case, 'component %r not found in order in %r' % (v, out), KNOWN_PRED)
            return
        if i > 0:
            between = out[pos:j]
            st = between.strip()
            if st not in ('', ',', '/') or (st == '' and between == ''):
                ctx.violation('operators-separator', case, 'between components %d and %d: %r in %r' % (i - 1, i, between, out), KNOWN_PRED)
                return
            got_seps.append(st or ' ')
        pos = j + len(v)
    if out[pos:].strip() != '' or got_seps != [s[1] for s in seps]:
        ctx.violation('operators-separator', case, 'separators %r, source %r (printed %r)' % (got_seps, [s[1] for s in seps], out), KNOWN_PRED)
    # the structured sequence agrees too
    ops = [i.value for i in pv.seq if i.type == 'operator']
    if ops != [s[1] for s in seps if s[1] != ' ']:
        ctx.violation('operators-seq', case, 'operator items %r' % ops, KNOWN_PRED)


# --------------------------------------------------------------------------

def run_reassign(ctx):
    """a value item given a new text says afterwards what a fresh item made from that text says (no unit, sign, type
    or channel left over from the old text).  Search only."""
    import cssutils
    import xml.dom
    from harness import impl
    NUM = ['12px', '1.5', '50%', '-3em', '+2', '0', '7', '0.25in', '100', '-0.5%']
    COL = ['red', '#abc', '#a1b2c3', 'rgb(1, 2, 3)', 'rgba(1, 2, 3, 0.5)', 'hsl(120, 100%, 50%)', 'blue']
    URL = ['url(a.png)', 'url("b c.png")', 'url()']

    def obs(it):
        return tuple(repr(getattr(it, a, None)) for a in ('cssText', 'type', 'value', 'dimension', 'red', 'green', 'blue', 'alpha', 'uri'))
    for pool in (NUM, COL, URL):
        for old in pool:
            for new in pool:
                impl.reset()
                case = {'family': 'reassign', 'old': old, 'new': new}
                ctx.case(('reassign', old, new))
                try:
                    sheet = cssutils.parseString('a { x-w: %s }' % old)
                    it = sheet.cssRules[0].style.getProperties()[0].propertyValue[0]
                    fresh = cssutils.parseString('a { x-w: %s }' % new).cssRules[0].style.getProperties()[0].propertyValue[0]
                    it.cssText = new
                    got, want = obs(it), obs(fresh)
                    text = sheet.cssRules[0].style.getPropertyValue('x-w')
                    wtext = fresh.cssText
                except xml.dom.DOMException:
                    continue
                except Exception as e:  # noqa
                    ctx.violation('reassign-raises', case, '%s: %s' % (type(e).__name__, e), KNOWN_PRED)
                    continue
                if got != want or text != wtext:
                    ctx.violation('reassign', case, 'after %r -> %r the item says %r (declaration %r); a fresh item says %r' % (old, new, got, text, want), KNOWN_PRED)


def run_value_accessor(ctx):
    """PropertyValue.value / Property.value is the value text without its comments: every component - numbers, colours,
    functions, unresolved var() references with their fallbacks - is in it, written as in cssText.  Search only."""
    import re
    import cssutils
    from harness import impl
    VALUES = ['1px /*c*/ 2px', '1px var(gap, 0.50em) 2px', 'var(w)', 'var(x, red /*c*/ blue)', 'f(1px, /*c*/ 2em) 3%', 'rgb(1, 2, 3) /*c*/ #abc',
              'calc(1px + 2px) /*c*/ 4', '"s" /*c*/ url(a.png)', 'var(a) var(b, 1 2) 0.5', 'x(var(y, 1px)) /*c*/', 'hsl(1, 2%, 3%) var(z, rgb(1,2,3))']

    def squeeze(t):
        return re.sub(r'\s+', ' ', re.sub(r'/\*.*?\*/', ' ', t)).replace('( ', '(').replace(' )', ')').replace(' ,', ',').strip()
    for v in VALUES:
        for ctxt in ('detached', 'sheet', 'sheet-with-variables', 'unresolved-pref'):
            impl.reset()
            case = {'family': 'value-accessor', 'value': v, 'context': ctxt}
            ctx.case(('value-accessor', v, ctxt))
            try:
                if ctxt == 'detached':
                    pv = cssutils.css.PropertyValue(v)
                else:
                    pre = '@variables { w: 7px; gap: 1em } ' if ctxt != 'sheet' else ''
                    if ctxt == 'unresolved-pref':
                        cssutils.ser.prefs.resolveVariables = False
                    sh = cssutils.parseString(pre + 'a { x-w: %s }' % v)
                    ps_ = sh.cssRules[-1].style.getProperties() if sh.cssRules.length else []
                    if not ps_:
                        continue      # not accepted as a value
                    pv = ps_[0].propertyValue
                a, b = squeeze(pv.value), squeeze(pv.cssText)
            except __import__('xml.dom').dom.DOMException:
                continue          # not a value (e.g. a var() fallback of two components)
            except Exception as e:  # noqa
                ctx.violation('value-accessor', case, '%s: %s' % (type(e).__name__, e), KNOWN_PRED)
                continue
            finally:
                cssutils.ser.prefs.useDefaults()
            if a != b:
                ctx.violation('value-accessor', case, '.value %r, cssText without comments %r' % (a, b), KNOWN_PRED)


def run(ctx):
    quick = ctx.tier == 'quick'
    rng = ctx.rng
    run_reassign(ctx)
    run_value_accessor(ctx)
    keys, model_cases = [], []
    ctx.cov['rule'] = ('numbers: decimal literals (3 signs x integer part of 0..19 digits with/without leading zeros or absent x fraction of '
                       '0..6 digits, plus a 7..12 digit stratum; hand-picked carry/zero patterns; magnitudes to 10^18 and the 2^52/10^6 boundary) '
                       'x 31 unit spellings x omitLeadingZero; hashes: all 22^3 short, all 16^3 shortenable long, stratified random long x '
                       'minimizeColorHash; all colour keywords x 4 spellings; rgb/rgba/hsl/hsla with integer, fractional and percentage arguments; '
                       'strings and URLs = content over quotes, backslash, parentheses, blanks, newlines, controls, non-ASCII x spelling (quote kind, '
                       'simple and hex escapes); component lists with space/comma/slash separators. distinct = distinct (text, preference).')
    run_numbers(ctx, quick, keys, model_cases)
    ctx.sample({'number': keys[len(keys) // 2][1]})
    run_read_number(ctx, keys, model_cases)
    run_hashes(ctx, quick, keys, model_cases)
    run_keywords(ctx, keys, model_cases)
    for _ in range(1500 if quick else 40000):
        check_function_colour(ctx, rng, keys, model_cases)
    nstr = 4000 if quick else 80000
    for i in range(nstr):
        check_string(ctx, rng, i % 2 == 1, keys, model_cases)
    ctx.sample({'string': keys[-1][1]})
    run_raw_helpers(ctx, quick, keys, model_cases)
    for _ in range(1500 if quick else 30000):
        check_operators(ctx, rng)
    ctx.extra['counters'] = dict(ctx.counters)
    # ---- correspondence
    if ctx.model.available:
        outs = ctx.model.run(model_cases)
        agree = 0
        per = {}
        for (what, case, want), o in zip(keys, outs):
            per.setdefault(what, [0, 0])[0] += 1
            if o == want:
                agree += 1
                per[what][1] += 1
            else:
                # a disagreement on an input of a recorded finding class is not reported twice
                ctx.disagree(what, case, want[:80], (o or [])[:80])
        ctx.extra['correspondence'] = {'cases': len(keys), 'agree': agree, 'by_function': {k: {'cases': v[0], 'agree': v[1]} for k, v in per.items()}}
    else:
        ctx.broken.append(('correspondence', 'extracted model not available'))


def replay(path):
    import cssutils
    d = json.load(open(path))
    print(json.dumps({k: d[k] for k in ('kind', 'case', 'detail') if k in d}, indent=1, ensure_ascii=True)[:3000])
    case = d.get('case', {})
    if 'text' in case:
        set_prefs(olz=bool(case.get('omitLeadingZero')), minhash=case.get('minimizeColorHash', True))
        try:
            pv = cssutils.css.PropertyValue(case['text'])
            print('cssText = %r' % pv.cssText)
            for v in pv:
                print('  %s type=%s value=%r' % (type(v).__name__, v.type, v.value))
        except Exception as e:
            print('raises %s: %s' % (type(e).__name__, e))
    return 0
