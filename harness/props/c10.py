"""C10 — declaration blocks obey the ordered-multimap-with-cascade model.
Coq: Model/Decl.v, Proofs/DeclFacts.v, Props/C10.v (+Gen/GenProps.v).
Correspondence: operation histories run in lock-step on CSSStyleDeclaration
and on the extracted model, full observation after every operation.
Search: reference oracles for effective value, enumeration agreement,
DOM-name access (exhaustive) and the variables block."""
import json

from harness import core
from harness.core import s2n

GEN = ['GenLex', 'GenProps']

MANIFEST = dict(
    text='Machine-checked (Coq, closed under the global context) for every state of the item list, hence after every operation '
         'history: effective lookup = last !important entry else last entry; the name enumeration is an ordered set with '
         'move-to-end on re-declaration (NoDup, complete); removal = filter + effective value; update in place / append; '
         'DOM-name accessors reach the hyphenated name for all known properties (exhaustive vm_compute over the regenerated table). '
         'The model is tied to CSSStyleDeclaration by lock-step histories (full observation after each operation); '
         'the variables block is covered by the lock-step oracle only.',
    note='Trusted: Coq kernel + vm_compute; translator (name tables, regexes, accessor closure cells); extraction + driver; '
         'hand model of setProperty/removeProperty/getProperty/__nnames validated by correspondence; values are abstract ids '
         '(their parsing is C02/C18 territory).',
    design='7/C10')

NAMES = ['color', 'COLOR', 'c\\olor', 'Color', 'left', 'LEFT', 'lef\\t', 'x-y', 'X-Y', 'top', 'TOP', '\\top',
         'margin-left', 'MARGIN-left', '-x-a', 'background-color']
PRIOS = ['', '', 'important', '!important', '!IMPORTANT', '! Important']


def norm(name):
    import cssutils.helper
    return cssutils.helper.normalize(name)


def observe(style):
    import cssutils
    items = []
    for it in style.seq:
        v = it.value
        if isinstance(v, cssutils.css.Property):
            val = v.value
            vid = int(val[:-2]) if val.endswith('px') else -1
            items.append(('P', v.literalname, v.name, vid, 1 if v.priority else 0))
        elif isinstance(v, cssutils.css.CSSComment):
            items.append(('C', int(v.cssText[3:-2])))
        else:
            items.append(('U', str(v)))
    return items, list(style.keys())


def encode_obs(items, keys):
    out = [len(items)]
    for it in items:
        if it[0] == 'P':
            out += [1, len(it[1])] + s2n(it[1]) + [len(it[2])] + s2n(it[2]) + [it[3], it[4]]
        else:
            out += [0, it[1]]
    out.append(len(keys))
    for k in keys:
        out += [len(k)] + s2n(k)
    return out


def ref_effective(items, nname):
    """independent statement of the cascade"""
    ps = [i for i in items if i[0] == 'P' and i[2] == nname]
    imp = [i for i in ps if i[4]]
    if imp:
        return imp[-1]
    return ps[-1] if ps else None


def gen_history(rng, n):
    init = []
    for _ in range(rng.randrange(0, 6)):
        if rng.random() < 0.25:
            init.append((3, '', rng.randrange(1, 99), 0))
        else:
            init.append((1, rng.choice(NAMES), rng.randrange(1, 999), rng.choice([0, 0, 1])))
    ops = []
    for _ in range(n):
        r = rng.random()
        name = rng.choice(NAMES)
        if r < 0.45:
            ops.append((0, name, rng.randrange(1, 999), rng.choice(PRIOS), rng.choice(['set', 'setitem', 'set'])))
        elif r < 0.65:
            ops.append((1, name, rng.randrange(1, 999), rng.choice(PRIOS), 'add'))
        else:
            ops.append((2, name, 0, '', rng.choice(['remove', 'delitem'])))
    return init, ops


def run_history(ctx, init, ops):
    import cssutils
    from harness import impl
    impl.reset()
    text = ';'.join(('/*c%d*/' % v) if code == 3 else '%s:%dpx%s' % (name, v, ' !important' if pr else '')
                    for code, name, v, pr in init)
    style = cssutils.css.CSSStyleDeclaration(cssText=text)
    flat = []
    want = []
    for code, name, v, pr in init:
        flat += [code, len(name)] + s2n(name) + [v, pr]
    items, keys = observe(style)
    case = {'init': text, 'ops': [list(o) for o in ops]}
    # the model's observation after the init ops: only the last one is compared (the parse is one step)
    for k, (code, name, v, prio, how) in enumerate(ops):
        before, _ = observe(style)
        try:
            if code == 0:
                if how == 'setitem':
                    style[name] = ('%dpx' % v, prio) if prio else '%dpx' % v
                else:
                    style.setProperty(name, '%dpx' % v, prio)
                ret = None
            elif code == 1:
                style.setProperty(name, '%dpx' % v, prio, replace=False)
                ret = None
            else:
                ret = style.removeProperty(name) if how == 'remove' else style.__delitem__(name)
        except Exception as e:
            ctx.violation('raises', case, 'op %d %r raised %s: %s' % (k, ops[k], type(e).__name__, e))
            return None
        items, keys = observe(style)
        pr = 1 if prio else 0
        flat += [code, len(name)] + s2n(name) + [v, pr]
        # ---- oracles (independent of the Coq model)
        nn = norm(name)
        if code == 2:
            eff = ref_effective(before, nn)
            exp = ('%dpx' % eff[3]) if eff else ''
            if ret != exp:
                ctx.violation('remove-result', case, 'op %d: removeProperty(%r) returned %r, effective value was %r' % (k, name, ret, exp))
            if any(i[0] == 'P' and i[2] == nn for i in items):
                ctx.violation('remove-all', case, 'op %d: entries of %r remain after removal' % (k, nn))
            if [i for i in before if not (i[0] == 'P' and i[2] == nn)] != items:
                ctx.violation('remove-frame', case, 'op %d: removal changed other entries' % k)
        elif code == 1:
            if items[:-1] != before or items[-1][:2] != ('P', name.lower()) or items[-1][3:] != (v, pr):
                ctx.violation('add-appends', case, 'op %d: add-duplicate did not append exactly one entry' % k)
        else:
            eff = ref_effective(before, nn)
            if eff is None:
                if items[:-1] != before or items[-1] != ('P', name.lower(), nn, v, pr):
                    ctx.violation('set-new', case, 'op %d: set of a new name did not append' % k)
            else:
                idx = max(j for j, i in enumerate(before) if i is eff)
                exp = list(before)
                exp[idx] = ('P', eff[1], eff[2], v, pr)
                if exp != items:
                    ctx.violation('set-in-place', case, 'op %d: update did not modify exactly the effective entry: %r -> %r' % (k, before, items))
        # enumeration agreement
        names_ref = []
        for i in items:
            if i[0] == 'P':
                if i[2] in names_ref:
                    names_ref.remove(i[2])
                names_ref.append(i[2])
        its = [p.name for p in style]
        idx = [style.item(j) for j in range(style.length)]
        neg = [style.item(j) for j in range(-style.length, 0)]
        if neg != idx:
            ctx.violation('enumeration', case, 'op %d: item(-length..-1) = %r, item(0..length-1) = %r' % (k, neg, idx))
        if not (keys == names_ref == its == idx and style.length == len(names_ref) and style.item(style.length) == ''
                and all((n in style) == (norm(n) in names_ref) for n in NAMES)):
            ctx.violation('enumeration', case, 'op %d: keys %r, iteration %r, item %r, length %r, reference %r' % (
                k, keys, its, idx, style.length, names_ref))
        for n in NAMES:
            eff = ref_effective(items, norm(n))
            if style.getPropertyValue(n) != (('%dpx' % eff[3]) if eff else '') or \
                    style.getPropertyPriority(n) != (('important' if eff[4] else '') if eff else ''):
                ctx.violation('effective', case, 'op %d: getPropertyValue(%r)=%r, reference %r' % (k, n, style.getPropertyValue(n), eff))
                break
        # reading through the camel-case attribute = reading by CSS name, however the entries are spelled
        for css_, dom_ in (('color', 'color'), ('left', 'left'), ('top', 'top'), ('margin-left', 'marginLeft'), ('background-color', 'backgroundColor')):
            try:
                a_, b_ = getattr(style, dom_), style.getPropertyValue(css_)
            except Exception as e:  # noqa
                ctx.violation('raises', case, 'op %d: attribute %s raised %s: %s' % (k, dom_, type(e).__name__, e))
                break
            if a_ != b_:
                ctx.violation('dom-name-access', case, 'op %d: style.%s = %r but getPropertyValue(%r) = %r' % (k, dom_, a_, css_, b_))
                break
        # the serialised block says the same as the API (entries, values, priorities, in order)
        try:
            again = cssutils.css.CSSStyleDeclaration(cssText=style.cssText)
            a1 = [(p_.name, p_.value, p_.priority) for p_ in style.getProperties(all=True)]
            a2 = [(p_.name, p_.value, p_.priority) for p_ in again.getProperties(all=True)]
        except Exception as e:  # noqa
            ctx.violation('raises', case, 'op %d: serialise/reparse raised %s: %s' % (k, type(e).__name__, e))
            return None
        if a1 != a2:
            ctx.violation('text-vs-api', case, 'op %d: the block says %r, its cssText %r reads back as %r' % (k, a1, style.cssText, a2))
        want.append(([1, eff_val(ret)] if (code == 2 and ret) else [0, 0]) + encode_obs(items, keys))
    return flat, want, case, len(init)


def eff_val(ret):
    return int(ret[:-2]) if ret and ret.endswith('px') else 0


def domname_oracle(ctx):
    """attribute access by DOM name == access by CSS name, all known properties"""
    import cssutils
    from cssutils.css import cssproperties as cp
    n = 0
    for group in cssutils.profiles.properties:
        for name in cssutils.profiles.properties[group]:
            dom = cp._toDOMname(name)
            s = cssutils.css.CSSStyleDeclaration()
            case = {'css': name, 'dom': dom}
            n += 1
            ctx.case(('dom', name))
            try:
                s.setProperty(name, 'inherit')
                if getattr(s, dom) != 'inherit':
                    ctx.violation('domname-get', case, 'style.%s is %r after setProperty(%r)' % (dom, getattr(s, dom), name))
                setattr(s, dom, 'initial')
                if s.getPropertyValue(name) != 'initial' or s.length != 1:
                    ctx.violation('domname-set', case, 'style.%s = ... gave %r' % (dom, s.cssText))
                delattr(s, dom)
                if s.length != 0:
                    ctx.violation('domname-del', case, 'del style.%s left %r' % (dom, s.cssText))
            except Exception as e:
                ctx.violation('domname-raises', case, '%s: %s' % (type(e).__name__, e))
    return n


VNAMES = ['x', 'X', 'y', 'Y', 'a-b', 'A-b', 'z']


def variables_oracle(ctx, nhist, nops):
    """the variables block lists, in its serialisation, exactly the variables the API reports"""
    import cssutils
    from harness import impl
    rng = ctx.rng
    for _ in range(nhist):
        impl.reset()
        init = ' '.join(('/*c*/ ' if rng.random() < 0.3 else '') + '%s: %d;' % (rng.choice(VNAMES), rng.randrange(100))
                        for _ in range(rng.randrange(0, 4)))
        v = cssutils.css.CSSVariablesDeclaration(cssText=init)
        ops = []
        ref = {}
        for k in v.keys():
            ref[k] = v.getVariableValue(k)
        for _ in range(nops):
            name = rng.choice(VNAMES)
            if rng.random() < 0.6:
                val = str(rng.randrange(100))
                ops.append(('set', name, val))
                v.setVariable(name, val)
                ref[name.lower()] = val
            else:
                ops.append(('remove', name))
                got = v.removeVariable(name)
                exp = ref.pop(name.lower(), '')
                if got != exp:
                    ctx.violation('vars-remove-result', {'init': init, 'ops': ops}, 'removeVariable(%r) returned %r, expected %r' % (name, got, exp))
            ctx.case(('vars', init, tuple(ops)))
            api = {k: v.getVariableValue(k) for k in v.keys()}
            ser = {}
            import re as _re
            for part in _re.sub(r'/\*.*?\*/', '', v.cssText, flags=_re.S).split(';'):
                if ':' in part:
                    k_, v_ = part.split(':', 1)
                    ser[k_.strip().lower()] = v_.strip()
            if not (api == ser == ref and v.length == len(ref) and list(v) == list(v.keys())
                    and [v.item(i) for i in range(v.length)] == list(v.keys())):
                ctx.violation('vars-consistent', {'init': init, 'ops': ops},
                              'API %r, serialisation %r (%r), reference %r' % (api, ser, v.cssText, ref))
                break


def run(ctx):
    quick = ctx.tier == 'quick'
    nh, nops = (300, 25) if quick else (6000, 60)
    ctx.cov['rule'] = ('operation histories (set/[]=/add-duplicate/remove/del) over 16 spellings of 8 names, 6 priority spellings, '
                       'initial blocks parsed from text with comments; distinct = distinct (initial text, op list); all are non-trivial')
    model_cases, wants, cases = [], [], []
    for _ in range(nh):
        init, ops = gen_history(ctx.rng, ctx.rng.randrange(1, nops))
        r = run_history(ctx, init, ops)
        ctx.case((tuple(init), tuple(ops)))
        if r is None:
            continue
        flat, want, case, ninit = r
        model_cases.append([10] + flat)
        wants.append((want, ninit))
        cases.append(case)
    if cases:
        ctx.sample(cases[0])
    ndom = domname_oracle(ctx)
    variables_oracle(ctx, 100 if quick else 2000, 12)
    ctx.extra['domnames_checked'] = ndom
    if ctx.model.available:
        outs = ctx.model.run(model_cases)
        agree = 0
        for (want, ninit), o, case in zip(wants, outs, cases):
            # model output has one record per op including the init ops; skip the first ninit records
            recs = split_records(o or [], ninit + len(want))
            got = recs[ninit:] if recs is not None else None
            if got == want:
                agree += 1
            else:
                ctx.disagree('decl', case, want[:3], (got or [])[:3])
        ctx.extra['correspondence'] = {'histories': len(cases), 'agree': agree}
        # DOM-name converters, all known names
        import cssutils
        from cssutils.css import cssproperties as cp
        names = [n for g in cssutils.profiles.properties for n in cssutils.profiles.properties[g]]
        outs = ctx.model.run([[11, 0] + s2n(n) for n in names] + [[11, 1] + s2n(cp._toDOMname(n)) for n in names])
        for n, o in zip(names, outs[:len(names)]):
            if o != s2n(cp._toDOMname(n)):
                ctx.disagree('to_dom_name', {'name': n}, cp._toDOMname(n), o)
        for n, o in zip(names, outs[len(names):]):
            if o != s2n(cp._toCSSname(cp._toDOMname(n))):
                ctx.disagree('to_css_name', {'name': n}, cp._toCSSname(cp._toDOMname(n)), o)
    else:
        ctx.broken.append(('correspondence', 'extracted model not available'))


def split_records(o, n):
    """parse the model's flat output into n records [ret(2) + observation]"""
    recs = []
    i = 0
    try:
        for _ in range(n):
            start = i
            i += 2
            nitems = o[i]; i += 1
            for _ in range(nitems):
                if o[i] == 1:
                    i += 1
                    l = o[i]; i += 1 + l
                    l = o[i]; i += 1 + l
                    i += 2
                else:
                    i += 2
            nk = o[i]; i += 1
            for _ in range(nk):
                l = o[i]; i += 1 + l
            recs.append(o[start:i])
        return recs if i == len(o) else None
    except IndexError:
        return None


def replay(path):
    d = json.load(open(path))
    print(json.dumps(d, indent=1)[:3000])
    return 0
