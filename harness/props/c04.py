"""C04 — syntax errors are contained: only the malformed construct is dropped;
constructs complete before a truncation point survive.
Coq: Model/Slice.v, Model/Blocks.v, Proofs/BlocksFacts.v, Props/C04.v.
Correspondence: the implementation's slicing trace vs the model on damaged inputs.
Search: (sheet, injection point, balanced garbage) triples and all prefixes."""
import json

from harness import core, gen_css as G, slicing

GEN = ['GenLex']

MANIFEST = dict(
    text='Machine-checked (Coq, closed under the global context) on the token-level model of bracket-aware slicing and the two dispatch '
         'loops: a malformed declaration or statement whose body does not reach an end token at bracket depth 0 and that is closed by one '
         'is cut out as exactly its own tokens (the offending first token may itself open a bracket or be a FUNCTION); what is cut out of the '
         'pieces before and after it is identical with and without it (containment), and nothing that follows complete pieces - a cut-off '
         'construct, the appended EOF - can change them (truncation). Model tied to the parser by its recorded slicing trace. The end-to-end '
         'claim on the DOM is searched: damaged sheet vs undamaged sheet projections; every prefix of sheets.',
    note='Trusted: Coq kernel + vm_compute; extraction + driver; hand models of _tokensupto2 / declaration loop / statement loop '
         '(validated by correspondence); generator/projection pair; garbage generator emits balanced token sequences only.',
    design='7/C04')

KNOWN_PRED = {}

GARBAGE_DECL = ['(x)', '[a]', '{a:b}', 'x(y)', 'x(y:1)', '$', '1px', '"s"', '#f00', ': red', '= 3', '* html', '.a', '@x y', '!', '! x',
                'U+1F', '<!--', 'f(a;b)', '[;]', '{;}', '~=', 'url(x)', '100%', '--> x', '( ( ) [ ] )', 'x( "a;b" )', '\\;', '@@',
                # a name followed by junk before the colon
                'color 3: red', 'color "x" #f00: red !important', 'margin 50% 2px: 0', 'top $: 1px', 'left , : 0', 'x 1px 2px: 3px',
                'color #fff: blue', 'top 1: 2', 'color: red: blue', 'color red', 'top:: 1px', ':top: 1px', 'a b: c',
                # identifiers whose value is a delimiter (hex escapes): they are no delimiters
                '\\7b ', '\\7d ', '$ \\7b ', '(\\29 )', 'x(\\29 )', '\\3b  $', '[\\5d ]', '\\28  x', '$: \\7b ', 'x \\7d : 1', '\\5b  \\7b  \\28']
GARBAGE_STMT = ['x(y){d:e}', '(y){d:e}', '[y]{d:e}', '$ {a:b}', 'a,,b{c:d}', 'a{{}}', '@unknown x;', '@unknown { a { b } }', '@import "late.css";',
                '@charset "x";', '@namespace "late";', '1px{a:b}', '"s"{a:b}', '#{a:b}', '.{a:b}',
                'a b c;', '@x (a;b) [c;d];', '@foo url() bar;', '@foo url( ) { a url() }', '@foo url("") bar;', '@import "x" print { x { y: 1 } }', '@import { "x" }', '@charset { a }', '@namespace p { "u" }', 'f(;){a:b}', '@page x x x { }', '@media {a{b:c}}', '@font-face;', 'a! {b:c}',
                '@x \\7b ;', '@x \\7d  y;', '\\7b  x;', '$ \\28 {a:b}', 'a,,\\7b {c:d}', '@x \\5b  { \\7d  }', '@media \\7b {a{b:c}}']


def may_leave(g):
    """may the damaged construct itself leave an item in the rule list?  An at-rule may (an unknown rule, a valid rule in
    the wrong place is decided by the caller), a comment does, and the one garbage entry that is a valid style rule.
    Anything else - selectors without a block, invalid selectors with a block - leaves nothing behind."""
    return g.startswith(('@', '/*')) or g in ('[y]{d:e}', 'a{{}}')     # (a{{}}: a valid selector, the damage is the declaration)


def parse(text):
    import cssutils
    from harness import impl
    impl.reset()
    return cssutils.CSSParser(fetcher=lambda u: None).parseString(text)


def style_rules(sem):
    return sem


def run(ctx):
    from harness import sem_dom as S
    rng = ctx.rng
    quick = ctx.tier == 'quick'
    n = 300 if quick else 8000
    ctx.cov['rule'] = ('(abstract sheet, injection point, balanced garbage) triples at declaration and statement boundaries, and prefixes of '
                       'rendered sheets; distinct = distinct damaged texts; all non-trivial')
    texts = []
    for i in range(n):
        # ---- statement-level injection
        sheet = [r for r in G.gen_sheet(rng) if r[0] not in ('charset', 'import', 'namespace')]
        if not sheet:
            continue
        sp = G.Spelling(rng, canonical=rng.random() < 0.5)
        parts = [G.r_rule(sp, r) for r in sheet]
        base = G.sem_sheet(sheet)
        k = rng.randrange(len(parts) + 1)
        g = rng.choice(GARBAGE_STMT)
        damaged = ' '.join(parts[:k] + [g] + parts[k:])
        case = {'text': damaged, 'garbage': g, 'level': 'statement', 'at': k}
        ctx.case(damaged)
        texts.append(damaged)
        try:
            got = S.sem_sheet(parse(damaged))
        except Exception as e:
            ctx.violation('raises', case, '%s: %s' % (type(e).__name__, e), KNOWN_PRED)
            continue
        # the damaged construct itself may leave at most one item (e.g. an unknown rule) at position k
        ok = got == base or (may_leave(g) and len(got) == len(base) + 1 and got[:k] == base[:k] and got[k + 1:] == base[k:])
        if not ok:
            ctx.violation('statement-containment', case, 'undamaged: %r\ndamaged: %r' % ([r[0] for r in base], [r[0] for r in got]) +
                          '\n' + repr(base)[:600] + '\n' + repr(got)[:600], KNOWN_PRED)
        # ---- injection inside an @media block: only the damaged statement is dropped
        inner = [r for r in sheet if r[0] == 'style'][:3] or [('style', [G.gen_selector(rng)], [G.gen_decl(rng)])]
        iparts = [G.r_rule(sp, r) for r in inner]
        k = rng.randrange(len(iparts) + 1)
        g = rng.choice(GARBAGE_STMT + ['@import "x.css";', '@namespace "u";', '@charset "utf-8";', '@font-face{font-family:x}',
                                       '@variables{a:b}', '@import url(y) print;'])
        mtext = '@media print{' + ' '.join(iparts[:k] + [g] + iparts[k:]) + '} z{y:x}'
        mbase = (('media', ((None, 'print', ()),), G.sem_sheet(inner)), G.sem_sheet([('style', [[('', ('z', []))]], [('y', [('', ('ident', 'x'))], False)])])[0])
        case = {'text': mtext, 'garbage': g, 'level': 'media-block', 'at': k}
        ctx.case(mtext)
        texts.append(mtext)
        try:
            got = S.sem_sheet(parse(mtext))
        except Exception as e:
            ctx.violation('raises', case, '%s: %s' % (type(e).__name__, e), KNOWN_PRED)
            got = None
        if got is not None:
            ok = len(got) == 2 and got[1] == mbase[1] and got[0][:2] == mbase[0][:2] and (
                got[0][2] == mbase[0][2] or (may_leave(g) and len(got[0][2]) == len(mbase[0][2]) + 1 and got[0][2][:k] == mbase[0][2][:k]
                                             and got[0][2][k + 1:] == mbase[0][2][k:]))
            if not ok:
                ctx.violation('media-block-containment', case, 'expected %r\ngot %r' % (mbase, got), KNOWN_PRED)
        # ---- declaration-level injection
        decls = [G.gen_decl(rng) for _ in range(rng.randrange(1, 5))]
        dparts = [G.r_decl(sp, d) for d in decls]
        k = rng.randrange(len(dparts) + 1)
        g = rng.choice(GARBAGE_DECL)
        ruletext = 'a{' + ';'.join(dparts[:k] + [g] + dparts[k:]) + '} b{c:d}'
        exp = (('style', ((G.sem_selector([('', ('a', []))]), (0, 0, 0, 1)),), tuple(G.sem_decl(d) for d in decls)),
               ('style', ((G.sem_selector([('', ('b', []))]), (0, 0, 0, 1)),), (('c', (('', ('ident', 'd')),), False),)))
        case = {'text': ruletext, 'garbage': g, 'level': 'declaration', 'at': k}
        ctx.case(ruletext)
        texts.append(ruletext)
        try:
            got = S.sem_sheet(parse(ruletext))
        except Exception as e:
            ctx.violation('raises', case, '%s: %s' % (type(e).__name__, e), KNOWN_PRED)
            continue
        if got != exp:
            ctx.violation('declaration-containment', case, 'expected %r\ngot %r' % (exp, got), KNOWN_PRED)
        # ---- truncation: every complete construct before the cut is present, unchanged
        if i % 3 == 0:
            full = ' '.join(parts)
            ends = []
            pos = 0
            for p in parts:
                pos += len(p)
                ends.append(pos)
                pos += 1
            cut = rng.randrange(len(full) + 1)
            ncomplete = sum(1 for e in ends if e <= cut)
            trunc = full[:cut]
            case = {'text': trunc, 'level': 'truncation', 'complete': ncomplete}
            ctx.case(('trunc', trunc))
            try:
                got = S.sem_sheet(parse(trunc))
            except Exception as e:
                ctx.violation('raises', case, '%s: %s' % (type(e).__name__, e), KNOWN_PRED)
                continue
            if got[:ncomplete] != base[:ncomplete]:
                ctx.violation('truncation', case, 'complete constructs %d: expected %r got %r' % (
                    ncomplete, base[:ncomplete], got[:ncomplete]), KNOWN_PRED)
        # ---- truncation inside nested blocks: every declaration closed by ';' and every rule closed by '}' before
        # the cut is present, under the same enclosing rules (cut points: after every ';', '}' and random ones)
        if i % 4 == 1:
            nested_truncation(ctx, rng, sp)
        if i == 2:
            ctx.sample(case)
    header_injection(ctx, rng)
    header_truncation(ctx)
    agree = slicing.correspondence(ctx, texts[:200 if quick else 4000])
    ctx.extra['correspondence'] = {'slicing_checks_agree_total': agree}


HEADER_SHEET = ['@charset "utf-8";', '@import "i.css" print;', '@namespace hp "http://h";', '@variables { hv: 1px; hw: red }',
                'hp|a { left: var(hv) }', '@media tv { b { color: var(hw) } }', '@page { margin: 1cm }', '@font-face { font-family: h }', 'z { top: 0 }']


def header_injection(ctx, rng):
    """a sheet holding every kind of header rule (@charset, @import, @namespace, @variables): a malformed or unknown
    statement at any boundary drops nothing else - rules, the variables and the namespaces stay what they were"""
    import cssutils
    from harness import sem_dom as S

    def facts(sh):
        return (S.sem_sheet(sh), sorted((k, sh.variables.getVariableValue(k)) for k in sh.variables.keys()), sorted(dict(sh.namespaces.items()).items()),
                [r.type for r in sh.cssRules if r.type not in (r.UNKNOWN_RULE, r.COMMENT)])
    base = facts(parse(' '.join(HEADER_SHEET)))
    for g in GARBAGE_STMT + ['@foo bar;', '@foo { a { b: c } }', '/*c*/', '@x (a) [b] "c";', '@namespace hp "http://other";', '@namespace "http://d2";',
                             '@charset "ascii";', '@import "late2.css" tv;', '@variables { hv: 9px }']:
        alone = parse(g)
        # some of the "garbage" is a valid rule by itself ([y]{d:e}, @media {a{b:c}}): before the header rules it
        # rightly ends the header section, so there it is no damage in the property's sense
        # (header rules are valid only in the header: further down they are misplaced, i.e. damage - see the k < 5 guard)
        valid_rule = any(r.type not in (r.UNKNOWN_RULE, r.COMMENT, r.CHARSET_RULE, r.IMPORT_RULE, r.NAMESPACE_RULE, r.VARIABLES_RULE) for r in alone.cssRules)
        if valid_rule:
            continue
        for k in range(len(HEADER_SHEET) + 1):
            if g.startswith(('@import', '@charset', '@namespace', '@variables')) and k < 5:
                continue      # a well-formed header rule in a header position is no garbage
            if k == 0:
                continue      # anything before @charset (a comment too) makes the @charset rule itself misplaced
            text = ' '.join(HEADER_SHEET[:k] + [g] + HEADER_SHEET[k:])
            case = {'text': text, 'garbage': g, 'level': 'header-statement', 'at': k}
            ctx.case(text)
            try:
                got = facts(parse(text))
            except Exception as e:
                ctx.violation('raises', case, '%s: %s' % (type(e).__name__, e), KNOWN_PRED)
                continue
            sem_ok = got[0] == base[0] or (may_leave(g) and len(got[0]) == len(base[0]) + 1 and any(got[0][:j] + got[0][j + 1:] == base[0] for j in range(len(got[0]))))
            if not sem_ok or got[1:] != base[1:]:
                ctx.violation('statement-containment', case, 'undamaged: variables %r namespaces %r rule types %r\ndamaged:   variables %r namespaces %r rule types %r' % (
                    base[1], base[2], base[3], got[1], got[2], got[3]), KNOWN_PRED)


def header_truncation(ctx):
    """every prefix of a sheet whose header rules use url(): parsing never raises and every statement complete before
    the cut is present with its type"""
    stmts = ['@charset "utf-8";', '@import url(i.css) print;', '@import url( "j.css" );', '@namespace hp url(http://h);', '@foo url(x) bar;',
             '@variables { hv: 1px }', 'hp|a { background: url(a.png) }', '@media tv { b { c: url(d) } }', 'z { top: 0 }']
    text = ' '.join(stmts)
    ends, pos = [], 0
    for st in stmts:
        pos += len(st)
        ends.append(pos)
        pos += 1
    full = [r.type for r in parse(text).cssRules]
    for cut in range(len(text) + 1):
        case = {'text': text[:cut], 'level': 'header-truncation'}
        ctx.case(('htrunc', cut))
        try:
            got = [r.type for r in parse(text[:cut]).cssRules]
        except Exception as e:
            ctx.violation('raises', case, '%s: %s' % (type(e).__name__, e), KNOWN_PRED)
            continue
        ncomplete = sum(1 for e in ends if e <= cut)
        if got[:ncomplete] != full[:ncomplete]:
            ctx.violation('truncation', case, '%d statements are complete before the cut: rule types %r, got %r' % (ncomplete, full[:ncomplete], got), KNOWN_PRED)


def nested_truncation(ctx, rng, sp):
    from harness import sem_dom as S
    prefix = rng.choice(['', '@media print{', '@media print{', '@media tv, print {\n'])
    rules = [('style', [G.gen_selector(rng)], [G.gen_decl(rng) for _ in range(rng.randrange(1, 4))]) for _ in range(rng.randrange(1, 4))]
    text = prefix
    marks = []          # (offset after which the thing is complete, rule index, number of declarations complete, rule complete)
    for j, r in enumerate(rules):
        text += G.r_selector(sp, r[1][0]) + '{'
        for n, d in enumerate(r[2]):
            text += G.r_decl(sp, d) + ';'
            marks.append((len(text), j, n + 1, False))
        text += '}'
        marks.append((len(text), j, len(r[2]), True))
        text += rng.choice(['', ' ', '\n'])
    sem_rules = G.sem_sheet(rules)
    cuts = sorted({m[0] for m in marks} | {rng.randrange(len(prefix), len(text) + 1) for _ in range(3)})
    for cut in cuts:
        done = [m for m in marks if m[0] <= cut]
        if not done:
            continue
        _, j, ndecl, closed = done[-1]
        trunc = text[:cut]
        case = {'text': trunc, 'level': 'nested-truncation', 'rule': j, 'declarations_complete': ndecl, 'rule_closed': closed}
        ctx.case(('ntrunc', trunc))
        try:
            got = S.sem_sheet(parse(trunc))
        except Exception as e:
            ctx.violation('raises', case, '%s: %s' % (type(e).__name__, e), KNOWN_PRED)
            continue
        if prefix:
            inner = got[0][2] if got and got[0][0] == 'media' else None
        else:
            inner = got
        ok = inner is not None and tuple(inner[:j]) == tuple(sem_rules[:j]) and len(inner) > j and inner[j][0] == 'style' \
            and inner[j][1] == sem_rules[j][1] and tuple(inner[j][2][:ndecl]) == tuple(sem_rules[j][2][:ndecl])
        if not ok:
            ctx.violation('truncation', case, 'complete before the cut: rules %r and %d declaration(s) of rule %d %r\ngot %r' % (
                sem_rules[:j], ndecl, j, sem_rules[j][2][:ndecl], got), KNOWN_PRED)


def replay(path):
    from harness import sem_dom as S
    d = json.load(open(path))
    print(d['case'])
    print(S.sem_sheet(parse(d['case']['text'])))
    print(d['detail'])
    return 0
