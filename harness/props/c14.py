"""C14 — the profile registry's verdicts depend on its contents, not its history.
Coq: Gen/GenProfiles.v (regenerated tables), Model/Profiles.v,
Proofs/ProfilesFacts.v, Props/C14.v.
Correspondence: operation histories on a private ``Profiles(log=cssutils.log)``
and on the extracted model in lock-step; after every operation: profiles,
knownNames, propertiesByProfile(), the size of every compiled table, the exact
compiled pattern text of every watched (profile, property), and the verdict
vector of a fixed battery through validate / validateWithProfile.
Search (independent of the model): the registry reached by the history must
behave like a fresh registry to which the registered profiles are added in the
same order; equal contents inside one history give equal observations;
validate == "some registered profile accepts"; defaultProfiles never changes
validity; removing an unknown profile raises and changes nothing."""
import json
import re

from harness import core
from harness.core import s2n

GEN = ['GenProfiles']

MANIFEST = dict(
    text='Machine-checked (Coq, closed under the global context) for every history of addProfile / addProfiles / removeProfile / '
         'removeProfile(all) / defaultProfiles assignments from Profiles(): the compiled tables, the macro table and knownNames are the '
         'recomputation from the registered profiles (inv_preserved, lifted with fold_left), hence two histories reaching the same '
         'registered profiles and defaults reach the same registry state (all verdicts, knownNames); add-then-remove is the identity; '
         'validate is true iff some registered profile defining the name accepts the value under the recomputed pattern; '
         'defaultProfiles (when registered) only moves the match between matching/non-matching; removing an unknown profile is rejected and changes nothing. '
         'The pinned removeProfile(all) and addProfiles are shown to break the invariant (C14_*_pinned_refuted); the model is the code with '
         'fixes/C14-*.patch. Macro expansion is modelled on pattern text exactly (re.sub passes to a fixpoint); what a compiled pattern '
         'accepts is a parameter of the theorems. Predefined tables are regenerated from profiles.py every run; the operations are tied to '
         'the implementation by lock-step histories including exact compiled pattern text.',
    note='Trusted: Coq kernel + vm_compute; translator/gen_profiles.py (import-and-dump of the live tables, AST check of the literals of '
         '_expand_macros/_compile_regexes); extraction + driver; hand model of the registry operations validated by correspondence; '
         "Python's re as the meaning of a compiled pattern (parameter `accepts`). Outside the model's domain (never generated, status "
         'SDup/SFail): adding a name that is already registered, patterns referring to undefined macros, cyclic macro tables.',
    design='7/C14')

KNOWN_PRED = {}

VALS = ['red', 'rgba(1,2,3,0.5)', '5', '5x', '-1', '1px', 'inherit', 'auto', 'abc', '#fff', 'a b', '50%', 'hsl(1,2%,3%)', '']
BNAMES = ['color', 'background-color', 'z-index', 'width', 'overflow', 'opacity', 'font-family', 'outline-color',
          'border-top-width', 'orphans', 'size', 'x-a', 'x-b', 'x-c', 'nope']
PNAMES = ['P0', 'P1', 'P2', 'P3', 'A first', 'zz last', 'CSS Level 2.0', 'CSS3 Basic']


def f_auto(v):
    return v == 'auto'


def f_five(v):
    return v.startswith('5')


FUNS = {1: f_auto, 2: f_five}
FUN_ID = {f_auto: 1, f_five: 2}

REF = re.compile(r'{([a-z][a-z0-9-]*)}')


def builtin_specs():
    """the predefined profiles as the constructor registers them"""
    import cssutils
    from cssutils.profiles import Profiles
    p = Profiles(log=cssutils.log)
    return [(n, dict(p._rawProfiles[n]['properties']), dict(p._rawProfiles[n]['macros'])) for n in p.profiles]


def macro_ranks(builtins):
    """rank of every predefined macro name: 1 + the largest rank it refers to,
    over all its definitions.  A generated definition of a name of rank k only
    refers to names of rank < k, so no combination of profiles is cyclic."""
    from cssutils.profiles import Profiles
    defs = {}
    for d in [Profiles._TOKEN_MACROS, Profiles._MACROS] + [b[2] for b in builtins]:
        for k, v in d.items():
            defs.setdefault(k, []).append(v)
    rank = {}

    def rk(n, stack=()):
        if n in rank:
            return rank[n]
        if n in stack:
            raise ValueError('cyclic predefined macros via %r' % n)
        r = 1 + max([rk(m, stack + (n,)) for v in defs.get(n, []) for m in REF.findall(v)] or [0])
        rank[n] = r
        return r
    for n in defs:
        rk(n)
    return rank


# literal pattern fragments (valid Python regexes, some with braces that are not macro references)
LITS = ['auto', 'none', 'x{1,2}', 'a{2}', '5x?', '[a-c]+', r'\d+x', 'abc|a b', 'inherit', r'{X}', r'\{q\}', 'red|5', '-?1']
SHADOWABLE = ['int', 'num', 'length', 'percentage', 'color', 'namedcolor', 'hexcolor', 'rgbcolor', 'integer', 'w', 'number',
              'uicolor', 'positivenum', 'border-width', 'border-style', 'overflow', 'rgbacolor', 'hslcolor', 'family-name', 'outline-color']
CUSTOM = ['m-a', 'm-b', 'm-c']
REDEFINE = ['color', 'z-index', 'width', 'overflow', 'opacity', 'outline-color', 'orphans', 'size', 'border-top-width', 'font-family']
NEWPROPS = ['x-a', 'x-b', 'x-c']


def gen_body(rng, refs):
    parts = []
    for _ in range(rng.randrange(1, 4)):
        if refs and rng.random() < 0.6:
            m = rng.choice(refs)
            # no unbounded repetition of a reference: nested with the quantifiers inside the
            # macros it makes re backtrack exponentially on the battery
            parts.append('{%s}%s' % (m, rng.choice(['', '', '?', '{1,2}', '{1,2}'])))
        else:
            parts.append(rng.choice(LITS))
    return rng.choice(['|', '|', r'\s*']).join(parts)


def gen_profile(rng, name, rank, always):
    """always: macro names defined in every registry state (base tables)"""
    macros = {}
    nm = rng.choice([0, 0, 1, 1, 2, 3])
    crank = max(rank.values())
    pool = [m for m in SHADOWABLE if m in rank] + CUSTOM
    for m in rng.sample(pool, min(nm, len(pool))):
        macros[m] = None
    order = {m: (rank[m] if m in rank else crank + 1 + CUSTOM.index(m)) for m in macros}
    for m in sorted(macros, key=lambda x: order[x]):
        k = order[m]
        refs = [a for a in always if rank[a] < k] + [o for o in macros if order[o] < k]
        macros[m] = gen_body(rng, refs if rng.random() < 0.8 else [])
    macros = {m: macros[m] for m in macros}
    props = {}
    for _ in range(rng.randrange(1, 4)):
        n = rng.choice(NEWPROPS + NEWPROPS + REDEFINE)
        r = rng.random()
        if r < 0.1:
            props[n] = rng.choice([1, 2])
        else:
            props[n] = gen_body(rng, list(always) + list(macros))
    return (name, props, macros)


def gen_history(rng, nops, builtins, rank, always):
    reg = [b[0] for b in builtins]            # registered names, in order
    bnames = [b[0] for b in builtins]
    ops = []
    for _ in range(nops):
        r = rng.random()
        free = [n for n in PNAMES if n not in reg]
        freeb = [i for i, n in enumerate(bnames) if n not in reg]
        if r < 0.34 and free:
            spec = gen_profile(rng, rng.choice(free), rank, always)
            ops.append(['add', spec_json(spec)])
            reg.append(spec[0])
        elif r < 0.42 and freeb:
            i = rng.choice(freeb)
            ops.append(['add', ['builtin', i]])
            reg.append(bnames[i])
        elif r < 0.56 and (free or freeb):
            batch = []
            for _ in range(rng.randrange(1, 4)):
                free = [n for n in PNAMES if n not in reg]
                freeb = [i for i, n in enumerate(bnames) if n not in reg]
                if freeb and (rng.random() < 0.3 or not free):
                    i = rng.choice(freeb)
                    batch.append(['builtin', i])
                    reg.append(bnames[i])
                elif free:
                    spec = gen_profile(rng, rng.choice(free), rank, always)
                    batch.append(spec_json(spec))
                    reg.append(spec[0])
            ops.append(['addmany', batch])
        elif r < 0.80 and reg:
            gen_first = [n for n in reg if n not in bnames]
            n = rng.choice(gen_first) if gen_first and rng.random() < 0.6 else rng.choice(reg)
            ops.append(['remove', n])
            reg.remove(n)
        elif r < 0.85:
            ops.append(['remove', rng.choice([n for n in PNAMES + bnames if n not in reg] or ['no such profile'])])
        elif r < 0.88:
            ops.append(['removeall'])
            del reg[:]
        else:
            k = rng.random()
            if k < 0.15 or not reg:
                ops.append(['defaults', rng.choice([None, []])])
            elif k < 0.4:
                ops.append(['defaults', rng.choice(reg)])
            elif k < 0.93:
                ops.append(['defaults', rng.sample(reg, rng.randrange(1, min(4, len(reg)) + 1))])
            else:   # a name that is not registered: validateWithProfile then raises KeyError (modelled, not asserted)
                ops.append(['defaults', rng.sample(reg, min(1, len(reg))) + ['P-dangling']])
    return ops


def spec_json(spec):
    name, props, macros = spec
    return ['gen', name, [[k, v] for k, v in props.items()], [[k, v] for k, v in macros.items()]]


def spec_py(sj, builtins):
    if sj[0] == 'builtin':
        n, props, macros = builtins[sj[1]]
        return n, dict(props), dict(macros)
    props = {k: (FUNS[v] if isinstance(v, int) else v) for k, v in sj[2]}
    return sj[1], props, dict(sj[3])


def enc_spec(sj):
    if sj[0] == 'builtin':
        return [0, sj[1]]
    out = [1, len(sj[1])] + s2n(sj[1]) + [len(sj[2])]
    for k, v in sj[2]:
        out += [len(k)] + s2n(k) + ([1, v] if isinstance(v, int) else [0, len(v)] + s2n(v))
    out.append(len(sj[3]))
    for k, v in sj[3]:
        out += [len(k)] + s2n(k) + [len(v)] + s2n(v)
    return out


def enc_op(op):
    if op[0] == 'add':
        return [0] + enc_spec(op[1])
    if op[0] == 'addmany':
        return [1, len(op[1])] + [x for s in op[1] for x in enc_spec(s)]
    if op[0] == 'remove':
        return [2, len(op[1])] + s2n(op[1])
    if op[0] == 'removeall':
        return [3]
    d = op[1]
    ds = [] if not d else ([d] if isinstance(d, str) else list(d))
    return [4, len(ds)] + [x for s in ds for x in [len(s)] + s2n(s)]


# ------------------------------------------------------------------ implementation side

def cval_of(v):
    """canonical form of a compiled validator"""
    if hasattr(v, 'pattern'):
        return ('S', v.pattern)
    return ('F', FUN_ID.get(v, 0))


def observe(p, with_internal=True):
    """everything the property talks about, through the public API; plus (for
    the correspondence only) the compiled pattern text of the watched names"""
    from harness import impl
    obs = {}
    obs['profiles'] = list(p.profiles)
    obs['known'] = sorted(p.knownNames)
    try:
        obs['pbp'] = list(p.propertiesByProfile())
    except Exception as e:
        obs['pbp'] = 'EXC:' + type(e).__name__
    verd = []
    for n in BNAMES:
        for v in VALS:
            try:
                a = bool(p.validate(n, v))
            except Exception as e:
                a = 'EXC:' + type(e).__name__
            try:
                w = p.validateWithProfile(n, v)
                w = [bool(w[0]), bool(w[1]), list(w[2])]
            except Exception as e:
                w = 'EXC:' + type(e).__name__
            verd.append([a, w])
    obs['verdicts'] = verd
    if with_internal:
        pp = p._profilesProperties
        obs['sizes'] = [[len(pp[n]), sum(len(x.pattern) for x in pp[n].values() if hasattr(x, 'pattern'))] if n in pp else None
                        for n in p.profiles]
        obs['hits'] = [[(i, cval_of(pp[pn][n])) for i, pn in enumerate(p.profiles) if pn in pp and n in pp[pn]] for n in BNAMES]
        # LazyRegex: re.I before the first use, re.I | re.U after it
        obs['badflags'] = sorted(set(int(x.flags) for d in pp.values() for x in d.values()
                                     if hasattr(x, 'pattern') and int(x.flags) & ~int(re.U) != int(re.I)))
    return obs


PUBLIC = ('profiles', 'known', 'pbp', 'verdicts')


def public(obs):
    return {k: obs[k] for k in PUBLIC}


def diff_public(a, b):
    for k in ('profiles', 'known', 'pbp'):
        if a[k] != b[k]:
            return '%s: %r vs %r' % (k, _short(a[k], b[k]), _short(b[k], a[k]))
    for i, (x, y) in enumerate(zip(a['verdicts'], b['verdicts'])):
        if x != y:
            return 'verdict for (%r, %r): validate, validateWithProfile = %r vs %r' % (
                BNAMES[i // len(VALS)], VALS[i % len(VALS)], x, y)
    return None


def _short(a, b):
    if isinstance(a, list) and isinstance(b, list):
        return [x for x in a if x not in b][:6] or a[:6]
    return a


def apply_op(p, op, builtins):
    """returns 0 ok / 1 NoSuchProfileException; other exceptions propagate"""
    from cssutils.profiles import NoSuchProfileException
    if op[0] == 'add':
        n, props, macros = spec_py(op[1], builtins)
        p.addProfile(n, props, macros)
    elif op[0] == 'addmany':
        p.addProfiles([spec_py(s, builtins) for s in op[1]])
    elif op[0] == 'remove':
        try:
            p.removeProfile(op[1])
        except NoSuchProfileException:
            return 1
    elif op[0] == 'removeall':
        p.removeProfile(all=True)
    else:
        d = op[1]
        p.defaultProfiles = list(d) if isinstance(d, list) else d
    return 0


def fresh_like(content, defaults, builtins, mode):
    """a new registry holding exactly `content` (list of spec json) in order"""
    import cssutils
    from cssutils.profiles import Profiles
    q = Profiles(log=cssutils.log)
    nb = len(builtins)
    if [c for c in content[:nb]] == [['builtin', i] for i in range(nb)]:
        rest = content[nb:]
    else:
        for n in list(q.profiles):
            q.removeProfile(n)
        rest = content
    if mode == 'batch' and rest:
        q.addProfiles([spec_py(s, builtins) for s in rest])
    else:
        for s in rest:
            n, props, macros = spec_py(s, builtins)
            q.addProfile(n, props, macros)
    if defaults is not None:
        q.defaultProfiles = list(defaults) if isinstance(defaults, list) else defaults
    return q


def name_of(sj, builtins):
    return builtins[sj[1]][0] if sj[0] == 'builtin' else sj[1]


def run_case(case):
    """worker: run one history on the implementation; returns violations, the
    model input and the expected model output (structured)"""
    import cssutils
    from cssutils.profiles import Profiles
    from harness import impl
    impl.reset()
    builtins = builtin_specs()
    ops = case['ops']
    modes = case['modes']
    viol = []
    p = Profiles(log=cssutils.log)
    content = [['builtin', i] for i in range(len(builtins))]
    defaults = None
    obs = observe(p)
    records = [(None, obs)]
    seen = {}

    def key():
        return json.dumps([content, defaults if defaults else None])
    seen[key()] = (-1, public(obs))
    for k, op in enumerate(ops):
        before = obs
        try:
            st = apply_op(p, op, builtins)
        except Exception as e:
            viol.append(('raises', 'op %d %s raised %s: %s' % (k, op[0], type(e).__name__, str(e)[:200])))
            break
        obs = observe(p)
        records.append((st, obs))
        # reference contents
        if op[0] == 'add':
            content.append(op[1])
        elif op[0] == 'addmany':
            content.extend(op[1])
        elif op[0] == 'remove':
            names = [name_of(c, builtins) for c in content]
            if op[1] in names:
                if st != 0:
                    viol.append(('remove-known', 'op %d: removing the registered profile %r was rejected' % (k, op[1])))
                del content[names.index(op[1])]
            else:
                # removing an unknown profile is rejected and changes nothing
                if st != 1:
                    viol.append(('remove-unknown', 'op %d: removeProfile(%r) of an unknown profile did not raise NoSuchProfileException' % (k, op[1])))
                d = diff_public(public(before), public(obs))
                if d:
                    viol.append(('remove-unknown', 'op %d: rejected removeProfile(%r) changed the registry: %s' % (k, op[1], d)))
        elif op[0] == 'removeall':
            del content[:]
        else:
            defaults = op[1]
            # restricting the default profiles never changes validity
            for i, (x, y) in enumerate(zip(before['verdicts'], obs['verdicts'])):
                if x[0] != y[0] or (isinstance(x[1], list) and isinstance(y[1], list) and x[1][0] != y[1][0]):
                    viol.append(('defaults', 'op %d: defaultProfiles = %r changed the validity of (%r, %r): %r -> %r' % (
                        k, op[1], BNAMES[i // len(VALS)], VALS[i % len(VALS)], x, y)))
                    break
        names = [name_of(c, builtins) for c in content]
        if obs['profiles'] != names:
            viol.append(('profiles', 'op %d: profiles is %r, registered in order: %r' % (k, obs['profiles'], names)))
        # validate == validateWithProfile's validity == some registered profile accepts
        for i, (a, w) in enumerate(obs['verdicts']):
            n, v = BNAMES[i // len(VALS)], VALS[i % len(VALS)]
            if isinstance(a, str):
                viol.append(('raises', 'op %d: validate(%r, %r) raised %s' % (k, n, v, a)))
                break
            if isinstance(w, list) and w[0] != a:
                viol.append(('valid-iff', 'op %d: validate(%r, %r) = %r but validateWithProfile says %r' % (k, n, v, a, w)))
                break
        if not any(isinstance(a, str) for a, _ in obs['verdicts']) and names == obs['profiles']:
            for n in BNAMES:
                for v in VALS[:6]:
                    try:
                        some = any(p.validateWithProfile(n, v, [pn])[1] for pn in names)
                    except Exception as e:
                        viol.append(('raises', 'op %d: validateWithProfile(%r, %r, [profile]) raised %s' % (k, n, v, type(e).__name__)))
                        break
                    a = obs['verdicts'][BNAMES.index(n) * len(VALS) + VALS.index(v)][0]
                    if some != a:
                        viol.append(('valid-iff', 'op %d: validate(%r, %r) = %r but %s registered profile accepts it' % (
                            k, n, v, a, 'some' if some else 'no')))
        # equal contents inside this history => equal observations
        kk = key()
        if kk in seen:
            d = diff_public(seen[kk][1], public(obs))
            if d:
                viol.append(('restore', 'after op %d the registered profiles and defaults are those after op %d, but %s' % (k, seen[kk][0], d)))
        else:
            seen[kk] = (k, public(obs))
        # the registry must behave like a fresh one with the same contents
        try:
            q = fresh_like(content, defaults, builtins, modes[k])
            fo = observe(q, with_internal=False)
        except Exception as e:
            viol.append(('fresh-raises', 'op %d: building a fresh registry with the same profiles raised %s: %s' % (k, type(e).__name__, str(e)[:200])))
            break
        d = diff_public(public(obs), fo)
        if d:
            viol.append(('fresh-registry', 'after op %d (%s) the registry differs from a fresh registry with the same profiles added %s: %s' % (
                k, op[0], 'in one addProfiles call' if modes[k] == 'batch' else 'one by one', d)))
        if viol:
            break
    # ---- model input / expected output
    table = {}
    for _, o in records:
        for hs in o['hits']:
            for _, c in hs:
                if c not in table:
                    table[c] = len(table) + 1
    flat = [len(VALS)] + [x for v in VALS for x in [len(v)] + s2n(v)]
    flat += [len(BNAMES)] + [x for v in BNAMES for x in [len(v)] + s2n(v)]
    flat.append(len(table))
    badflags = sorted(set(f for _, o in records for f in o['badflags']))
    for c in table:
        if c[0] == 'S':
            rx = re.compile(c[1], re.I)
            flat += [0, len(c[1])] + s2n(c[1]) + [1 if rx.match(v) else 0 for v in VALS]
        else:
            flat += [1, c[1]] + [1 if FUNS[c[1]](v) else 0 for v in VALS]
    nrec = len(records) - 1
    flat.append(nrec)
    for op in ops[:nrec]:
        flat += enc_op(op)
    want = []
    for st, o in records:
        w = {'st': st, 'profiles': o['profiles'], 'known': o['known'], 'pbp': o['pbp'] if isinstance(o['pbp'], list) else None,
             'sizes': o['sizes'],
             'hits': [[[i + 1, table[c]] for i, c in hs] for hs in o['hits']],
             'verdicts': [[a, (w_ if isinstance(w_, str) else [w_[0], w_[1], [o['profiles'].index(x) + 1 if x in o['profiles'] else 0 for x in w_[2]]])]
                          for a, w_ in o['verdicts']]}
        want.append(w)
    final = None
    if case.get('dump') and not viol:
        pp = p._profilesProperties
        final = [[n, [[k, list(cval_of(v))] for k, v in pp[n].items()]] for n in p.profiles if n in pp]
    return {'viol': viol, 'flat': flat, 'want': want, 'nops_done': nrec, 'badflags': badflags,
            'kinds': sorted(set(o[0] for o in ops)), 'final': final,
            'opsflat': [142, nrec] + [x for op in ops[:nrec] for x in enc_op(op)]}


def decode_dump(o):
    """output of entry 142 -> [[profile, [[name, [kind, value]]...]]...]"""
    i, out = 1, []
    try:
        while i < len(o):
            l = o[i]; name = ''.join(map(chr, o[i + 1:i + 1 + l])); i += 1 + l
            n = o[i]; i += 1
            props = []
            for _ in range(n):
                l = o[i]; k = ''.join(map(chr, o[i + 1:i + 1 + l])); i += 1 + l
                if o[i] == 0:
                    l = o[i + 1]; props.append([k, ['S', ''.join(map(chr, o[i + 2:i + 2 + l]))]]); i += 2 + l
                else:
                    props.append([k, ['F', o[i + 1]]]); i += 2
            out.append([name, props])
        return out if len(out) == o[0] else None
    except IndexError:
        return None


def decode(o, nrec):
    """model output -> list of structured records (None if malformed)"""
    i = 0
    recs = []

    def rd_strs():
        nonlocal i
        n = o[i]; i += 1
        out = []
        for _ in range(n):
            l = o[i]; i += 1
            out.append(''.join(map(chr, o[i:i + l]))); i += l
        return out
    try:
        for r in range(nrec + 1):
            st = None
            if r > 0:
                st = o[i]; i += 1
            profiles = rd_strs()
            known = sorted(rd_strs())
            flag = o[i]; i += 1
            pbp = rd_strs() if flag else None
            sizes = []
            for _ in profiles:
                sizes.append([o[i], o[i + 1]]); i += 2
            hits = []
            for _ in BNAMES:
                n = o[i]; i += 1
                hits.append([[o[i + 2 * j], o[i + 2 * j + 1]] for j in range(n)]); i += 2 * n
            verd = []
            for _ in BNAMES:
                for _ in VALS:
                    a = bool(o[i]); i += 1
                    if o[i] == 2:
                        w = 'EXC:KeyError'; i += 1
                    else:
                        n = o[i + 2]
                        w = [bool(o[i]), bool(o[i + 1]), o[i + 3:i + 3 + n]]; i += 3 + n
                    verd.append([a, w])
            recs.append({'st': st, 'profiles': profiles, 'known': known, 'pbp': pbp, 'sizes': sizes, 'hits': hits, 'verdicts': verd})
        return recs if i == len(o) else None
    except IndexError:
        return None


def first_diff(want, got):
    if got is None:
        return 'model output malformed'
    for k, (w, g) in enumerate(zip(want, got)):
        for f in ('st', 'profiles', 'known', 'pbp', 'sizes', 'hits'):
            if w[f] != g[f]:
                return 'record %d field %s: impl %r model %r' % (k, f, _short(w[f], g[f]), _short(g[f], w[f]))
        for j, (x, y) in enumerate(zip(w['verdicts'], g['verdicts'])):
            if x != y:
                return 'record %d verdict (%r, %r): impl %r model %r' % (k, BNAMES[j // len(VALS)], VALS[j % len(VALS)], x, y)
    if len(want) != len(got):
        return 'record count %d vs %d' % (len(want), len(got))
    return None


FIXED_HISTORIES = [
    # DESIGN.md section 8 row 21: remove-all keeps the macro table
    [['removeall'], ['add', ['gen', 'P0', [['x-a', '{color}']], []]], ['add', ['gen', 'P1', [['x-b', '{int}']], [['int', r'\d+']]]],
     ['remove', 'P1']],
    # addProfiles shadowing a known macro, then an add/remove pair that forces the re-expansion
    [['addmany', [['gen', 'P0', [['x-a', '{int}']], [['int', r'\d+x']]]]], ['add', ['gen', 'P1', [['x-b', 'a']], [['w', r'\s*']]]],
     ['remove', 'P1']],
    # shadowing token macros and other profiles' macros, removal in the other order
    [['add', ['gen', 'P0', [['x-a', '{m-a}|{int}'], ['z-index', '{m-a}']], [['m-a', '5x'], ['int', '5']]]],
     ['add', ['gen', 'P1', [['x-b', '{m-a}']], [['m-a', 'abc']]]], ['remove', 'P0'], ['remove', 'P1']],
    [['remove', 'CSS Color Module Level 3'], ['add', ['builtin', 4]], ['defaults', 'CSS Level 2.1'], ['remove', 'CSS Level 2.1'],
     ['defaults', None]],
]


def callable_family(ctx):
    """profiles whose value checks are functions, some of which raise on some values (the documented int(v) > 0 style):
    a value is valid iff SOME registered profile accepts it - in every registration order, for validate() and
    validateWithProfile(), and whatever the default profiles are.  Search only."""
    import itertools
    import cssutils
    from cssutils.profiles import Profiles
    from harness import impl

    def positive(v):
        return int(v) > 0           # raises ValueError on a non-number

    def never(v):
        return False

    def boom(v):
        raise RuntimeError('checker failed')
    specs = {'loose': {'x-n': r'[a-z]+|-?[0-9]+'}, 'strict': {'x-n': positive}, 'never': {'x-n': never}, 'boom': {'x-n': boom}, 'other': {'x-m': '1'}}
    truth = {'loose': lambda v: v.isalpha() or v.lstrip('-').isdigit() and bool(v.lstrip('-')), 'strict': lambda v: v.lstrip('-').isdigit() and int(v) > 0,
             'never': lambda v: False, 'boom': lambda v: False, 'other': lambda v: False}
    values = ['5', '-5', 'abc', 'ABC', '0', '1x']
    for names in itertools.permutations(['loose', 'strict', 'never', 'boom', 'other'], 3):
        impl.reset(raise_exceptions=False)
        P = Profiles(log=cssutils.log)
        for n_ in names:
            P.addProfile(n_, specs[n_])
        for dp in (None, [names[0]], [names[-1]]):
            P.defaultProfiles = dp
            for v in values:
                case = {'family': 'callable-profiles', 'order': list(names), 'defaultProfiles': dp, 'value': v}
                ctx.case(('callable', names, tuple(dp or ()), v))
                want = any(truth[n_](v) for n_ in names if 'x-n' in specs[n_])
                try:
                    got = (P.validate('x-n', v), P.validateWithProfile('x-n', v)[0])
                except Exception as e:  # noqa
                    ctx.violation('raises', case, '%s: %s' % (type(e).__name__, e), KNOWN_PRED)
                    continue
                if got != (want, want):
                    ctx.violation('valid-iff', case, '(validate, validateWithProfile[0]) = %r, some registered profile accepts: %r' % (got, want), KNOWN_PRED)
    impl.reset()
    # nothing a registry does reaches another registry: a brand-new Profiles() gives the verdicts it gave before
    battery = [('z-index', '5'), ('z-index', 'z'), ('orphans', '2'), ('width', '1.5px'), ('width', 'z'), ('color', 'red'), ('margin', '1px 2px'), ('opacity', '0.5')]

    def fresh_verdicts():
        P_ = Profiles(log=cssutils.log)
        return [P_.validateWithProfile(n_, v_)[:2] for n_, v_ in battery]
    before = fresh_verdicts()
    SEQS = {
        'removeProfile(all); addProfiles shadowing a token macro; removeProfile': lambda P_: (P_.removeProfile(all=True), P_.addProfiles([('x-a', {'x-a-p': '{int}'}, {'int': 'z', 'num': 'z'})]), P_.removeProfile('x-a')),
        'removeProfile(all); addProfile with a new macro; removeProfile': lambda P_: (P_.removeProfile(all=True), P_.addProfile('x-b', {'x-b-p': '{x-new}'}, {'x-new': 'z'}), P_.removeProfile('x-b')),
        'addProfile shadowing num; removeProfile': lambda P_: (P_.addProfile('x-c', {'x-c-p': '{num}'}, {'num': 'z'}), P_.removeProfile('x-c')),
        'addProfiles shadowing length; removeProfile(all)': lambda P_: (P_.addProfiles([('x-d', {'x-d-p': '{length}'}, {'length': 'z'})]), P_.removeProfile(all=True)),
    }
    for name, seq in SEQS.items():
        ctx.case(('fresh-after', name))
        try:
            seq(Profiles(log=cssutils.log))
            after = fresh_verdicts()
        except Exception as e:  # noqa
            ctx.violation('raises', {'family': 'fresh-registry', 'sequence': name}, '%s: %s' % (type(e).__name__, e), KNOWN_PRED)
            continue
        if after != before:
            diff = [(battery[i], before[i], after[i]) for i in range(len(battery)) if before[i] != after[i]]
            ctx.violation('fresh-registry', {'family': 'fresh-registry', 'sequence': name},
                          'a brand-new Profiles() after the sequence differs (pair, before, after): %r' % diff, KNOWN_PRED)
    impl.reset()


def restriction_forms_family(ctx):
    """validateWithProfile(name, value, profiles=R): R given as a single name, a tuple or a list is the same restriction;
    whether the value is valid never depends on R (only which profile is reported as matching does), and it is the
    verdict of validate().  Registered names that contain one another (the predefined ones do) included.  Search only."""
    import cssutils
    from cssutils.profiles import Profiles
    P = Profiles(log=cssutils.log)
    P.addProfile('CSS', {'x-r-short': 'short'})
    P.addProfile('CSS x', {'x-r-long': 'long'})
    P.addProfile('x', {'x-r-x': 'ex'})
    names = list(P.profiles)
    pairs = [('font-size-adjust', 'none'), ('font-size-adjust', '0.5'), ('src', 'url(a)'), ('font-family', 'x'), ('color', 'red'), ('color', 'rgba(1,2,3,0.5)'),
             ('opacity', '0.5'), ('x-r-short', 'short'), ('x-r-long', 'long'), ('x-r-x', 'ex'), ('x-r-x', 'no'), ('width', '1px'), ('width', 'bogus'), ('unicode-range', 'u+0-7f'),
             ('box-shadow', 'none'), ('z-index', '1')]
    for n_, v_ in pairs:
        try:
            ref = bool(P.validate(n_, v_))
            free = P.validateWithProfile(n_, v_)
        except Exception as e:   # noqa
            ctx.violation('raises', {'family': 'restriction-forms', 'name': n_, 'value': v_}, '%s: %s' % (type(e).__name__, e), KNOWN_PRED)
            continue
        if bool(free[0]) != ref:
            ctx.violation('valid-iff', {'family': 'restriction-forms', 'name': n_, 'value': v_}, 'validate %r, validateWithProfile %r' % (ref, free), KNOWN_PRED)
        for r_ in names:
            got = {}
            for form, arg in (('str', r_), ('tuple', (r_,)), ('list', [r_])):
                ctx.case(('restriction', n_, v_, r_, form))
                try:
                    got[form] = tuple(P.validateWithProfile(n_, v_, arg))
                except Exception as e:   # noqa
                    got[form] = 'raised %s' % type(e).__name__
            if len(set(map(repr, got.values()))) > 1:
                ctx.violation('restriction-form', {'family': 'restriction-forms', 'name': n_, 'value': v_, 'profiles': r_},
                              'the same restriction in three forms: %r' % got, KNOWN_PRED)
            elif isinstance(got['str'], tuple) and bool(got['str'][0]) != ref:
                ctx.violation('valid-iff', {'family': 'restriction-forms', 'name': n_, 'value': v_, 'profiles': r_},
                              'restricted to %r: %r, but validate() says %r' % (r_, got['str'], ref), KNOWN_PRED)


def default_profiles_reach_family(ctx):
    """setting defaultProfiles changes which profile a value is matched against and nothing else: the listing of
    properties (all, per profile), knownNames, profiles and validity stay what they were.  Search only."""
    import cssutils
    from cssutils.profiles import Profiles
    pairs = [('color', 'red'), ('opacity', '0.5'), ('src', 'url(a)'), ('width', 'bogus'), ('x-none', '1'), ('font-size-adjust', 'none')]

    def listing(P):
        return {'all': sorted(P.propertiesByProfile()), 'known': sorted(P.knownNames), 'profiles': list(P.profiles),
                'per': {n: sorted(P.propertiesByProfile(n)) for n in P.profiles},
                'valid': [(bool(P.validate(n, v)), bool(P.validateWithProfile(n, v)[0])) for n, v in pairs]}
    P = Profiles(log=cssutils.log)
    P.addProfile('x-dp', {'x-dp-a': 'a'})
    before = listing(P)
    if before['all'] != before['known']:
        ctx.violation('listing', {'family': 'default-profiles-reach'}, 'propertiesByProfile() lists %d names, knownNames %d' % (len(before['all']), len(before['known'])), KNOWN_PRED)
    names = list(P.profiles)
    for sub in [names[:1], names[1:2], names[-1:], names[:2], [names[0], names[-1]], names]:
        ctx.case(('default-profiles-reach', tuple(sub)))
        try:
            P.defaultProfiles = sub
            after = listing(P)
        except Exception as e:  # noqa
            ctx.violation('raises', {'family': 'default-profiles-reach', 'defaultProfiles': sub}, '%s: %s' % (type(e).__name__, e), KNOWN_PRED)
            continue
        if after != before:
            d = [k for k in before if before[k] != after[k]]
            ctx.violation('listing', {'family': 'default-profiles-reach', 'defaultProfiles': sub},
                          'changed by setting defaultProfiles: %r (e.g. %d names listed, %d before)' % (d, len(after['all']), len(before['all'])), KNOWN_PRED)


def run(ctx):
    from harness import impl
    quick = ctx.tier == 'quick'
    callable_family(ctx)
    restriction_forms_family(ctx)
    default_profiles_reach_family(ctx)
    nh, maxops = (220, 25) if quick else (2500, 25)
    rng = ctx.rng
    builtins = builtin_specs()
    rank = macro_ranks(builtins)
    from cssutils.profiles import Profiles
    always = sorted(set(Profiles._TOKEN_MACROS) | set(Profiles._MACROS))
    ctx.cov['rule'] = ('operation histories (<= 25 ops: addProfile / addProfiles of generated and predefined profiles, removeProfile of '
                       'registered, predefined and unknown names, removeProfile(all), defaultProfiles = None/[]/name/list) from Profiles(); '
                       'generated profiles add new properties, redefine predefined ones (regex or callable) and define 0-3 macros shadowing '
                       'token macros, general macros, predefined profiles\' macros and each other; battery %d names x %d values; '
                       'distinct = distinct op list; all are non-trivial' % (len(BNAMES), len(VALS)))
    cases = []
    for h in FIXED_HISTORIES:
        cases.append({'ops': h, 'modes': ['single' if i % 2 else 'batch' for i in range(len(h))]})
    for _ in range(nh):
        ops = gen_history(rng, rng.randrange(1, maxops + 1), builtins, rank, always)
        cases.append({'ops': ops, 'modes': [rng.choice(['single', 'batch']) for _ in ops]})
    for c in cases[:12 if quick else 150]:
        c['dump'] = True
    pool = impl.Pool('harness.props.c14.run_case', nproc=12)
    results = pool.map(cases, lambda c: 60)
    model_cases, wants, mcases = [], [], []
    dumps = []
    kinds = {}
    for case, res in zip(cases, results):
        ctx.case(json.dumps(case['ops']))
        if res[0] == 'timeout':
            # a generated pattern that makes `re` backtrack for a minute says nothing about the registry
            ctx.count('history_timeouts')
            continue
        if res[0] != 'ok':
            ctx.broken.append(('harness', 'history runner failed: %r on %s' % (res[:2], json.dumps(case)[:400])))
            continue
        r = res[1]
        for kd in r['kinds']:
            kinds[kd] = kinds.get(kd, 0) + 1
        for kind, detail in r['viol']:
            ctx.violation(kind, case, detail, KNOWN_PRED)
        if r['badflags']:
            ctx.broken.append(('translation', 'compiled patterns carry flags %r, the table assumes re.I only' % r['badflags'][:3]))
        ctx.count('ops', r['nops_done'])
        model_cases.append([140] + r['flat'])
        if r['final'] is not None:
            dumps.append((r['opsflat'], r['final'], case))
        wants.append(r['want'])
        mcases.append(case)
    if ctx.counters.get('history_timeouts', 0) > len(cases) // 50:
        ctx.broken.append(('harness', '%d of %d histories timed out' % (ctx.counters['history_timeouts'], len(cases))))
    ctx.sample(cases[len(FIXED_HISTORIES)] if len(cases) > len(FIXED_HISTORIES) else cases[0])
    ctx.extra['op_kinds'] = kinds
    if ctx.model.available:
        outs = ctx.model.run(model_cases, shards=12)
        agree = 0
        for want, o, case in zip(wants, outs, mcases):
            d = first_diff(want, decode(o, len(want) - 1) if o is not None else None)
            if d is None:
                agree += 1
            else:
                ctx.disagree('registry', case, d, None)
        # every compiled pattern of every profile, exact text, at the end of some histories
        douts = ctx.model.run([d[0] for d in dumps], shards=6)
        dagree = 0
        for (_, final, case), o in zip(dumps, douts):
            got = decode_dump(o) if o is not None else None
            if got is not None and [g[0] for g in got] == [f[0] for f in final] and \
                    all(sorted(g[1]) == sorted(f[1]) for g, f in zip(got, final)):
                dagree += 1
            else:
                ctx.disagree('compiled-tables', case, 'full compiled tables differ', None)
        ctx.extra['correspondence'] = {'histories': len(mcases), 'agree': agree, 'full_table_dumps': len(dumps), 'dumps_agree': dagree}
        expansion_check(ctx, builtins)
    else:
        ctx.broken.append(('correspondence', 'extracted model not available'))


def expansion_check(ctx, builtins):
    """the expander alone, on brace-heavy text (Profiles._expand_macros vs Model.expand)"""
    import cssutils
    from cssutils.profiles import Profiles
    rng = ctx.rng
    p = Profiles(log=cssutils.log)
    base = dict(Profiles._TOKEN_MACROS)
    base.update(Profiles._MACROS)
    frag = ['{', '}', '{a}', '{int}', '{w}', '{m-a}', '{m-b}', '{1,2}', '{a', 'a}', '{{int}}', '{A}', '{a_b}', '{-a}', '{a-}', '{a1}', '{1a}',
            'x', '|', '(', ')', '\\', '{}', '{int', '{int}{w}', '{é}', 'é']
    cases, exp = [], []
    for _ in range(300 if ctx.tier == 'quick' else 5000):
        ms = {}
        if rng.random() < 0.7:
            ms['m-a'] = ''.join(rng.choice(frag[7:]) for _ in range(rng.randrange(0, 4)))
        if rng.random() < 0.5:
            ms['m-b'] = '{m-a}' + rng.choice(frag[7:]) if 'm-a' in ms else 'b'
        if rng.random() < 0.3:
            ms['a'] = rng.choice(['A', '{w}', ''])
        if rng.random() < 0.3:
            ms['a1'] = '1'
        if rng.random() < 0.2:
            ms['a-'] = '{a}' if 'a' in ms else '-'
        text = ''.join(rng.choice(frag) for _ in range(rng.randrange(0, 9)))
        env = dict(base)
        env.update(ms)
        try:
            want = [1] + s2n(p._expand_macros({'k': text}, env)['k'])
        except KeyError:
            want = [0]
        flat = [141, len(ms)]
        for k, v in ms.items():
            flat += [len(k)] + s2n(k) + [len(v)] + s2n(v)
        flat += [len(text)] + s2n(text)
        cases.append(flat)
        exp.append((want, text, ms))
        ctx.case(('expand', text, tuple(sorted(ms.items()))))
    outs = ctx.model.run(cases, shards=4)
    bad = 0
    for (want, text, ms), o in zip(exp, outs):
        if o != want:
            bad += 1
            ctx.disagree('expand', {'text': text, 'macros': ms}, want[:80], (o or [])[:80])
    ctx.extra['expansion_cases'] = {'n': len(cases), 'disagree': bad}


def replay(path):
    d = json.load(open(path))
    case = d.get('case')
    print(json.dumps({k: d[k] for k in d if k != 'case'}, indent=1)[:3000])
    if isinstance(case, dict) and 'ops' in case:
        print('history:')
        for k, op in enumerate(case['ops']):
            print('  %2d %s' % (k, json.dumps(op)[:300]))
        r = run_case(case)
        for kind, detail in r['viol']:
            print('REPRODUCED %s: %s' % (kind, detail))
        return 1 if r['viol'] else 0
    return 0
