"""C03 — serialise-then-parse is lossless; serialisation is a fixpoint.
Coq: content layer (string/uri quoting round trips: Model/Strings.v of C18,
token level comment/ident facts) and the structure layer shared with C02 -
partial.  Search: DOMs from the C02 generator, the repository's sheets, DOMs
after accepted edits; every serialisable node type read and set back."""
import json

from harness import core, gen_css as G

GEN = ['GenLex']

MANIFEST = dict(
    text='PARTIAL. Machine-checked (Coq): the structure layer (every statement / declaration of a text whose pieces are closed - which the '
         "serializer's output is: one piece per rule, separated by white space - is recovered exactly; Props/C03.v instantiates the C02/C04 "
         'theorems) and the content layer for strings and URLs (quoting and unquoting are inverse on the characters they are defined for, '
         'C18 model). The full statement - reparse of the serialisation equals the DOM and serialising again is byte-identical, also after '
         'accepted edits and for every node type set back on its own - is decided by the search on the implementation over the C02 generator, '
         'the shipped sheets and edit histories.',
    note='Trusted: Coq kernel; generator/projection pair; the serializer itself is not modelled beyond Out.append (C06) - its tie is the '
         'differential round trip on the implementation.',
    design='7/C03')


def backslash_in_string(text):
    import re
    return re.search(r'''(["'])(?:(?!\1).)*\\\\''', text, re.S) is not None


def multiline_comment(text):
    import re
    return re.search(r'/\*(?:(?!\*/).)*[\n\r\f]', text or '', re.S) is not None


KNOWN_PRED = {
    # the tokenizer stores \7b as the character { and the serialiser writes identifiers as stored
    'C03-hex-escaped-punctuation-in-identifier': lambda kind, case, detail: (
        case.get('family') == 'ident-hex-escaped-punct' and kind.startswith(('lossy', 'not-fixpoint', 'node-', 'raises-parsed', 'raises-edited'))),
    'C03-ident-leading-digit-escape': lambda kind, case, detail: case.get('family') == 'digit-start-name',
    'C03-acid2-escaped-linebreak-in-property-name': lambda kind, case, detail: (
        kind.startswith(('lossy', 'not-fixpoint')) and str(case.get('file', '')).endswith('sheets/acid2.css') and "'m\\nrgin'" in detail),
    'C03-multiline-comment-reindented': lambda kind, case, detail: (kind.startswith(('lossy', 'not-fixpoint', 'node-'))
                                                                  and multiline_comment(case.get('text')) and 'comment' in detail),
}


def parse(text, **kw):
    import cssutils
    from harness import impl
    impl.reset()
    return cssutils.CSSParser(fetcher=lambda u: None, **kw).parseString(text)


LENGTH_UNITS = ('cm', 'mm', 'in', 'px', 'pc', 'pt', 'em', 'ex')


def norm_value(v):
    """zero lengths are written unit-less (documented normalisation)"""
    out = []
    for sep, c in v:
        if c[0] == 'num' and c[1] == 0 and c[2] in LENGTH_UNITS:
            c = ('num', c[1], '')
        elif c[0] == 'func':
            c = ('func', c[1], norm_value(c[2]))
        out.append((sep, c))
    return tuple(out)


def norm_decls(ds):
    return tuple((n, norm_value(v), i) for n, v, i in ds)


def effect_default(sem):
    """what the default preferences do: rules without declarations are dropped
    (a rule holding only comments is kept by the serializer and dropped here on
    both sides of the comparison), zero lengths lose their unit"""
    out = []
    for r in sem:
        k = r[0]
        if k == 'style':
            r = (k, r[1], norm_decls(r[2]))
        elif k == 'page':
            # (a margin box without declarations is an empty rule: not written under the default preferences)
            r = (k, r[1], norm_decls(r[2]), tuple((m, norm_decls(d)) for m, d in r[3] if norm_decls(d)))
        elif k == 'font-face':
            r = (k, norm_decls(r[1]))
        if k == 'style' and not r[2]:
            continue
        if k == 'media':
            inner = effect_default(r[2])
            if not inner:
                continue
            r = (k, r[1], inner)
        if k == 'page' and not r[2] and not r[3]:
            continue
        if k == 'font-face' and not r[1]:
            continue
        if k == 'other' and r[1] == 1008:
            continue      # an @variables rule: resolved, not written, under the default preferences
        out.append(r)
    return tuple(out)


def roundtrip(ctx, sheet, case, what):
    from harness import sem_dom as S
    import cssutils
    try:
        s1 = S.sem_sheet(sheet)
        # var() references are replaced by their values when serialising (resolveVariables, on by default: the
        # documented effect, C06's business); a sheet that uses them is compared with the references kept
        unresolved = "('func', 'var'" in repr(s1)
        if unresolved:
            cssutils.ser.prefs.resolveVariables = False
        b1 = sheet.cssText
        sh2 = parse(b1)
        if unresolved:
            cssutils.ser.prefs.resolveVariables = False
        s2 = S.sem_sheet(sh2)
        b2 = sh2.cssText
    except Exception as e:
        cssutils.ser.prefs.useDefaults()
        ctx.violation('raises-' + what, case, '%s: %s' % (type(e).__name__, e), KNOWN_PRED)
        return None
    cssutils.ser.prefs.useDefaults()
    exp = effect_default(s1)
    s2 = effect_default(s2)
    if s2 != exp:
        d = next((i for i, (a, b) in enumerate(zip(exp, s2)) if a != b), min(len(exp), len(s2)))
        ctx.violation('lossy-' + what, dict(case, serialised=b1.decode('utf-8', 'replace')[:1500]),
                      'rule %d: before %r\nafter  %r' % (d, exp[d:d + 1], s2[d:d + 1]), KNOWN_PRED)
        return None
    if b1 != b2:
        ctx.violation('not-fixpoint-' + what, dict(case, serialised=b1.decode('utf-8', 'replace')[:1500]),
                      'second serialisation differs: %r' % b2[:1500], KNOWN_PRED)
    return b1


def roundtrip_unresolved(ctx, sheet, case):
    """the same with @variables rules written out (resolveVariables off): every rule of the DOM is read back, in
    order, and the text is a fixpoint"""
    import cssutils
    try:
        cssutils.ser.prefs.resolveVariables = False
        b1 = sheet.cssText
        r1 = [(r.type, r.cssText) for r in sheet.cssRules if r.cssText]
        sh2 = parse(b1)
        cssutils.ser.prefs.resolveVariables = False      # (parse() starts from the default preferences)
        b2 = sh2.cssText
        r2 = [(r.type, r.cssText) for r in sh2.cssRules if r.cssText]
    except Exception as e:
        ctx.violation('raises-edited', case, 'resolveVariables=False: %s: %s' % (type(e).__name__, e), KNOWN_PRED)
        return
    finally:
        cssutils.ser.prefs.useDefaults()
    if [t for t, _ in r1] != [t for t, _ in r2]:
        ctx.violation('lossy-edited', dict(case, serialised=b1.decode('utf-8', 'replace')[:1500], prefs={'resolveVariables': False}),
                      'rule types in the DOM %r, read back %r' % ([t for t, _ in r1], [t for t, _ in r2]), KNOWN_PRED)
    elif b1 != b2:
        ctx.violation('not-fixpoint-edited', dict(case, serialised=b1.decode('utf-8', 'replace')[:1500], prefs={'resolveVariables': False}),
                      'second serialisation differs: %r' % b2[:1500], KNOWN_PRED)


def edit(rng, sheet):
    """a few accepted DOM edits"""
    import cssutils
    ops = []
    for _ in range(rng.randrange(1, 5)):
        k = rng.randrange(7)
        rules = list(sheet.cssRules)
        styles = [r for r in rules if r.type == r.STYLE_RULE]
        try:
            if k == 0 and styles:
                r = rng.choice(styles)
                r.style.setProperty(rng.choice(G.PROPS), rng.choice(['1px', 'red', '"x y"', 'url(a.png)', '1px 2px', '#fff']),
                                    rng.choice(['', 'important']))
                ops.append('setProperty')
            elif k == 1 and styles:
                r = rng.choice(styles)
                if r.style.length:
                    r.style.removeProperty(r.style.item(0))
                    ops.append('removeProperty')
            elif k == 2:
                sheet.add('x-y.new > b { top: 0; left: 1em }')
                ops.append('add')
            elif k == 3 and rules:
                i = rng.randrange(len(rules))
                sheet.deleteRule(i)
                ops.append('deleteRule')
            elif k == 4 and styles:
                r = rng.choice(styles)
                r.selectorText = rng.choice(['a, b > c', 'div#x.y:hover', '*[a="b c"]::before'])
                ops.append('selectorText')
            elif k == 6 and styles:
                # an existing declaration (important or not) set again with the other priority, or cleared
                r = rng.choice(styles)
                ps = r.style.getProperties(all=True)
                if ps:
                    p_ = rng.choice(ps)
                    how = rng.randrange(3)
                    if how == 0:
                        r.style.setProperty(p_.name, '7px', '' if p_.priority else 'important')
                    elif how == 1:
                        p_.priority = '' if p_.priority else 'important'
                    else:
                        r.style.setProperty(p_.name, '8px')
                    ops.append('priority-flip')
            elif k == 5:
                t = rng.choice(['@variables { ev: 1px }', '@namespace eq "http://e";', '@import "e.css" print;', '@charset "utf-8";',
                                '@page :left { margin: 1cm }', '@font-face { font-family: e }', '/*e*/', '@media tv { e { left: 0 } }'])
                if rng.random() < 0.5:
                    sheet.add(t)
                    ops.append('add ' + t.split(' ')[0])
                else:   # at an explicit index: accepted only where a reparse keeps it
                    at = rng.randrange(sheet.cssRules.length + 1)
                    ops.append('insertRule %s at %d' % (t.split(' ')[0], at))
                    sheet.insertRule(t, at)
        except Exception as e:
            if not isinstance(e, __import__('xml.dom').dom.DOMException):
                raise
            ops.append('rejected:' + type(e).__name__)
    return ops


def node_roundtrips(ctx, sheet, case):
    """cssText / selectorText / mediaText / value text read and set back on a fresh object"""
    import cssutils
    C = cssutils.css
    for r in sheet.cssRules:
        try:
            t = r.cssText
            if not t:
                continue   # an empty rule is not written at all
            if r.type == r.STYLE_RULE:
                n = C.CSSStyleRule(); n.cssText = t
                if n.cssText != t:
                    ctx.violation('node-style-rule', dict(case, node=t[:300]), 'set back gives %r' % n.cssText[:300], KNOWN_PRED)
                st = C.CSSStyleDeclaration(cssText=r.style.cssText)
                if st.cssText != r.style.cssText:
                    ctx.violation('node-declaration', dict(case, node=r.style.cssText[:300]), 'set back gives %r' % st.cssText[:300], KNOWN_PRED)
                sl = C.SelectorList(selectorText=r.selectorText)
                if sl.selectorText != r.selectorText:
                    ctx.violation('node-selectorlist', dict(case, node=r.selectorText[:300]), 'set back gives %r' % sl.selectorText[:300], KNOWN_PRED)
                for p in r.style.getProperties(all=True):
                    pv = C.PropertyValue(cssText=p.propertyValue.cssText)
                    if pv.cssText != p.propertyValue.cssText:
                        ctx.violation('node-value', dict(case, node=p.propertyValue.cssText[:300]), 'set back gives %r' % pv.cssText[:300], KNOWN_PRED)
            elif r.type == r.MEDIA_RULE:
                n = C.CSSMediaRule(); n.cssText = t
                if n.cssText != t:
                    ctx.violation('node-media-rule', dict(case, node=t[:300]), 'set back gives %r' % n.cssText[:300], KNOWN_PRED)
                ml = cssutils.stylesheets.MediaList(mediaText=r.media.mediaText)
                if ml.mediaText != r.media.mediaText:
                    ctx.violation('node-medialist', dict(case, node=r.media.mediaText), 'set back gives %r' % ml.mediaText, KNOWN_PRED)
            elif r.type == r.PAGE_RULE:
                n = C.CSSPageRule(); n.cssText = t
                if n.cssText != t:
                    ctx.violation('node-page-rule', dict(case, node=t[:300]), 'set back gives %r' % n.cssText[:300], KNOWN_PRED)
            elif r.type == r.COMMENT:
                n = C.CSSComment(); n.cssText = t
                if n.cssText != t:
                    ctx.violation('node-comment', dict(case, node=t[:300]), 'set back gives %r' % n.cssText[:300], KNOWN_PRED)
        except Exception as e:
            ctx.violation('node-raises', dict(case, node=str(r.type)), '%s: %s' % (type(e).__name__, e), KNOWN_PRED)


def content_cases(rng, n):
    """strings, urls, names and comments over awkward characters"""
    chars = list('ab 01;{}()/*@#.,:-_%!') + ["'", '"', '\\', '\n', '\t', '\r', '\f', 'ä', '中', '\U0001f600', '\x7f', ' ',
                                             '\xa0', '\x85', '\u2003', '\u2028', '\u3000', '\x0b', '\x1f', '\ufeff']
    out = []
    for _ in range(n):
        s = ''.join(rng.choice(chars) for _ in range(rng.randrange(0, 7)))
        q = rng.choice(['"', "'"])
        esc = ''
        for c in s:
            if c in (q, '\\'):
                esc += '\\' + c
            elif c in '\n\r\f':
                esc += '\\%x ' % ord(c)
            else:
                esc += c
        out.append(('string', 'a{content:%s%s%s}' % (q, esc, q), s))
        out.append(('url', 'a{background:url(%s%s%s)}' % (q, esc, q), s))
        out.append(('attr', 'a[b=%s%s%s]{c:d}' % (q, esc, q), s))
    for _ in range(n // 3):
        # content ending in (several) backslashes, or backslashes before the closing quote
        q = rng.choice(['"', "'"])
        body = ''.join(rng.choice(['a', ' ', 'C:', 'x']) for _ in range(rng.randrange(0, 3)))
        k = rng.randrange(1, 5)
        s_ = body + '\\' * k
        esc = body + '\\\\' * k
        kind = rng.choice(['string', 'url', 'attr', 'import'])
        text = {'string': 'a{content:%s%s%s;top:1px} b{c:d}', 'url': 'a{background:url(%s%s%s);top:1px} b{c:d}',
                'attr': 'a[b=%s%s%s]{c:d} b{c:d}', 'import': '@import %s%s%s print; b{c:d}'}[kind] % (q, esc, q)
        out.append((kind + '-trailing-backslash', text, s_))
    for _ in range(n // 6):
        # an ident ending in an escaped space, after another token (value, selector)
        a_ = rng.choice(['a', 'xy', '']) + '\\ '
        out.append(('ident-escaped-space', rng.choice(['a{x: b %s}', 'a{x: b %s c}', 'a{x: 1px %s!important}', 'b %s c{d:e}', 'a{x:f(b %s)}']) % a_, a_))
    for _ in range(n // 5):
        # an ASCII delimiter or punctuation character written as a hex escape inside an identifier
        c = rng.choice('{}()[];:!,.#@/*+>~=|&$%^`?<\'"')
        e_ = rng.choice(['a', '', 'xy']) + '\\%x ' % ord(c) + rng.choice(['', 'b'])
        out.append(('ident-hex-escaped-punct', rng.choice(['a{x: %s}', 'a{x: b %s c}', '%s{d:e}', 'b .%s{d:e}', 'a{%s: 1}', 'a{x:f(%s)}', '@media %s{a{b:c}}',
                                                            'a[%s]{d:e}', '@x %s;']) % e_ + ' z{y:x}', e_))
    for _ in range(n // 6):
        # names and values made of characters that are white space to Python but name characters to CSS
        w = rng.choice(['\u00a0', '\u3000', '\u2003', '\u0085', '\u00a0\u00a0', 'a\u00a0', '\u00a0a'])
        out.append(('unicode-space-name', rng.choice(['a{x: %s}', 'a{x: b %s c}', '%s{d:e}', 'b :not(%s){d:e}', 'a{%s: 1}', 'a{x:f(%s)}', 'a[%s=b]{d:e}', 'a{x:1px %s!important}',
                                                     'b %s c{d:e}', '.%s > #%s{d:e}']).replace('%s', w), w))
    for _ in range(n // 4):
        nm = rng.choice(['1a', '9', '-1x', '2-b'])
        out.append(('digit-start-name', '.\\%x %s{c:d}' % (ord(nm[0]), nm[1:]) if nm[0] != '-' else '.-\\31 x{c:d}', nm))
    return out


NS_SELECTORS = ['p|a', 'b:not(p|a)', '[p|att]', '*|a p|b', 'p|*', 'a:not(p|*) > q|c', 'b:not([p|att])', 'q|x, b:not(p|y)']


def namespace_family(ctx, rng, n):
    """selectors whose namespace is used in various positions (also only inside :not()): round trip by default and
    with keepUsedNamespaceRulesOnly; deleting the @namespace rule, if accepted, must leave a sheet that still round-trips"""
    import cssutils
    import xml.dom
    from harness import sem_dom as S
    for _ in range(n):
        sels = rng.sample(NS_SELECTORS, rng.randrange(1, 3))
        text = '@namespace p "http://p"; @namespace q "http://q"; ' + ' '.join('%s{c:d}' % s_ for s_ in sels)
        case = {'text': text, 'family': 'namespaces'}
        ctx.case(text)
        for prefs in ({}, {'keepUsedNamespaceRulesOnly': True}):
            try:
                dom = parse(text)
                for k_, v_ in prefs.items():
                    setattr(cssutils.ser.prefs, k_, v_)
                b1 = dom.cssText
                cssutils.ser.prefs.useDefaults()
                s1 = [r for r in S.sem_sheet(dom) if r[0] == 'style']
                s2 = [r for r in S.sem_sheet(parse(b1)) if r[0] == 'style']
            except Exception as e:
                cssutils.ser.prefs.useDefaults()
                ctx.violation('raises-namespaces', dict(case, prefs=prefs), '%s: %s' % (type(e).__name__, e), KNOWN_PRED)
                continue
            if s1 != s2:
                ctx.violation('lossy-namespaces', dict(case, prefs=prefs, serialised=b1.decode()[:600]), 'before %r\nafter  %r' % (s1, s2), KNOWN_PRED)
        # an accepted deletion of a namespace declaration must leave a round-tripping sheet
        dom = parse(text)
        for how in ('mapping', 'rule'):
            try:
                if how == 'mapping':
                    del dom.namespaces[rng.choice(['p', 'q'])]
                else:
                    dom.deleteRule(rng.randrange(2))
            except xml.dom.DOMException:
                continue
            except Exception as e:
                ctx.violation('raises-namespaces', dict(case, edit=how), '%s: %s' % (type(e).__name__, e), KNOWN_PRED)
                continue
            roundtrip(ctx, dom, dict(case, edits=['delete namespace via ' + how]), 'edited')
        # a stand-alone selector keeps denoting the same names
        for s_ in sels:
            try:
                sel = cssutils.css.Selector((s_.split(',')[0], {'p': 'http://p', 'q': 'http://q'}))
                again = cssutils.css.Selector((sel.selectorText, {'p': 'http://p', 'q': 'http://q'}))
                if S.sem_selector(sel) != S.sem_selector(again) or [i.value for i in sel.seq] != [i.value for i in again.seq]:
                    ctx.violation('lossy-selector', dict(case, selector=s_), 'selectorText %r re-resolves differently' % sel.selectorText, KNOWN_PRED)
            except xml.dom.DOMException:
                pass


def run(ctx):
    from harness import sem_dom as S
    import glob
    import os
    rng = ctx.rng
    quick = ctx.tier == 'quick'
    n = 350 if quick else 8000
    ctx.cov['rule'] = ('DOMs parsed from abstract sheets in random spellings (C02 generator), the shipped sheets, DOMs after 1-4 accepted edits, '
                       'content families (strings/urls/attribute values over quotes, backslash, line breaks, non-ASCII; names needing escapes); '
                       'distinct = distinct source texts + edit lists; all non-trivial')
    for i in range(n):
        sheet_ast = G.gen_sheet(rng)
        sp = G.Spelling(rng, canonical=rng.random() < 0.3)
        text = G.render(sp, sheet_ast)
        case = {'text': text, 'family': 'generated'}
        ctx.case(text)
        try:
            dom = parse(text)
        except Exception as e:
            ctx.violation('raises-parse', case, '%s: %s' % (type(e).__name__, e), KNOWN_PRED)
            continue
        if roundtrip(ctx, dom, case, 'parsed') is None:
            continue
        if i % 2 == 0:
            node_roundtrips(ctx, dom, case)
        try:
            ops = edit(rng, dom)
        except Exception as e:
            ctx.violation('raises-edit', case, '%s: %s' % (type(e).__name__, e), KNOWN_PRED)
            continue
        ctx.case((text, tuple(ops)))
        roundtrip(ctx, dom, dict(case, edits=ops), 'edited')
        roundtrip_unresolved(ctx, dom, dict(case, edits=ops))
        if i == 3:
            ctx.sample({'text': text[:500], 'edits': ops})
    for fam, text, content in content_cases(rng, 150 if quick else 3000):
        case = {'text': text, 'family': fam, 'content': content}
        ctx.case(text)
        try:
            dom = parse(text)
        except Exception as e:
            ctx.violation('raises-parse', case, '%s: %s' % (type(e).__name__, e), KNOWN_PRED)
            continue
        if len(dom.cssRules) != (2 if fam.endswith('trailing-backslash') or fam == 'ident-hex-escaped-punct' else 1):
            continue   # not accepted as written: nothing to round-trip
        roundtrip(ctx, dom, case, 'content')
    namespace_family(ctx, rng, 40 if quick else 1500)
    # unknown at-rules holding brace characters as string / url content; comments and strings with characters the
    # sheet's own encoding cannot represent (written as escapes, read back as the characters)
    for text in ['@page { margin: 0; @top-left {} }', '@page { margin: 0; @top-left { } @bottom-left { left: 0 } }', '@page :first { @top-left {} }',
                 '@page { margin: 0; @top-left { /*only*/ } } a{b:c}', '@x "{" "}";', '@x "{" y; a{b:c}', '@x url({) b; a{b:c}', '@x url("}") b;', '@counter x { prefix: "{"; suffix: "}" } a{b:c}',
                 '@media tv{@x "{" y; a{b:c}} d{e:f}', '@x ("{") ["}"] {"{"} a{b:c}', '@x "a{b" "}c";',
                 '@charset "ascii"; /* gr\xfcn */ a{b:c}', '@charset "ascii"; a{/* \xfc */ b: c /* \u4e2d */ d} /*\U0001f600*/',
                 '@charset "iso-8859-1"; /* \u4e2d\xfc */ @media tv{/* \u20ac */ a{b:"\u20ac"}}', '@charset "ascii"; a{b:"gr\xfcn"; c: url(gr\xfcn.png)} .gr\xfcn{d:e}']:
        case = {'text': text, 'family': 'unknown-rule-braces' if text.startswith(('@x', '@counter', '@media')) else 'non-encodable'}
        ctx.case(text)
        try:
            dom = parse(text)
        except Exception as e:
            ctx.violation('raises-parse', case, '%s: %s' % (type(e).__name__, e), KNOWN_PRED)
            continue
        roundtrip(ctx, dom, case, 'content')
    nreal = 0
    for f in sorted(glob.glob(os.path.join(core.REPO, 'sheets', '*.css')))[:(8 if quick else 200)]:
        data = open(f, 'rb').read()
        if len(data) > (40000 if quick else 500000):
            continue
        try:
            dom = parse(data)
        except UnicodeDecodeError:
            continue
        nreal += 1
        ctx.case(('real', f))
        roundtrip(ctx, dom, {'text': '', 'file': f, 'family': 'real'}, 'real')
    ctx.extra['real_sheets'] = nreal


def replay(path):
    d = json.load(open(path))
    print(json.dumps(d['case'])[:2000])
    print(d['detail'])
    return 0
