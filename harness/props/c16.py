"""C16 — selector specificity, structure and list semantics.
Coq: Model/Selector.v + Model/SelectorList.v (+Gen/GenSelector.v regenerated
from selector.py), Proofs/SelectorFacts.v, Props/C16.v.
Correspondence: selectors from an AST generator in many spellings, mutated
and token-soup texts, list histories -> Selector / SelectorList vs the
extracted model (well-formed?, specificity, element, item (type, value)
sequence, selectorText; the regrouped token list of _prepare_tokens).
Search (independent of the model): specificity == the count computed from
the AST; unchanged by spelling, by a selectorText round trip, by attaching
to a sheet; round trip keeps the item sequence; list semantics against a
reference written on member texts."""
import json

from harness import core, gen_text as G
from harness.core import s2n, n2s

GEN = ['GenLex', 'GenSelector']

MANIFEST = dict(
    text='Machine-checked (Coq, closed under the global context) on a token-level model of Selector._prepare_tokens, the New state '
         'machine (expected strings, substring truth table and the value returned by every return statement regenerated from '
         'selector.py on every run), the post conditions of _setSelectorText, do_css_Selector and SelectorList: for every selector '
         'tree (compounds of type/universal incl. *| and | prefixes, id, class, attribute x 6 operators + bare, pseudo-classes, '
         'functional pseudos with arbitrary expression arguments, :not() of any simple selector, one-colon/two-colon/functional '
         'pseudo-elements, 4 combinators) in every spelling (white space and comments at every position, any spelling of not( that '
         'normalises to it, any names) the rendered tokens are regrouped as intended, accepted, and the reported specificity is '
         '(0, #id, #class+#attribute, #type+#pseudo-element) — by induction over the tree; hence spelling invariance; a list parse is '
         'all-or-nothing and keeps order (for every token list); appendSelector moves an already present selector to the end, keeps '
         'the others in order and never duplicates (for every list state / history). The model is tied to cssutils by differential '
         'runs (Selector, _prepare_tokens, SelectorList histories) and the rendering function of the theorems is tied to the texts '
         'the harness writes (same tokens as the tokenizer reads, all cases inside the side conditions of the theorems). Round trip '
         'and sheet attachment are covered by the oracle search only.',
    note='Trusted: Coq kernel + vm_compute; translator/gen_selector.py (AST extraction of Constants, returns, literals, flags); '
         'extraction + driver; hand model of the productions / append / Out.append validated by correspondence, not verified against '
         'the Python text; Model/Tokenizer (C05) for text -> tokens; declared namespace prefixes are out of scope (C15); the model is '
         'written for the code with fixes/C16-*.patch applied.',
    design='7/C16')

def _escapes_nonname(text):
    """the text holds a backslash escape that stands for an ASCII character which is no letter or '_'"""
    import re
    for m in re.finditer(r'\\([0-9a-fA-F]{1,6})|\\([^0-9a-fA-F\n\r\f])', text):
        c = chr(int(m.group(1), 16)) if m.group(1) and int(m.group(1), 16) <= 0x10ffff else (m.group(2) or '\ufffd')
        if ord(c) < 128 and not (c.isalpha() or c == '_'):     # (an escaped hyphen too: '--\2d H' is the name '---H')
            return True
    return False


KNOWN_PRED = {
    # the same defect as C03-hex-escaped-punctuation-in-identifier / C03-ident-leading-digit-escape, seen at the selector
    'C16-escaped-nonname-character-serialised-raw': lambda kind, case, detail: (
        kind == 'roundtrip-accepted' and _escapes_nonname(case.get('text', ''))),
}

ITYPES = None


def _itypes():
    global ITYPES
    if ITYPES is None:
        from translator.gen_selector import ITYPES as I
        ITYPES = {t: i for i, t in enumerate(I)}
    return ITYPES


from harness import c16_ast as A
from harness.c16_ast import gen_selector, count


def render_text(rng, sel, level):
    return A.render(rng, sel, level)[0]


# --------------------------------------------------------------------------
# implementation side
# --------------------------------------------------------------------------
def observe_selector(sel):
    """canonical observation of a cssutils Selector"""
    import cssutils
    if not sel.wellformed:
        return None
    items = []
    for it in sel.seq:
        v = it.value
        if isinstance(v, tuple):
            ns = {None: 1, cssutils._ANYNS: 2, '': 3}.get(v[0], 9)
            items.append((it.type, ns, v[1]))
        elif isinstance(v, cssutils.css.CSSComment):
            items.append((it.type, 0, v.cssText))
        else:
            items.append((it.type, 0, v))
    el = sel.element
    if el is not None:
        el = ({None: 1, cssutils._ANYNS: 2, '': 3}.get(el[0], 9), el[1])
    return (tuple(sel.specificity), el, tuple(items), sel.selectorText)


def parse_impl(text, raise_exceptions=False):
    """-> ('ok', observation | None) or ('crash', class)"""
    import cssutils
    import xml.dom
    from harness import impl
    impl.reset(raise_exceptions=raise_exceptions)
    try:
        s = cssutils.css.Selector(text)
        return ('ok', observe_selector(s))
    except xml.dom.DOMException:
        return ('ok', None)
    except Exception as e:   # noqa
        return ('crash', impl.exc_class(e))


def encode_obs(o):
    if o is None:
        return [0]
    spec, el, items, text = o
    T = _itypes()
    out = [1, spec[1], spec[2], spec[3]]
    out += [0] if el is None else [el[0], len(el[1])] + s2n(el[1])
    out.append(len(items))
    for typ, ns, v in items:
        out += [T.get(typ, 999), ns, len(v)] + s2n(v)
    out += [len(text)] + s2n(text)
    return out


PTY = {'class': 100, 'pseudo-class': 101, 'pseudo-element': 102, 'negation': 103, 'universal': 104, 'namespace_prefix': 105}


def prepare_impl(text):
    import cssutils
    from harness import impl
    impl.reset(raise_exceptions=False)
    s = cssutils.css.Selector()
    toks = list(s._prepare_tokens(s._tokenize2(text))) if text else []
    out = []
    for t in toks:
        code = PTY.get(t[0], impl.TOKCODE.get(t[0], 998))
        out += [code, len(t[1])] + s2n(t[1])
    return out


def encodable(text):
    return all(not (0xD800 <= ord(c) <= 0xDFFF) for c in text)


# ---- malformed / arbitrary texts
ALPHA = ['a', 'B', '*', '|', '.', '#x', '#', ':', '::', ',', '>', '+', '~', ' ', '[', ']', '(', ')', '=', '~=', '|=', '^=',
         '$=', '*=', '"s"', "'t'", '1', '2n', '-', 'not(', 'f(', ':not(', ':f(', '/**/', '@m', '50%', '!', '\\2a ', '\\7c ',
         '\\3a ', 'url(x)', 'U+1', '<!--', '-->', '{', '}', ';', '\n', '\\', '"', ':first-line', '::x', '.c', '*|', '|b', 'NOT(', '""',
         '\\5b ', '\\29 ', '\\2c ', 'a\\ ', '\\ ', '.b\\ ', '#c\\ ', '-\\ ']


def gen_soup(rng, maxlen=7):
    return ''.join(rng.choice(ALPHA) for _ in range(rng.randrange(1, maxlen)))


def mutate(rng, text):
    if not text:
        return rng.choice(ALPHA)
    k = rng.randrange(5)
    i = rng.randrange(len(text))
    if k == 0:
        return text[:i] + text[i + 1:]
    if k == 1:
        return text[:i] + rng.choice(ALPHA) + text[i:]
    if k == 2:
        j = rng.randrange(len(text))
        i, j = min(i, j), max(i, j)
        return text[:i] + text[j:]
    if k == 3:
        return text[:i]
    return text[:i] + rng.choice(ALPHA) + text[i + 1:]


# --------------------------------------------------------------------------
# oracles (independent of the model)
# --------------------------------------------------------------------------
def structure(items):
    """the sequence of simple selectors and combinators: a functional pseudo with its argument list is ONE simple
    selector; its arguments are compared as their concatenated text without white space (the repo's own test
    pins 'x:func(1  -  1)' -> 'x:func(1 -1)', where ('minus','-'),('NUMBER','1') becomes ('NUMBER','-1'))"""
    out = []
    fn = None
    for typ, ns, v in items:
        if fn is not None:
            if typ == 'function-end':
                out.append(tuple(fn))
                fn = None
            elif typ == 'S':
                pass
            elif typ == 'STRING':
                fn[2] += repr(v)
            else:
                fn[2] += v
        elif typ in ('pseudo-class', 'pseudo-element') and v.endswith('('):
            fn = [typ, ns, v]
        else:
            out.append((typ, ns, v))
    if fn is not None:
        out.append(tuple(fn))
    return tuple(out)


def oracle_ast(ctx, sel, text, canon_text, obs, canon_obs):
    """the property stated on the implementation for one AST-generated selector"""
    import cssutils
    from harness import impl
    want = count(sel)
    case = {'text': text, 'canonical': canon_text, 'expected_specificity': list(want)}
    for label, t, o in (('canonical', canon_text, canon_obs), ('spelling', text, obs)):
        if o[0] == 'crash':
            ctx.violation('crash', dict(case, which=label), '%s spelling %r raised %s' % (label, t, o[1]), KNOWN_PRED)
            return
        if o[1] is None:
            ctx.violation('rejected', dict(case, which=label), 'grammar selector %r (%s spelling) is rejected' % (t, label), KNOWN_PRED)
            return
        if o[1][0] != want:
            ctx.violation('specificity', dict(case, which=label),
                          '%r: specificity %r, counted from the AST %r' % (t, o[1][0], want), KNOWN_PRED)
            return
    if obs[1][0] != canon_obs[1][0]:
        ctx.violation('spelling-invariance', case, 'specificity differs between spellings: %r vs %r' % (obs[1][0], canon_obs[1][0]), KNOWN_PRED)
        return
    # round trip
    ser = obs[1][3]
    back = parse_impl(ser)
    if back[0] == 'crash' or back[1] is None:
        ctx.violation('roundtrip-rejected', dict(case, serialised=ser), 'selectorText %r of %r does not reparse (%r)' % (ser, text, back), KNOWN_PRED)
        return
    if back[1][0] != obs[1][0]:
        ctx.violation('roundtrip-specificity', dict(case, serialised=ser), 'specificity %r -> %r after reparsing %r' % (obs[1][0], back[1][0], ser), KNOWN_PRED)
    # "the same sequence of simple selectors and combinators": white-space items inside the argument list of a
    # functional pseudo are neither (the serializer drops the one before ')' or '+')
    if structure(back[1][2]) != structure(obs[1][2]):
        ctx.violation('roundtrip-sequence', dict(case, serialised=ser),
                      'item sequence changed by the round trip through %r: %r -> %r' % (ser, obs[1][2], back[1][2]), KNOWN_PRED)
    if back[1][3] != ser:
        ctx.violation('roundtrip-text', dict(case, serialised=ser), 'selectorText not stable: %r -> %r' % (ser, back[1][3]), KNOWN_PRED)
    # attaching to a sheet
    impl.reset(raise_exceptions=False)
    try:
        sheet = cssutils.parseString(text + '{left:0}')
        rules = [r for r in sheet.cssRules if r.type == r.STYLE_RULE]
        if len(rules) != 1 or rules[0].selectorList.length != 1:
            ctx.violation('attach-parse', case, 'as a rule of a sheet %r gives %d style rules' % (text, len(rules)), KNOWN_PRED)
        else:
            sp = tuple(rules[0].selectorList[0].specificity)
            if sp != want:
                ctx.violation('attach-specificity', case, 'parsed in a sheet: specificity %r, expected %r' % (sp, want), KNOWN_PRED)
        rule = cssutils.css.CSSStyleRule(selectorText=text)
        before = [tuple(s.specificity) for s in rule.selectorList]
        sheet2 = cssutils.css.CSSStyleSheet()
        sheet2.add(rule)
        after = [tuple(s.specificity) for s in sheet2.cssRules[0].selectorList]
        if before != [want] or after != [want]:
            ctx.violation('attach-specificity', case, 'rule built stand-alone then added to a sheet: %r -> %r, expected %r' % (before, after, want), KNOWN_PRED)
    except Exception as e:   # noqa
        ctx.violation('attach-crash', case, '%s: %s' % (type(e).__name__, e), KNOWN_PRED)


# ---- lists
# Base._tokensupto2 matches brackets and the separating comma by token VALUE, so an identifier spelled with an
# escaped bracket / parenthesis / brace / comma (\\5b , \\29 , \\2c ...) takes part in the splitting of the list.
# That is a matter of the generic token slicer, not of the list semantics stated in C16: such members are left to
# the correspondence check and are not judged by the reference below.
import re as _re
ESC_STRUCT = _re.compile(r'\\0{0,4}(5b|5d|28|29|7b|7d|2c)(?![0-9a-fA-F])', _re.I)

def balanced(piece):
    """are ( ) [ ] { } balanced the way Base._tokensupto2 counts them?  (a junk member such as ':a(b(c)' is accepted
    stand-alone because the regrouping glues 'b(' onto ':a(' , but inside a list its open parenthesis hides the
    following commas; the reference below speaks about members that are delimited by the commas)"""
    from harness import impl
    try:
        toks = impl.tokenize(piece, full=False)
    except Exception:   # noqa
        return False
    par = brk = brc = 0
    for t in toks:
        v = t[1]
        if v == '{':
            brc += 1
        elif v == '}':
            brc -= 1
        elif v == '[':
            brk += 1
        elif v == ']':
            brk -= 1
        elif v == '(' or t[0] == 'FUNCTION':
            par += 1
        elif v == ')':
            par -= 1
        if par < 0 or brk < 0 or brc < 0:
            return False
    return par == brk == brc == 0


def gen_member(rng, pool):
    """-> (text, valid-by-construction or None when unknown)"""
    r = rng.random()
    if r < 0.55 and pool:
        return rng.choice(pool)
    if r < 0.85:
        sel = gen_selector(rng, maxc=2)
        return render_text(rng, sel, rng.choice([0, 1]))
    if r < 0.93:
        return mutate(rng, render_text(rng, gen_selector(rng, maxc=2), 0))
    return gen_soup(rng, 4)


def gen_list_history(rng, n):
    pool = [render_text(rng, gen_selector(rng, maxc=2), rng.choice([0, 0, 1])) for _ in range(4)]
    pool += [pool[0].upper() if pool[0].upper() != pool[0] else pool[0] + '.k', ' ' + pool[1] + ' ']
    ops = []
    size_hint = 0
    for _ in range(n):
        r = rng.random()
        if r < 0.25:
            members = [gen_member(rng, pool) for _ in range(rng.randrange(0, 5))]
            # pieces = the exact texts between the commas
            pieces = []
            after = ''
            for m in members:
                before = rng.choice(['', '', ' ', '\n', '/**/', ' /*,*/'])
                pieces.append(after + m + before)
                after = rng.choice(['', ' ', ' ', '\n '])
            text = ','.join(pieces)
            trailing = bool(members) and rng.random() < 0.1
            if trailing:
                text += ',' + after
            ops.append(('set', text, (pieces, trailing)))
            size_hint = len(members)
        elif r < 0.8 or size_hint == 0:
            ops.append(('append', gen_member(rng, pool), None))
            size_hint += 1
        else:
            ops.append(('setitem', gen_member(rng, pool), rng.randrange(0, 8)))
    return ops


def run_list_history(ctx, ops):
    """runs on SelectorList; oracles on the implementation; returns model input/expected output"""
    import cssutils
    import xml.dom
    from harness import impl
    impl.reset(raise_exceptions=False)
    sl = cssutils.css.SelectorList()
    flat, want = [], []
    ref = []      # reference state: list of (selectorText, specificity)
    case = {'ops': [[o[0], o[1], o[2] if o[0] == 'setitem' else None] for o in ops]}

    def snapshot():
        return [(s.selectorText, tuple(s.specificity)) for s in sl]

    for k, (op, text, extra) in enumerate(ops):
        before = snapshot()
        if not encodable(text):
            continue
        try:
            if op == 'set':
                sl.selectorText = text
            elif op == 'append':
                sl.appendSelector(text)
            else:
                if extra >= len(before):
                    continue
                sl[extra] = text
        except xml.dom.DOMException:
            pass
        except Exception as e:   # noqa
            ctx.violation('list-crash', dict(case, at=k), 'op %d %r raised %s: %s' % (k, (op, text), type(e).__name__, e), KNOWN_PRED)
            return None
        after = snapshot()
        # ---- reference semantics, stated on member texts
        if op == 'append' or op == 'setitem':
            single = parse_impl(text)
            impl.reset(raise_exceptions=False)
            if single[0] == 'ok':
                if single[1] is None:
                    exp = before
                else:
                    new = (single[1][3], single[1][0])
                    if op == 'append':
                        exp = [x for x in before if x[0] != new[0]] + [new]
                    else:
                        exp = list(before)
                        exp[extra] = new
                if after != exp:
                    ctx.violation('list-' + op, dict(case, at=k), 'op %d %s(%r): list %r -> %r, expected %r' % (k, op, text, before, after, exp), KNOWN_PRED)
                if op == 'append' and single[1] is not None:
                    texts = [x[0] for x in after]
                    if texts.count(single[1][3]) != 1 or texts[-1] != single[1][3]:
                        ctx.violation('list-append-dup', dict(case, at=k), 'after appending %r the list is %r' % (text, texts), KNOWN_PRED)
        else:
            pieces, trailing = extra
            if pieces and not any(',' in p.replace('/*,*/', '') or ESC_STRUCT.search(p) or p.endswith('\\')
                                  or not balanced(p) for p in pieces):
                singles = [parse_impl(p) for p in pieces]
                impl.reset(raise_exceptions=False)
                if all(s[0] == 'ok' for s in singles):
                    if all(s[1] is not None for s in singles) and not trailing:
                        exp = [(s[1][3], s[1][0]) for s in singles]       # order preserved
                    else:
                        exp = before                                      # rejected as a whole
                    if after != exp:
                        ctx.violation('list-set', dict(case, at=k), 'op %d selectorText=%r: list %r -> %r, expected %r' % (k, text, before, after, exp), KNOWN_PRED)
        if sl.length != len(after) or sl.selectorText != ', '.join(x[0] for x in after):
            ctx.violation('list-text', dict(case, at=k), 'length %r / selectorText %r vs members %r' % (sl.length, sl.selectorText, after), KNOWN_PRED)
        code = {'set': 0, 'append': 1}.get(op, 2 + (extra if op == 'setitem' else 0))
        flat += [code, len(text)] + s2n(text)
        rec = [len(after)]
        for t, sp in after:
            rec += [sp[1], sp[2], sp[3], len(t)] + s2n(t)
        want += rec
    return flat, want, case


# --------------------------------------------------------------------------
def namespaced_family(ctx):
    """selectors with namespace prefixes: (1) a stand-alone Selector with its own dictionary serialises to a text that
    re-resolves to the same items and specificity, wherever the prefix is used (also only inside :not());
    (2) a member of a list attached to a sheet that is assigned / appended as text resolves against the sheet's
    namespaces exactly as the same text set on the rule does, and an equal member moves instead of being doubled.
    Search only."""
    import cssutils
    import xml.dom
    from harness import impl
    D = {'p': 'http://p', 'q': 'http://q'}
    for text in ['p|a', 'q|b:not(p|a)', ':not(p|a)', 'b:not(p|*)', 'x[p|att]', 'q|b:not([p|att])', 'p|a > q|b', '*|a:not(q|c).k', 'a:not(p|b)::after']:
        impl.reset()
        case = {'family': 'namespaced-detached', 'text': text, 'namespaces': D}
        ctx.case(('ns-detached', text))
        try:
            s1 = cssutils.css.Selector((text, dict(D)))
            s2 = cssutils.css.Selector((s1.selectorText, dict(D)))
            a = ([(i.type, i.value) for i in s1.seq], tuple(s1.specificity))
            b = ([(i.type, i.value) for i in s2.seq], tuple(s2.specificity))
        except xml.dom.DOMException as e:
            ctx.violation('roundtrip', case, 'rejected: %s' % e, KNOWN_PRED)
            continue
        except Exception as e:  # noqa
            ctx.violation('roundtrip', case, '%s: %s' % (type(e).__name__, e), KNOWN_PRED)
            continue
        if a != b:
            ctx.violation('roundtrip', case, 'selectorText %r re-resolves to %r, the selector holds %r' % (s1.selectorText, b, a), KNOWN_PRED)
    # a namespace separator with nothing after it is no selector: the member and the list are rejected
    for text in ['b |', 'b *|', 'b p|', 'b > |', 'a, b |', '|', '*|', 'p|', 'b:not(p|)', 'b |, c', 'b[p|]']:
        for raising in (True, False):
            impl.reset(raise_exceptions=raising)
            case = {'family': 'dangling-namespace-separator', 'text': text, 'raising': raising}
            ctx.case(('dangling', text, raising))
            try:
                try:
                    sl = cssutils.css.SelectorList((text, dict(D)))
                    accepted = sl.wellformed and sl.length > 0 and bool(sl.selectorText)
                    left = sl.selectorText
                except xml.dom.DOMException:
                    accepted, left = False, None
                sh = cssutils.parseString('@namespace p "http://p"; %s {left:0} k{m:n}' % text)
                kept = [r.selectorText for r in sh.cssRules if r.type == r.STYLE_RULE]
            except Exception as e:  # noqa
                ctx.violation('list-all-or-nothing', case, '%s: %s' % (type(e).__name__, e), KNOWN_PRED)
                continue
            finally:
                cssutils.log.raiseExceptions = True
            if accepted or kept != ['k']:
                ctx.violation('list-all-or-nothing', case, 'SelectorList(%r) %s (text %r); in a sheet the style rules are %r' % (
                    text, 'accepted' if accepted else 'rejected', left, kept), KNOWN_PRED)
    # comments in selectors and the serializer's keepComments: the items and the specificity stay
    for text in ['a /*c*/b', 'a /*x*//*y*/.b', '.a /*c*/.b', 'a:hover /*c*/b', 'a /*c*/*', 'a/*c*/ b', 'a /*c*/ b', 'a/*c*/.b', 'a /*c*/> b', 'a /*c*/[x]', 'a, b /*c*/c']:
        impl.reset()
        case = {'family': 'comments-off', 'text': text}
        ctx.case(('comments-off', text))
        try:
            s1 = cssutils.css.SelectorList(text)
            cssutils.ser.prefs.keepComments = False
            out = s1.selectorText
            cssutils.ser.prefs.useDefaults()
            s2 = cssutils.css.SelectorList(out)
            from harness import sem_dom as S_
            a = [(S_.sem_selector(x), tuple(x.specificity)) for x in s1]
            b = [(S_.sem_selector(x), tuple(x.specificity)) for x in s2]
        except Exception as e:  # noqa
            cssutils.ser.prefs.useDefaults()
            ctx.violation('roundtrip', case, '%s: %s' % (type(e).__name__, e), KNOWN_PRED)
            continue
        if a != b:
            ctx.violation('roundtrip', case, 'with keepComments off %r is written %r: items and specificity %r, the selector holds %r' % (text, out, b, a), KNOWN_PRED)
    SHEET = '@namespace "http://d"; @namespace p "http://p"; a, p|b, c {left:0} z {top:0}'
    for member in ['b.k', 'p|c', 'x:not(p|y)', '*|w', '|v', 'a']:
        for how in ('setitem0', 'setitem1', 'append'):
            impl.reset()
            case = {'family': 'namespaced-attached', 'sheet': SHEET, 'member': member, 'how': how}
            ctx.case(('ns-attached', member, how))
            try:
                sheet = cssutils.parseString(SHEET)
                sl = sheet.cssRules[2].selectorList
                ref_rule = sheet.cssRules[3]
                ref_rule.selectorText = member
                want = [(i.type, i.value) for i in ref_rule.selectorList[0].seq]
                if how == 'append':
                    sl.appendSelector(member)
                    got_sel = sl[-1]
                else:
                    idx = int(how[-1])
                    sl[idx] = member
                    got_sel = sl[idx]
                got = [(i.type, i.value) for i in got_sel.seq]
                texts_ = [x.selectorText for x in sl]
                again = cssutils.parseString(sheet.cssText)
                back = [[(i.type, i.value) for i in x.seq] for x in again.cssRules[2].selectorList]
                now = [[(i.type, i.value) for i in x.seq] for x in sl]
            except xml.dom.DOMException as e:
                ctx.violation('list-set', case, 'rejected although the same text is accepted as the rule\'s selectorText: %s' % e, KNOWN_PRED)
                continue
            except Exception as e:  # noqa
                ctx.violation('list-set', case, '%s: %s' % (type(e).__name__, e), KNOWN_PRED)
                continue
            if got != want or (how == 'append' and len(set(texts_)) != len(texts_)) or back != now:
                ctx.violation('list-set', case, 'member holds %r, the same text on a rule of this sheet gives %r; list texts %r; read back %r' % (
                    got, want, texts_, back), KNOWN_PRED)


def reassign_family(ctx, n):
    """one Selector object assigned a sequence of texts (valid, respelled, rejected at every stage): after each
    assignment it reports what a fresh Selector of the last accepted text reports - specificity, element, items, text"""
    import cssutils
    import xml.dom
    from harness import impl
    rng = ctx.rng
    good = ['a', 'a.x', '#i div > p', 'a:not(.b)', '*', 'a[b=c]:hover', 'ul li::after', 'a + b ~ c', ':not(#i)', 'x|y' if False else 'h1.t.u']
    bad = ['#i div >', 'a:not(', 'a[b', 'a,', ', a', 'a..b', '#i #j [', 'div p +', 'a:not(b c)', '', '   ', 'a { }', '#i.c:not(#j', '[a=b] >', 'a::', 'a:not(:not(b))',
           'x#i.c[d] ~']
    for _ in range(n):
        hist = [rng.choice(good)] + [rng.choice(good + bad + bad) for _ in range(rng.randrange(1, 5))]
        for mode in (True, False):
            impl.reset(raise_exceptions=mode)
            ctx.case(('reassign', tuple(hist), mode))
            try:
                sel = cssutils.css.Selector(hist[0])
                last = hist[0]
                for t in hist[1:]:
                    try:
                        sel.selectorText = t
                    except xml.dom.DOMException:
                        pass
                    try:    # what a fresh object makes of the text decides whether it counts as accepted
                        if cssutils.css.Selector(t).wellformed:
                            last = t
                    except xml.dom.DOMException:
                        pass
                    want = observe_selector(cssutils.css.Selector(last))
                    got = observe_selector(sel)
                    if got != want:
                        ctx.violation('reassign', {'history': hist[:hist.index(t) + 1] if t in hist else hist, 'raising_mode': mode, 'last_accepted': last},
                                      'after assigning %r the object reports %r; a fresh Selector(%r) reports %r' % (t, got, last, want), KNOWN_PRED)
                        break
            except Exception as e:   # noqa
                ctx.violation('raises', {'history': hist, 'raising_mode': mode}, '%s: %s' % (type(e).__name__, e), KNOWN_PRED)


def run(ctx):
    rng = ctx.rng
    quick = ctx.tier == 'quick'
    namespaced_family(ctx)
    reassign_family(ctx, 150 if quick else 6000)
    n_ast, n_mut, n_soup, n_hist = (2500, 3000, 2000, 400) if quick else (100000, 160000, 120000, 20000)
    ctx.cov['rule'] = ('selectors from the AST generator (1-4 compounds; type/universal with none, *| and | prefix; id, class, attribute '
                       'x 7 forms, pseudo-class, functional pseudo with an+b / ident / string arguments, :not(simple), one/two-colon and '
                       'functional pseudo-elements; 4 combinators) each in a canonical and a random spelling (white space, comments, '
                       'letter case and escapes of keywords incl. not, escaped names); mutations of those; token soup over a 60-fragment '
                       'alphabet (exhaustive up to length 2); list histories of selectorText= / appendSelector / [i]= with valid, '
                       'respelled, mutated and junk members.  distinct = distinct texts / histories; all non-trivial')
    texts = []          # (text, kind)
    ast_cases = []
    render_cases = []      # (tree, text, flat encoding of tree + spelling)
    for _ in range(n_ast):
        sel = gen_selector(rng)
        canon, canon_enc = A.render(rng, sel, 0)
        text, text_enc = A.render(rng, sel, 1)
        if not (encodable(canon) and encodable(text)):
            continue
        ast_cases.append((sel, text, canon))
        render_cases.append((sel, text, text_enc))
        render_cases.append((sel, canon, canon_enc))
    # ---- implementation runs + oracles
    impl_obs = {}

    def obs_of(t):
        if t not in impl_obs:
            impl_obs[t] = parse_impl(t)
        return impl_obs[t]

    nwf = 0
    for sel, text, canon in ast_cases:
        o, co = obs_of(text), obs_of(canon)
        ctx.case(('ast', text))
        ctx.case(('ast', canon))
        oracle_ast(ctx, sel, text, canon, o, co)
        if o[0] == 'ok' and o[1] is not None:
            nwf += 1
    if ast_cases:
        ctx.sample({'ast_text': ast_cases[0][1], 'canonical': ast_cases[0][2], 'count': list(count(ast_cases[0][0]))})
    # raise mode agrees with log mode on a sample
    for sel, text, canon in ast_cases[:150]:
        a = parse_impl(text, raise_exceptions=True)
        if a != obs_of(text):
            ctx.violation('raise-vs-log', {'text': text}, 'raiseExceptions=True gives %r, log mode %r' % (a, obs_of(text)), KNOWN_PRED)
    others = []
    base = [c[2] for c in ast_cases] + [c[1] for c in ast_cases]
    for _ in range(n_mut):
        t = mutate(rng, rng.choice(base)) if base else gen_soup(rng)
        if rng.random() < 0.3:
            t = mutate(rng, t)
        others.append(t)
    for _ in range(n_soup):
        others.append(gen_soup(rng))
    small = list(ALPHA) + [a + b for a in ALPHA for b in ALPHA]
    if not quick:
        small += [a + b + c for a in ALPHA[:40] for b in ALPHA[:40] for c in ALPHA[:40]]
    others += small
    # names made of characters Python calls white space but CSS calls name characters (U+00A0, U+2003, U+3000, U+0085)
    for w in ('\u00a0', '\u3000', '\u2003', '\u0085', '\u00a0\u00a0', 'a\u00a0', '\u00a0a'):
        for tmpl in ('%s', ':not(%s)', 'a %s b', 'a > %s', '.%s', '#%s', 'a[%s=b]', 'a[b=%s]', 'a:lang(%s)', '%s|a', 'a::%s', '%s + %s', ':not(.%s):link'):
            others.append(tmpl.replace('%s', w))
    # two simple selectors inside one negation, with and without something between them
    for a in ('b', '.x', '#i', '[x]', ':hover', '*', '|b', '*|b'):
        for sep in (' ', '/**/', ' /**/ ', '\t'):
            for b in ('c', 'C', '\\63 '):
                others.append('a:not(%s%s%s)' % (a, sep, b))
                others.append(':NOT( %s%s%s )>d' % (a, sep, b))
    others = [t for t in dict.fromkeys(others) if t and encodable(t)]
    nrej = 0
    for t in others:
        o = obs_of(t)
        ctx.case(('text', t))
        if o[0] == 'ok' and o[1] is None:
            nrej += 1
        elif o[0] == 'ok':
            # whatever is accepted: its serialisation reparses to the same simple selectors, combinators and specificity
            st = o[1][3]
            o2 = obs_of(st) if st != t else o
            def strip(ob):
                # comments aside; the argument of a functional pseudo (an+b, ident, string) as one text without white space
                items, arg = [], None
                for i in ob[2]:
                    if i[0] in ('COMMENT',):
                        continue
                    if arg is not None:
                        if i[0] == 'function-end':
                            items.append(('argument', 0, ''.join(arg)))
                            items.append(i)
                            arg = None
                        elif i[0] != 'S':
                            arg.append(str(i[2]))
                        continue
                    items.append(i)
                    if i[0] in ('pseudo-class', 'pseudo-element') and str(i[2]).endswith('('):
                        arg = []
                return (ob[0], ob[1], tuple(items))
            if o2[0] != 'ok' or o2[1] is None or strip(o2[1]) != strip(o[1]) or o2[1][3] != st:
                ctx.violation('roundtrip-accepted', {'text': t, 'serialised': st}, 'accepted as %r; its serialisation reads back as %r' % (o[1], o2[1]), KNOWN_PRED)
    ctx.extra['distribution'] = {'ast_selectors': len(ast_cases), 'ast_wellformed': nwf, 'other_texts': len(others),
                                 'other_rejected': nrej}
    # ---- correspondence: selector parse + prepare
    all_texts = list(dict.fromkeys([c[1] for c in ast_cases] + [c[2] for c in ast_cases] + others))
    if ctx.model.available:
        outs = ctx.model.run([[160] + s2n(t) for t in all_texts])
        agree = 0
        for t, m in zip(all_texts, outs):
            o = obs_of(t)
            want = encode_obs(o[1]) if o[0] == 'ok' else ['crash', o[1]]
            if m == want:
                agree += 1
            else:
                ctx.disagree('selector', {'text': t}, repr(o)[:600], decode_model(m))
        prep_texts = all_texts[::3]
        outs = ctx.model.run([[161] + s2n(t) for t in prep_texts])
        pag = 0
        for t, m in zip(prep_texts, outs):
            try:
                w = prepare_impl(t)
            except Exception as e:   # noqa
                w = ['crash', type(e).__name__]
            if (m or []) == w:
                pag += 1
            else:
                ctx.disagree('prepare_tokens', {'text': t}, w[:60], (m or [])[:60])
        ctx.extra['correspondence'] = {'selectors': len(all_texts), 'agree': agree, 'prepare': len(prep_texts), 'prepare_agree': pag}
        ctx.extra['correspondence'].update(render_correspondence(ctx, render_cases, obs_of))
    else:
        ctx.broken.append(('correspondence', 'extracted model not available'))
    # ---- list histories
    mcases, wants, cases = [], [], []
    for _ in range(n_hist):
        ops = gen_list_history(rng, rng.randrange(1, 10 if quick else 16))
        r = run_list_history(ctx, ops)
        ctx.case(('hist', tuple((o[0], o[1], o[2] if o[0] == 'setitem' else None) for o in ops)))
        if r is None:
            continue
        flat, want, case = r
        mcases.append([162] + flat)
        wants.append(want)
        cases.append(case)
    if cases:
        ctx.sample(cases[0])
    if ctx.model.available:
        outs = ctx.model.run(mcases)
        agree = 0
        for w, o, case in zip(wants, outs, cases):
            if (o or []) == w:
                agree += 1
            else:
                ctx.disagree('selectorlist', case, w[:80], (o or [])[:80])
        ctx.extra.setdefault('correspondence', {}).update({'list_histories': len(cases), 'list_agree': agree})


def render_correspondence(ctx, render_cases, obs_of):
    """Model/Selector.v `render` (the subject of the Coq theorems) against the text the harness wrote: for the same
    tree and spelling the Coq rendering must be the token sequence cssutils' tokenizer reads from the text, the
    side conditions sel_ok / sp_ok of the theorems must hold, the counts must be the harness' counts and
    parse_sel (render sp sel) must be what Selector(text) reports"""
    from harness import impl
    outs = ctx.model.run([[163] + enc for _, _, enc in render_cases])
    agree = in_domain = 0
    for (sel, text, enc), m in zip(render_cases, outs):
        case = {'text': text}
        if not m or m[0] != 1:
            ctx.disagree('render-decode', case, 'encoding of tree + spelling', m and m[:5])
            continue
        if m[1] == 1 and m[2] == 1:
            in_domain += 1
        else:
            ctx.disagree('render-domain', case, 'sel_ok / sp_ok expected to hold for generated trees', m[1:3])
        if tuple(m[3:7]) != count(sel):
            ctx.disagree('render-count', case, list(count(sel)), m[3:7])
        n = m[7]
        i = 8
        toks = []
        for _ in range(n):
            l = m[i + 1]
            toks.append((m[i], n2s(m[i + 2:i + 2 + l])))
            i += 2 + l
        try:
            want = [(impl.TOKCODE.get(t[0], 998), t[1]) for t in impl.tokenize(text, full=False)]
        except Exception as e:   # noqa
            want = [('crash', type(e).__name__)]
        o = obs_of(text)
        res = encode_obs(o[1]) if o[0] == 'ok' else ['crash', o[1]]
        if toks != want:
            ctx.disagree('render-tokens', case, want[:40], toks[:40])
        elif m[i:] != res:
            ctx.disagree('render-parse', case, repr(o)[:400], decode_model(m[i:]))
        else:
            agree += 1
    return {'render': len(render_cases), 'render_agree': agree, 'render_in_theorem_domain': in_domain}


def decode_model(m):
    if m is None:
        return None
    if m == [0]:
        return 'rejected'
    try:
        i = 1
        spec = m[i:i + 3]; i += 3
        if m[i] == 0:
            el = None; i += 1
        else:
            l = m[i + 1]; el = (m[i], n2s(m[i + 2:i + 2 + l])); i += 2 + l
        n = m[i]; i += 1
        T = {v: k for k, v in _itypes().items()}
        items = []
        for _ in range(n):
            l = m[i + 2]
            items.append((T.get(m[i], m[i]), m[i + 1], n2s(m[i + 3:i + 3 + l]))); i += 3 + l
        l = m[i]
        return repr((spec, el, items, n2s(m[i + 1:i + 1 + l])))[:600]
    except Exception:   # noqa
        return repr(m)[:300]


def replay(path):
    d = json.load(open(path))
    print(json.dumps(d, indent=1)[:3000])
    case = d.get('case', {})
    for key in ('text', 'canonical', 'serialised'):
        if key in case:
            print(key, repr(case[key]), '->', parse_impl(case[key]))
    return 0
