"""C17 — media lists are canonical ordered sets; media queries survive intact.
Coq: Model/MediaList.v (+Gen/GenMedia.v, Gen/GenLex.v regenerated),
Proofs/MediaListFacts.v, Props/C17.v.
Correspondence: histories of mediaText= / appendMedium / deleteMedium /
list[i]= run in lock-step on MediaList (stand-alone, owned by @media and
@import rules, built by constructor or by parsing a sheet) and on the
extracted model; full observation after every operation.
Search: an independent reference model (ordered set of simple media types)
and metamorphic checks (reparse of mediaText, query round trip, one bad query
invalidates the list, owner rule text)."""
import json
import re

from harness import core
from harness.core import s2n

GEN = ['GenLex', 'GenMedia']

MANIFEST = dict(
    text='Machine-checked (Coq, closed under the global context) about the model of MediaList/MediaQuery, for every state reached '
         'by any history of mediaText= / appendMedium / deleteMedium from the empty list (invariant: canonical = simple types '
         'pairwise distinct, a simple "all" stands alone) and for every token sequence: length, item(i) and iteration enumerate the '
         'same queries; a text holding a simple "all" parses to that query alone (plus leading comments); the empty list serialises '
         'as "all"; appending a present type moves it to the end, appending an absent one adds it last; deleteMedium removes exactly '
         'the named type and keeps the rest in order; deleting an absent type, appending to "all" are rejected with the state '
         'unchanged; every well-formed query (only/not, type, and-joined features with values) is reproduced by parsing its '
         'serialisation, followed by any token that stops it; the serialisation of a canonical list reparses to the same queries '
         'and comments; a rejected query anywhere rejects the whole list text and leaves the list unchanged. The model is tied to '
         'the implementation by lock-step histories on every run; media types and keywords are regenerated from the source.',
    note='Trusted: Coq kernel + vm_compute; translator (MEDIA_TYPES, keyword constants, helper.normalize regex/table); '
         'extraction + driver; the hand model of the two ProdParser grammars as a per-token step function and of '
         'appendMedium/deleteMedium/__setitem__/item, validated by correspondence, not verified; the harness token classifier '
         '(which tokens are values); whitespace and the text of values are outside the model (values are opaque tokens, C18). '
         'Item assignment is documented in the source as not removing duplicates: it is modelled as it is and breaks the '
         'canonical invariant (C17_setitem_breaks_canonical_refuted), recorded as known finding C17-setitem-not-canonical.',
    design='7/C17')

RES = {'ok': 0, 'DOM:SyntaxErr': 1, 'DOM:InvalidModificationErr': 2, 'DOM:NotFoundErr': 3, 'Crash:IndexError': 4}

KNOWN_PRED = {
    # list[i] = medium does not canonicalise (source: "Any duplicate items are **not yet** removed")
    'C17-setitem-not-canonical': lambda kind, case, detail: kind == 'not-canonical' and case.get('by') == 'setitem',
}

# --------------------------------------------------------------------------
# tokens:  ('I', text) ident | ('(',) (')',) (':',) (',',) | ('V', kind, text) | ('C', id) | ('B', kind, text)
# --------------------------------------------------------------------------

BAD = [';', '/', '#ffff', '*', '!', '=', 'x(', '[', '@m', '#12345']
FEATURES = ['color', 'min-width', 'max-width', 'width', 'min-height', 'max-device-width', 'orientation',
            'min-resolution', 'monochrome', 'and', 'only', 'not', 'all', 'x', 'MIN-WIDTH', 'device-aspect']
IDENT_VALUES = ['landscape', 'portrait', 'red', 'Blue', 'interlace', 'progressive', 'screen', 'AND', 'and', 'all', 'x-y']
UNITS = ['px', 'em', 'cm', 'dpi', 'dppx', '%', 'mm', 'pt']
HASHES = ['#fff', '#a1b2c3', '#ABC', '#0f0', '#123456', '#abcdef', '#F0F1F2']
_reHex = re.compile(r'^\#(?:[0-9abcdefABCDEF]{3}|[0-9abcdefABCDEF]{6})$')


def media_types():
    from cssutils.stylesheets import MediaQuery
    return list(MediaQuery.MEDIA_TYPES)


def norm(s):
    import cssutils.helper
    return cssutils.helper.normalize(s)


def anycase(rng, s):
    r = rng.random()
    if r < 0.6:
        return s
    if r < 0.8:
        return s.upper()
    return ''.join(c.upper() if rng.random() < 0.5 else c for c in s)


def gen_value(rng):
    r = rng.random()
    if r < 0.35:
        return ('V', 1, '%d%s' % (rng.randrange(1, 2000), rng.choice(UNITS)))
    if r < 0.45:
        return ('V', 1, '%d.%d%s' % (rng.randrange(0, 30), rng.randrange(1, 10), rng.choice(UNITS[:5])))
    if r < 0.55:
        return ('V', 1, str(rng.randrange(0, 99)))
    if r < 0.60:
        return ('V', 1, '-%d%s' % (rng.randrange(1, 50), rng.choice(UNITS[:3])))
    if r < 0.80:
        return ('I', rng.choice(IDENT_VALUES))
    if r < 0.95:
        return ('V', 2, rng.choice(HASHES))
    return ('V', 3, '"s%d"' % rng.randrange(9))


def gen_feature(rng):
    f = rng.choice(FEATURES)
    if rng.random() < 0.3:
        return (f, None)
    return (f, gen_value(rng))


def gen_query(rng, types, simple_bias=0.45):
    """a well-formed query as a structure with literal spellings"""
    r = rng.random()
    if r < simple_bias:
        return {'neg': None, 'ty': anycase(rng, rng.choice(types)), 'feats': []}
    if r < simple_bias + 0.15:
        return {'neg': anycase(rng, rng.choice(['only', 'not'])), 'ty': anycase(rng, rng.choice(types)),
                'feats': [gen_feature(rng) for _ in range(rng.choice([0, 0, 1, 2]))]}
    if r < simple_bias + 0.40:
        return {'neg': None, 'ty': anycase(rng, rng.choice(types)), 'feats': [gen_feature(rng) for _ in range(rng.randrange(1, 4))]}
    return {'neg': None, 'ty': None, 'feats': [gen_feature(rng) for _ in range(rng.randrange(1, 4))]}


def feat_tokens(f):
    name, v = f
    return [('(',), ('I', name)] + ([(':',), v] if v is not None else []) + [(')',)]


def query_tokens(rng, q):
    out = []
    if q['neg']:
        out.append(('I', q['neg']))
    if q['ty']:
        out.append(('I', q['ty']))
    for k, f in enumerate(q['feats']):
        if k > 0 or q['ty']:
            out.append(('I', anycase(rng, 'and')))
        out += feat_tokens(f)
    return out


def sprinkle_comments(rng, toks, counter, p=0.12, start=1):
    """comments between tokens of a query (never before its first token)"""
    out = []
    for i, t in enumerate(toks):
        if i >= start and rng.random() < p:
            counter[0] += 1
            out.append(('C', counter[0]))
        out.append(t)
    if rng.random() < p:
        counter[0] += 1
        out.append(('C', counter[0]))
    return out


def q_mtype(q):
    return q['ty'] if (q['ty'] and not q['neg'] and not q['feats']) else ''


def gen_list(rng, types, counter, n=None, comments=True):
    """a well-formed list text: tokens + the queries it spells"""
    n = n or rng.choice([1, 1, 2, 2, 3, 3, 4, 5])
    qs, toks = [], []
    pool = rng.sample(types, min(len(types), rng.choice([2, 3, 4, 10])))
    if rng.random() < 0.75 and 'all' in pool:
        pool.remove('all')
    for i in range(n):
        q = gen_query(rng, pool)
        qs.append(q)
        if i:
            toks.append((',',))
        while comments and rng.random() < 0.15:
            counter[0] += 1
            toks.append(('C', counter[0]))
        toks += sprinkle_comments(rng, query_tokens(rng, q), counter) if comments else query_tokens(rng, q)
    return toks, qs


KNOWN_BAD = [  # queries that are certainly not media queries of the documented grammar
    [('I', 'bogus')], [('I', 'screen'), ('I', 'and')], [('(',), ('I', 'color')], [('I', 'not')], [('I', 'only')],
    [('I', 'screen'), ('I', 'and'), ('(',), ('I', 'x'), (':',), (')',)], [('I', 'tv'), ('I', 'print')],
    [('(',), ('I', 'a'), (':',), ('V', 1, '1'), ('V', 1, '2'), (')',)], [('I', 'and'), ('(',), ('I', 'a'), (')',)],
    [('I', 'screen'), ('I', 'and'), ('I', 'color')], [('I', 'screen'), ('(',), ('I', 'color'), (')',)],
    [('(',), (')',)], [('(',), ('V', 1, '1'), (')',)], [('I', 'screen'), ('I', 'and'), ('(',)],
    [('I', 'screen'), ('I', 'and'), ('(',), ('I', 'x'), (':',)], [('I', 'not'), ('(',), ('I', 'color'), (')',)],
    [('I', 'tv'), ('B', 0, ';')], [('(',), ('I', 'a'), (':',), ('B', 2, '#ffff'), (')',)],
    [('I', 'tv'), ('I', 'and'), ('(',), ('I', 'a'), (')',), ('I', 'and')],
]


def mutate(rng, toks, counter):
    toks = list(toks)
    k = rng.randrange(6)
    pos = rng.randrange(len(toks) + 1)
    ins = rng.choice([('I', 'bogus'), ('I', 'and'), (',',), ('(',), (')',), (':',), ('V', 1, '7'), ('I', 'tv'), ('I', 'not'),
                      ('B', 0, rng.choice(BAD))])
    if k == 0 and toks:
        del toks[min(pos, len(toks) - 1)]
    elif k == 1:
        toks.insert(pos, ins)
    elif k == 2 and toks:
        toks.insert(pos, toks[min(pos, len(toks) - 1)])
    elif k == 3 and len(toks) > 1:
        i = min(pos, len(toks) - 2)
        toks[i], toks[i + 1] = toks[i + 1], toks[i]
    elif k == 4:
        toks = toks[:pos]
    else:
        toks.insert(pos, ins)
        if toks:
            del toks[rng.randrange(len(toks))]
    return toks


def render(rng, toks):
    """text of a token list; blanks only where they cannot change the tokens"""
    out = []
    prev = None
    for t in toks:
        s = {'I': lambda: t[1], 'V': lambda: t[2], 'B': lambda: t[2], 'C': lambda: '/*c%d*/' % t[1]}.get(t[0], lambda: t[0])()
        if prev is not None:
            tight_ok = (prev[0] in ('(', ',', ':') or t[0] in (')', ',', ':') or (prev[0] == ')' and t[0] in ('(',))
                        or prev[0] == 'C' or t[0] == 'C') and prev[0] != 'B' and t[0] != 'B'
            if tight_ok and rng.random() < 0.5:
                sp = ''
            else:
                sp = rng.choice([' ', ' ', ' ', '  ', '\t', '\n'])
            out.append(sp)
        out.append(s)
        prev = t
    text = ''.join(out)
    if rng.random() < 0.2:
        text = ' ' + text
    if rng.random() < 0.2:
        text += ' '
    return text


def classify(tokens):
    """cssutils tokens -> the alphabet above (S dropped)"""
    out = []
    for ty, v, _, _ in tokens:
        if ty == 'S':
            continue
        if ty == 'IDENT':
            out.append(('I', v))
        elif ty == 'CHAR' and v in '(),:':
            out.append((v,))
        elif ty == 'COMMENT':
            m = re.match(r'^/\*c(\d+)\*/$', v)
            out.append(('C', int(m.group(1))) if m else ('B', 9, v))
        elif ty in ('DIMENSION', 'NUMBER', 'PERCENTAGE'):
            out.append(('V', 1, v))
        elif ty == 'HASH' and _reHex.match(v):
            out.append(('V', 2, v))
        elif ty == 'STRING':
            out.append(('V', 3, v))
        else:
            out.append(('B', 0, v))
    return out


def tok_text(text):
    import cssutils.tokenize2
    return classify(cssutils.tokenize2.Tokenizer().tokenize(text.strip()))


def same_tokens(a, b):
    """token equality up to the kind id of bad tokens"""
    def k(t):
        return ('B', t[2]) if t[0] == 'B' else t
    return [k(t) for t in a] == [k(t) for t in b]


def enc_tok(t):
    if t[0] == 'I':
        return [0, len(t[1])] + s2n(t[1])
    if t[0] in '():,':
        return [{'(': 1, ')': 2, ':': 3, ',': 4}[t[0]]]
    if t[0] == 'V':
        return [5, t[1], len(t[2])] + s2n(t[2])
    if t[0] == 'C':
        return [6, t[1]]
    return [7, 0]


def enc_toks(toks):
    out = [len(toks)]
    for t in toks:
        out += enc_tok(t)
    return out


def enc_op(op):
    k = op[0]
    if k == 'settext':
        return [0] + enc_toks(op[1])
    if k == 'append':
        return [1] + enc_toks(op[1])
    if k == 'delete':
        return [2, len(op[1])] + s2n(op[1])
    idx = op[1]
    return [3, 1 if idx < 0 else 0, abs(idx)] + enc_toks(op[2])


# --------------------------------------------------------------------------
# observation of the implementation
# --------------------------------------------------------------------------

def proj_query(mq):
    """MediaQuery.seq -> ('Q', neg, type, feats, comments, mediaType)"""
    import cssutils
    neg = ty = None
    feats, coms = [], []
    depth = 0
    cur = None
    after_colon = False
    for it in mq.seq:
        v, t = it.value, it.type
        if isinstance(v, cssutils.css.CSSComment):
            m = re.match(r'^/\*c(\d+)\*/$', v.cssText)
            coms.append(int(m.group(1)) if m else -1)
        elif t == 'CHAR' and v == '(':
            depth, cur, after_colon = 1, None, False
        elif t == 'CHAR' and v == ')':
            feats.append(tuple(cur) if cur else ('?', None))
            depth = 0
        elif t == 'CHAR' and v == ':':
            after_colon = True
        elif depth == 0 and t == 'IDENT':
            n = norm(v)
            if n == 'and' and (ty is not None or feats):
                continue
            if n in ('only', 'not') and neg is None and ty is None:
                neg = v
            elif ty is None:
                ty = v
            else:
                feats.append(('?ident', v))
        elif depth == 1 and not after_colon and t == 'IDENT' and cur is None:
            cur = [v, None]
        elif depth == 1 and after_colon and cur is not None and cur[1] is None:
            if t == 'IDENT':
                cur[1] = (0, v)
            else:
                text = v.cssText
                if t == 'DIMENSION':
                    cur[1] = (1, text)
                elif t == 'ColorValue':
                    cur[1] = (2, text) if text.startswith('#') else (0, text)
                elif t == 'Value':
                    cur[1] = (3, text) if text[:1] in '"\'' else (0, text)
                else:
                    cur[1] = (9, text)
        else:
            feats.append(('?', t, str(v)))
    return ('Q', neg, ty, tuple(feats), tuple(coms), mq.mediaType)


def proj_items(ml):
    import cssutils
    out = []
    for it in ml.seq:
        v = it.value
        if isinstance(v, cssutils.css.CSSComment):
            m = re.match(r'^/\*c(\d+)\*/$', v.cssText)
            out.append(('C', int(m.group(1)) if m else -1))
        elif isinstance(v, cssutils.stylesheets.MediaQuery):
            out.append(proj_query(v))
        else:
            out.append(('U', it.type, str(v)))
    return out


def lower_and(toks):
    """the keyword 'and' between expressions compares case-insensitively"""
    out, depth = [], 0
    for t in toks:
        if t[0] == '(':
            depth += 1
        elif t[0] == ')':
            depth = max(0, depth - 1)
        if depth == 0 and t[0] == 'I' and t[1].lower() == 'and':
            t = ('I', 'and')
        out.append(t)
    return out


def observe(ml):
    """everything the property talks about; never raises"""
    o = {}

    def get(k, f):
        try:
            o[k] = f()
        except Exception as e:  # noqa
            o[k] = 'EXC %s: %s' % (type(e).__name__, str(e)[:80])
    get('text', lambda: ml.mediaText)
    get('length', lambda: ml.length)
    n = o['length'] if isinstance(o['length'], int) else 0
    get('item', lambda: [ml.item(i) for i in range(n + 1)])
    get('iter', lambda: [x.value.mediaType for x in ml])
    get('iterq', lambda: [proj_query(x.value) for x in ml])
    get('wf', lambda: bool(ml.wellformed))
    get('items', lambda: proj_items(ml))
    get('toks', lambda: tok_text(ml.mediaText))
    return o


def strip_coms(toks):
    return [t for t in toks if t[0] != 'C'], [t[1] for t in toks if t[0] == 'C']


def strip_q(q):
    return ('Q', q[1], q[2], q[3])


def view(o):
    """what must survive a round trip: the queries (features, values, order), without comments,
    and the sequence of all comments"""
    qs = [strip_q(i) for i in o['items'] if i[0] == 'Q']
    coms = []
    for i in o['items']:
        if i[0] == 'C':
            coms.append(i[1])
        elif i[0] == 'Q':
            coms += list(i[4])
    return qs, coms


# --------------------------------------------------------------------------
# reference model: ordered set of simple media types (+ opaque other queries)
# --------------------------------------------------------------------------

def ref_types(o):
    """normalised simple types, '' for a query that is not a simple type"""
    return [norm(i[5]) for i in o['items'] if i[0] == 'Q']


def canonical(types):
    simple = [t for t in types if t]
    return len(simple) == len(set(simple)) and ('all' not in simple or len(types) == 1)


def ref_settext(qs):
    """canonical form of a well-formed list of query structures: (query index list)"""
    keep, seen = [], set()
    for i, q in enumerate(qs):
        t = norm(q_mtype(q))
        if t == 'all':
            return [i]
        if t and t in seen:
            continue
        if t:
            seen.add(t)
        keep.append(i)
    return keep


def q_view(q):
    return ('Q', q['neg'], q['ty'], tuple((f, (0, v[1]) if v is not None and v[0] == 'I' else ((v[1], v[2]) if v is not None else None))
                                         for f, v in q['feats']))


# --------------------------------------------------------------------------
# histories
# --------------------------------------------------------------------------

KINDS = ['plain', 'ctor', 'ctor-list', 'media-rule', 'import-rule', 'parsed-media', 'parsed-import']


def gen_history(rng, types, nops):
    counter = [0]
    kind = rng.choice(KINDS)
    init = None
    if kind != 'plain':
        while True:
            counter[0] = 0
            toks, qs = gen_list(rng, types, counter, comments=(kind != 'ctor-list'))
            # the @import parser only recognises a list that starts with a media type
            if kind != 'parsed-import' or (toks[0][0] == 'I' and qs[0]['ty']):
                break
        init = {'toks': toks, 'qs': qs, 'text': render(rng, toks)}
        if kind == 'ctor-list':
            init['parts'] = [render(rng, query_tokens(rng, q)) for q in qs]
            init['toks'] = []
            for i, p in enumerate(init['parts']):
                init['toks'] += ([(',',)] if i else []) + tok_text(p)
            init['text'] = ','.join(init['parts'])
    ops = []
    for _ in range(nops):
        r = rng.random()
        if r < 0.22:
            toks, qs = gen_list(rng, types, counter)
            w = rng.random()
            meta = {'valid': True, 'qs': qs}
            if w < 0.25:
                toks = mutate(rng, toks, counter)
                meta = {'valid': None}
            elif w < 0.40:
                # one certainly malformed query among good ones
                parts, cur = [], []
                for t in toks:
                    if t[0] == ',':
                        parts.append(cur)
                        cur = []
                    else:
                        cur.append(t)
                parts.append(cur)
                j = rng.randrange(len(parts) + 1)
                parts.insert(j, list(rng.choice(KNOWN_BAD)))
                toks = []
                for i, p in enumerate(parts):
                    toks += ([(',',)] if i else []) + p
                meta = {'valid': False}
            elif w < 0.46:
                # nothing but comments / nothing at all: rejected, the list (flag included) stays
                counter[0] += 1
                toks = [] if rng.random() < 0.3 else [('C', counter[0])] * rng.randrange(1, 3)
                meta = {'valid': False}
            ops.append(('settext', toks, render(rng, toks), meta))
        elif r < 0.62:
            w = rng.random()
            q = gen_query(rng, types, simple_bias=0.7)
            toks = sprinkle_comments(rng, query_tokens(rng, q), counter, p=0.05, start=0)
            meta = {'valid': True, 'q': q}
            if w < 0.12:
                toks = mutate(rng, toks, counter)
                meta = {'valid': None}
            elif w < 0.20:
                toks = list(rng.choice(KNOWN_BAD))
                meta = {'valid': False}
            elif w < 0.26:
                # a list where a single medium is expected
                toks = toks + [(',',)] + query_tokens(rng, gen_query(rng, types))
                meta = {'valid': False}
            if not toks:
                toks = [('I', 'bogus')]
                meta = {'valid': False}
            ops.append(('append', toks, render(rng, toks), meta, rng.choice(['appendMedium', 'appendMedium', 'append', 'object'])))
        elif r < 0.88:
            w = rng.random()
            name = rng.choice(types) if w < 0.85 else rng.choice(['bogus', 'and', 'only', 'x', ''])
            ops.append(('delete', anycase(rng, name)))
        else:
            q = gen_query(rng, types, simple_bias=0.7)
            toks = query_tokens(rng, q)
            meta = {'valid': True, 'q': q}
            if rng.random() < 0.15:
                toks = list(rng.choice(KNOWN_BAD))
                meta = {'valid': False}
            ops.append(('setitem', rng.randrange(-3, 5), toks, render(rng, toks), meta))
    return {'kind': kind, 'init': init, 'ops': ops}


def build(kind, init):
    """returns (list, owner rule or None)"""
    import cssutils
    from cssutils.stylesheets import MediaList
    if kind == 'plain':
        return MediaList(), None
    if kind == 'ctor':
        return MediaList(init['text']), None
    if kind == 'ctor-list':
        return MediaList(list(init['parts'])), None
    if kind == 'media-rule':
        r = cssutils.css.CSSMediaRule(mediaText=init['text'])
        r.insertRule('a { color: red }')
        return r.media, r
    if kind == 'import-rule':
        r = cssutils.css.CSSImportRule(href='x.css', mediaText=init['text'])
        return r.media, r
    if kind == 'parsed-media':
        cssutils.log.raiseExceptions = False
        try:
            sheet = cssutils.parseString('@media %s {a{color:red}}' % init['text'])
        finally:
            cssutils.log.raiseExceptions = True
        r = sheet.cssRules[0]
        return r.media, r
    cssutils.log.raiseExceptions = False
    try:
        sheet = cssutils.parseString('@import "x.css" %s;' % init['text'])
    finally:
        cssutils.log.raiseExceptions = True
    r = sheet.cssRules[0]
    return r.media, r


def apply_op(ml, op):
    """returns (result key, return value)"""
    import cssutils
    from cssutils.stylesheets import MediaQuery
    from harness import impl
    try:
        if op[0] == 'settext':
            ml.mediaText = op[2]
            ret = None
        elif op[0] == 'append':
            how = op[4]
            if how == 'object':
                ret = ml.appendMedium(MediaQuery(op[2]))
            elif how == 'append':
                ml.append(op[2])
                ret = True
            else:
                ret = ml.appendMedium(op[2])
        elif op[0] == 'delete':
            ret = ml.deleteMedium(op[1])
        else:
            ml[op[1]] = op[3]
            ret = None
        return 'ok', ret
    except Exception as e:  # noqa
        return impl.exc_class(e), str(e)[:100]


def record(res, o):
    """the comparable part of an observation"""
    return (RES.get(res, -1), 1 if o['wf'] is True else 0, o['items'], o['length'],
            o['item'], o['toks'] if isinstance(o['toks'], list) else o['toks'])


def jcase(h, upto=None):
    ops = []
    for op in h['ops'][:upto]:
        if op[0] == 'settext':
            ops.append(['settext', op[2]])
        elif op[0] == 'append':
            ops.append(['append', op[2], op[4]])
        elif op[0] == 'delete':
            ops.append(['delete', op[1]])
        else:
            ops.append(['setitem', op[1], op[3]])
    init = h['init'] and ({'parts': h['init']['parts']} if 'parts' in h['init'] else {'text': h['init']['text']})
    return {'kind': h['kind'], 'init': init, 'ops': ops}


def check_observation(ctx, case, k, o, tainted):
    """count / index / iteration agree; empty means all; reparse gives an equal list"""
    from cssutils.stylesheets import MediaList
    import cssutils.prodparser as pp
    bad = [key for key, v in o.items() if isinstance(v, str) and key != 'text' and v.startswith('EXC ')] + \
          (['text'] if isinstance(o['text'], str) and o['text'].startswith('EXC ') else [])
    if bad:
        ctx.violation('observe-raises', case, 'op %d: %s' % (k, {b: o[b] for b in bad}), KNOWN_PRED)
        return False
    nq = sum(1 for i in o['items'] if i[0] == 'Q')
    types = [i[5] for i in o['items'] if i[0] == 'Q']
    if not (o['length'] == nq == len(o['iter']) and o['item'][:-1] == types == o['iter'] and o['item'][-1] is None
            and o['iterq'] == [i for i in o['items'] if i[0] == 'Q']):
        ctx.violation('count-index-iter', case, 'op %d: length %r, item %r, iteration %r, queries %r' % (
            k, o['length'], o['item'], o['iter'], types), KNOWN_PRED)
    if any(i[0] == 'U' for i in o['items']):
        ctx.violation('foreign-item', case, 'op %d: %r' % (k, o['items']), KNOWN_PRED)
    if nq == 0 and o['text'] != 'all':
        ctx.violation('empty-means-all', case, 'op %d: list without media has mediaText %r' % (k, o['text']), KNOWN_PRED)
    if pp.savedTokens:
        ctx.violation('saved-tokens-leak', case, 'op %d: prodparser.savedTokens = %r' % (k, list(pp.savedTokens)), KNOWN_PRED)
        del pp.savedTokens[:]
    # reparse
    try:
        ml2 = MediaList(o['text'])
        o2 = observe(ml2)
    except Exception as e:  # noqa
        ctx.violation('reparse-raises', case, 'op %d: mediaText %r does not parse: %s: %s' % (k, o['text'], type(e).__name__, e), KNOWN_PRED)
        return True
    if any(isinstance(v, str) and key != 'text' and v.startswith('EXC ') for key, v in o2.items()):
        ctx.violation('reparse-observe-raises', case, 'op %d: %r -> %r' % (k, o['text'], o2), KNOWN_PRED)
        return True
    v1, v2 = view(o), view(o2)
    if nq == 0:
        ok = o2['text'] == 'all' and [norm(i[5]) for i in o2['items'] if i[0] == 'Q'] == ['all']
    elif tainted:
        ok = True     # a non-canonical list (item assignment) is canonicalised by the reparse
    else:
        ok = v1 == v2 and o2['item'] == o['item'] and o2['length'] == o['length']
    if not ok:
        ctx.violation('reparse-differs', case, 'op %d: %r reparses to %r; queries %r vs %r' % (k, o['text'], o2['text'], v1, v2), KNOWN_PRED)
    return True


def check_owner(ctx, case, k, rule, ml, o):
    import cssutils
    if rule.media is not ml:
        ctx.violation('owner-identity', case, 'op %d: rule.media is another object' % k, KNOWN_PRED)
        return
    if o['wf'] is not True:
        return   # a list flagged not wellformed makes its rule serialise to nothing, by design
    if rule.type == rule.IMPORT_RULE and o['items'] and not (o['items'][0][0] == 'Q' and o['items'][0][2]):
        return   # the @import parser only recognises a list that starts with a media type (not asserted here)
    try:
        text = rule.cssText
        cssutils.log.raiseExceptions = False
        try:
            sheet = cssutils.parseString(text)
        finally:
            cssutils.log.raiseExceptions = True
        r2 = sheet.cssRules[0] if sheet.cssRules.length == 1 else None
    except Exception as e:  # noqa
        ctx.violation('owner-raises', case, 'op %d: %s: %s' % (k, type(e).__name__, e), KNOWN_PRED)
        return
    if r2 is None or r2.type != rule.type:
        ctx.violation('owner-text', case, 'op %d: rule text %r does not parse back to one rule' % (k, text), KNOWN_PRED)
        return
    o2 = observe(r2.media)
    nq = sum(1 for i in o['items'] if i[0] == 'Q')
    if any(isinstance(v, str) and key != 'text' and v.startswith('EXC ') for key, v in o2.items()):
        return
    if nq == 0:
        ok = o2['text'] == 'all'
    elif rule.type == rule.IMPORT_RULE:
        ok = view(o)[0] == view(o2)[0]     # a comment before the first medium is parsed as part of the rule
    else:
        ok = view(o) == view(o2)
    if not ok:
        ctx.violation('owner-text', case, 'op %d: rule text %r carries media %r, the list says %r' % (k, text, o2['text'], o['text']), KNOWN_PRED)


def run_history(ctx, h, oracle=True):
    """returns (flat model input, wanted records, case) or None"""
    import cssutils.prodparser as pp
    from harness import impl
    impl.reset()
    case = jcase(h)
    flat, want = [], []
    try:
        ml, rule = build(h['kind'], h['init'])
    except Exception as e:  # noqa
        ctx.violation('build-raises', case, 'well-formed initial text %r: %s: %s' % (h['init'] and h['init']['text'], type(e).__name__, e), KNOWN_PRED)
        return None
    o = observe(ml)
    tainted = False
    if h['init'] is not None:
        if not same_tokens(tok_text(h['init']['text']), h['init']['toks']):
            ctx.broken.append(('harness', 'renderer/tokenizer mismatch on %r' % h['init']['text']))
        flat += enc_op(('settext', h['init']['toks']))
        want.append(record('ok', o))
        if oracle:
            if not check_observation(ctx, case, -1, o, tainted):
                return None
            exp = [q_view(h['init']['qs'][i]) for i in ref_settext(h['init']['qs'])]
            got = [strip_q(i) for i in o['items'] if i[0] == 'Q']
            if exp != got or o['wf'] is not True:
                ctx.violation('settext-canonical', case, 'initial %r: queries %r, expected %r (wellformed %r)' % (
                    h['init']['text'], got, exp, o['wf']), KNOWN_PRED)
            if rule is not None:
                check_owner(ctx, case, -1, rule, ml, o)
    for k, op in enumerate(h['ops']):
        before = o
        if op[0] != 'delete':
            text = op[2] if op[0] != 'setitem' else op[3]
            toks = op[1] if op[0] != 'setitem' else op[2]
            if not same_tokens(tok_text(text), toks):
                ctx.broken.append(('harness', 'renderer/tokenizer mismatch on %r: %r vs %r' % (text, tok_text(text), toks)))
        res, ret = apply_op(ml, op)
        o = observe(ml)
        flat += enc_op(op if op[0] != 'setitem' else ('setitem', op[1], op[2]))
        want.append(record(res, o))
        if not oracle:
            continue
        case_k = dict(jcase(h, k + 1))
        if res not in RES:
            ctx.violation('crash', case_k, 'op %d %r: %s: %s' % (k, case_k['ops'][-1], res, ret), KNOWN_PRED)
            return None
        bt, at = ref_types(before), ref_types(o)
        if not check_observation(ctx, case_k, k, o, tainted or not canonical(at)):
            return None
        meta = op[-1] if op[0] in ('settext', 'setitem') else (op[3] if op[0] == 'append' else None)
        if res != 'ok' and (o['items'] != before['items'] or o['text'] != before['text']):
            ctx.violation('rejected-but-changed', case_k, 'op %d raised %s yet the list changed: %r -> %r' % (k, res, before['text'], o['text']), KNOWN_PRED)
        if op[0] == 'settext':
            if meta['valid'] is True:
                exp = [q_view(meta['qs'][i]) for i in ref_settext(meta['qs'])]
                got = [strip_q(i) for i in o['items'] if i[0] == 'Q']
                if res != 'ok' or exp != got or o['wf'] is not True:
                    ctx.violation('settext-canonical', case_k, 'op %d: %r gave %s, queries %r, expected %r' % (k, op[2], res, got, exp), KNOWN_PRED)
                tainted = False
            elif meta['valid'] is False:
                if res != 'DOM:SyntaxErr':
                    ctx.violation('bad-query-accepted', case_k, 'op %d: %r holds a malformed query but gave %s, mediaText %r' % (k, op[2], res, o['text']), KNOWN_PRED)
            if res == 'ok':
                tainted = False
        elif op[0] == 'append':
            if meta['valid'] is False and res == 'ok':
                ctx.violation('bad-query-accepted', case_k, 'op %d: appendMedium(%r) accepted, mediaText %r' % (k, op[2], o['text']), KNOWN_PRED)
            if meta['valid'] is True and not tainted:
                q = meta['q']
                nt = norm(q_mtype(q))
                qv = q_view(q)
                bq = [strip_q(i) for i in before['items'] if i[0] == 'Q']
                aq = [strip_q(i) for i in o['items'] if i[0] == 'Q']
                if 'all' in bt:
                    if res != 'DOM:InvalidModificationErr':
                        ctx.violation('append-to-all', case_k, 'op %d: appending %r to %r gave %s' % (k, op[2], before['text'], res), KNOWN_PRED)
                elif res != 'ok' or ret is not True and op[4] != 'append':
                    ctx.violation('append-rejected', case_k, 'op %d: appending well-formed %r to %r gave %s %r' % (k, op[2], before['text'], res, ret), KNOWN_PRED)
                elif nt == 'all':
                    if aq != [qv]:
                        ctx.violation('append-all', case_k, 'op %d: appending all gave %r' % (k, o['text']), KNOWN_PRED)
                elif nt and nt in bt:
                    j = bt.index(nt)
                    if aq != bq[:j] + bq[j + 1:] + [qv]:
                        ctx.violation('append-moves', case_k, 'op %d: appending present %r to %r gave %r' % (k, op[2], before['text'], o['text']), KNOWN_PRED)
                elif aq != bq + [qv]:
                    ctx.violation('append-adds', case_k, 'op %d: appending %r to %r gave %r' % (k, op[2], before['text'], o['text']), KNOWN_PRED)
        elif op[0] == 'delete' and not tainted:
            n = norm(op[1])
            if n:
                bq = [i for i in before['items'] if i[0] == 'Q']
                aq = [i for i in o['items'] if i[0] == 'Q']
                if n in bt:
                    j = bt.index(n)
                    if res != 'ok' or aq != bq[:j] + bq[j + 1:] or n in at:
                        ctx.violation('delete-exact', case_k, 'op %d: deleteMedium(%r) on %r gave %s, %r' % (k, op[1], before['text'], res, o['text']), KNOWN_PRED)
                    if [i for i in before['items'] if i[0] == 'C'] != [i for i in o['items'] if i[0] == 'C']:
                        ctx.violation('delete-frame', case_k, 'op %d: deleteMedium(%r) on %r changed comments: %r' % (k, op[1], before['text'], o['text']), KNOWN_PRED)
                elif res != 'DOM:NotFoundErr':
                    ctx.violation('delete-absent', case_k, 'op %d: deleteMedium(%r) on %r gave %s' % (k, op[1], before['text'], res), KNOWN_PRED)
        elif op[0] == 'setitem':
            if meta['valid'] is False and res == 'ok':
                ctx.violation('bad-query-accepted', case_k, 'op %d: list[%d] = %r accepted' % (k, op[1], op[3]), KNOWN_PRED)
            if meta['valid'] is True and res == 'ok':
                idx = op[1] if op[1] >= 0 else len(before['items']) + op[1]
                exp = list(before['items'])
                if 0 <= idx < len(exp):
                    exp[idx] = q_view(meta['q'])
                    got = [strip_q(i) if i[0] == 'Q' else i for i in o['items']]
                    exp = [strip_q(i) if (i[0] == 'Q' and len(i) > 4) else i for i in exp]
                    if got != exp:
                        ctx.violation('setitem-frame', case_k, 'op %d: list[%d] = %r on %r gave %r' % (k, op[1], op[3], before['text'], o['text']), KNOWN_PRED)
        # canonical form is an invariant of every edit
        if not canonical(at):
            if not tainted:
                c2 = dict(case_k)
                c2['by'] = op[0]
                ctx.violation('not-canonical', c2, 'op %d (%s): simple types %r after the edit (list %r)' % (k, op[0], at, o['text']), KNOWN_PRED)
            tainted = True
        else:
            tainted = False
        if rule is not None and not tainted:
            check_owner(ctx, case_k, k, rule, ml, o)
    return flat, want, case


# --------------------------------------------------------------------------
# model output
# --------------------------------------------------------------------------

class Cur:
    def __init__(self, o):
        self.o, self.i = o, 0

    def n(self):
        v = self.o[self.i]
        self.i += 1
        return v

    def s(self):
        l = self.n()
        v = ''.join(chr(c) for c in self.o[self.i:self.i + l])
        if len(v) != l:
            raise IndexError
        self.i += l
        return v

    def os(self):
        return self.s() if self.n() else None

    def tok(self):
        k = self.n()
        if k == 0:
            return ('I', self.s())
        if k in (1, 2, 3, 4):
            return ('(', ')', ':', ',')[k - 1],
        if k == 5:
            kk = self.n()
            return ('V', kk, self.s())
        if k == 6:
            return ('C', self.n())
        return ('B', self.n(), '')

    def mq(self):
        neg, ty = self.os(), self.os()
        feats = []
        for _ in range(self.n()):
            f = self.s()
            if self.n():
                kk = self.n()
                feats.append((f, (kk, self.s())))
            else:
                feats.append((f, None))
        coms = tuple(self.n() for _ in range(self.n()))
        return ('Q', neg, ty, tuple(feats), coms, self.s())


def decode_records(o, n):
    c = Cur(o)
    recs = []
    try:
        for _ in range(n):
            res, wf = c.n(), c.n()
            items = []
            for _ in range(c.n()):
                items.append(c.mq() if c.n() else ('C', c.n()))
            length = c.n()
            item = [c.os() for _ in range(length + 1)]
            toks = [c.tok() for _ in range(c.n())]
            recs.append((res, wf, items, length, item, toks))
        return recs if c.i == len(o) else None
    except IndexError:
        return None


def rec_equal(w, g):
    """implementation record vs model record: everything equal; the mediaText tokens up to the place of
    comments inside one query's text and the case of the keyword 'and'"""
    if w[:5] != g[:5]:
        return False
    if not isinstance(w[5], list):
        return False
    wt, wc = strip_coms(lower_and(w[5]))
    gt, gc = strip_coms(g[5])
    return same_tokens(wt, gt) and wc == gc


# --------------------------------------------------------------------------
# stand-alone queries: round trip
# --------------------------------------------------------------------------

def query_roundtrip(ctx, types, n):
    """every feature, value and their order pass through parse and serialisation"""
    from cssutils.stylesheets import MediaQuery
    from harness import impl
    rng = ctx.rng
    cases, wants, metas = [], [], []
    for _ in range(n):
        impl.reset()
        counter = [0]
        q = gen_query(rng, types, simple_bias=0.15)
        toks = query_tokens(rng, q)
        mutated = rng.random() < 0.25
        if mutated:
            toks = mutate(rng, toks, counter)
            if not toks:
                continue
        else:
            toks = sprinkle_comments(rng, toks, counter, p=0.08, start=0)
        text = render(rng, toks)
        case = {'query': text}
        ctx.case(('q', text))
        if not same_tokens(tok_text(text), toks):
            ctx.broken.append(('harness', 'renderer/tokenizer mismatch on %r' % text))
            continue
        try:
            mq = MediaQuery(text)
            ok = mq.wellformed
            p = proj_query(mq) if ok else None
            out = mq.mediaText
        except Exception as e:  # noqa
            ok, p, out = False, None, impl.exc_class(e)
            if not out.startswith('DOM:SyntaxErr'):
                ctx.violation('query-crash', case, '%s: %s' % (out, e), KNOWN_PRED)
                continue
        import cssutils.prodparser as pp
        if pp.savedTokens:
            ctx.violation('saved-tokens-leak', case, 'MediaQuery(%r) left prodparser.savedTokens = %r' % (text, list(pp.savedTokens)), KNOWN_PRED)
            del pp.savedTokens[:]
        if not mutated:
            if not ok or strip_q(p) != q_view(q) or p[5] != q_mtype(q):
                ctx.violation('query-parse', case, 'well-formed query gave %r (expected %r)' % (p, q_view(q)), KNOWN_PRED)
                continue
        if ok:
            # the serialisation spells the same tokens (blanks aside) and parses to the same query
            st = tok_text(out)
            if not same_tokens(lower_and(st), lower_and(toks)):
                ctx.violation('query-serialise', case, 'mediaText %r spells %r, source tokens %r' % (out, st, toks), KNOWN_PRED)
            try:
                p2 = proj_query(MediaQuery(out))
            except Exception as e:  # noqa
                p2 = 'EXC %s' % e
            if p2 != p:
                ctx.violation('query-roundtrip', case, '%r -> %r -> %r' % (p, out, p2), KNOWN_PRED)
        cases.append([171] + enc_toks(toks))
        wants.append((ok, p, tok_text(out) if ok else None))
        metas.append(case)
    return cases, wants, metas


def decode_query(o):
    try:
        c = Cur(o)
        if not c.n():
            return (False, None, None) if c.i == len(o) else None
        p = c.mq()
        toks = [c.tok() for _ in range(c.n())]
        return (True, p, toks) if c.i == len(o) else None
    except IndexError:
        return None


# --------------------------------------------------------------------------

def _mqs(ml):
    from cssutils.stylesheets import MediaQuery
    return [getattr(it, 'value', it) for it in ml if isinstance(getattr(it, 'value', it), MediaQuery)]


def member_query_family(ctx, n):
    """a MediaQuery that is a member of a list (stand-alone list, @media, @import; parsed or appended) given a new
    mediaText: a single well-formed query is accepted and shows in the list; a query followed by anything else (a second
    query, a stray token) is rejected and list and query stay as they were.  Search only."""
    import cssutils
    import xml.dom
    from harness import impl
    rng = ctx.rng
    GOOD = ['print', 'screen and (color)', 'not tv', 'only screen and (min-width: 10px) and (max-width: 20em)', '(color)']
    TRAIL = [', projection', ') and (width: 1px)', ' tv', ' and', ', ', ' ;', ' {', ' (', ' "x"', ' and (color) print', ',print and']
    for _ in range(n):
        impl.reset()
        how = rng.choice(['list', 'media', 'import', 'appended'])
        if how == 'list':
            ml = cssutils.stylesheets.MediaList('tv, print and (color)')
        elif how == 'media':
            ml = cssutils.parseString('@media tv, print and (color) {a{left:0}}').cssRules[0].media
        elif how == 'import':
            ml = cssutils.parseString('@import "x.css" tv, print and (color);').cssRules[0].media
        else:
            ml = cssutils.stylesheets.MediaList()
            ml.appendMedium('tv')
            ml.appendMedium('print and (color)')
        members = _mqs(ml)
        mq = rng.choice(members)
        before = (ml.mediaText, [m.mediaText for m in members])
        good = rng.choice(GOOD)
        bad = good + rng.choice(TRAIL)
        case = {'family': 'member-query', 'list': how, 'assign': bad}
        ctx.case(('member', how, bad, members.index(mq)))
        try:
            mq.mediaText = bad
            accepted = True
        except xml.dom.DOMException:
            accepted = False
        except Exception as e:  # noqa
            ctx.violation('observe-raises', case, '%s: %s' % (type(e).__name__, e), KNOWN_PRED)
            continue
        after = (ml.mediaText, [m.mediaText for m in _mqs(ml)])
        if accepted or after != before:
            ctx.violation('member-query-trailing', case, 'mediaText = %r on a member query %s; list before %r, after %r' % (
                bad, 'accepted' if accepted else 'rejected', before, after), KNOWN_PRED)
            continue
        try:
            mq.mediaText = good
            want = cssutils.stylesheets.MediaQuery(good).mediaText
            if mq.mediaText != want or want not in ml.mediaText:
                ctx.violation('member-query-set', dict(case, assign=good), 'query reads %r, list %r' % (mq.mediaText, ml.mediaText), KNOWN_PRED)
            # count, indexing and iteration agree with what the members now are
            fresh = cssutils.stylesheets.MediaQuery(good)
            ms = _mqs(ml)
            items = [ml.item(i_) for i_ in range(ml.length)]
            if mq.mediaType != fresh.mediaType or ml.length != len(ms) or items != [m_.mediaType for m_ in ms]:
                ctx.violation('count-index-iter', dict(case, assign=good), 'member mediaType %r (a fresh query says %r); length %r, item %r, members %r' % (
                    mq.mediaType, fresh.mediaType, ml.length, items, [m_.mediaText for m_ in ms]), KNOWN_PRED)
        except xml.dom.DOMException as e:
            ctx.violation('member-query-set', dict(case, assign=good), 'a well-formed query was rejected: %s' % e, KNOWN_PRED)


def malformed_member_family(ctx):
    """one malformed query invalidates the whole list - wherever it stands (also behind 'all'), in the parser's
    non-raising mode and in raising mode; the same list without it is accepted.  Search only."""
    import cssutils
    import xml.dom
    from harness import impl
    BAD = ['tv and', 'print and (min-width: )', 'bogus', 'not', 'screen and (color', 'tv print', 'and (color)', 'only']
    SHAPES = ['%s', 'all, %s', 'ALL, %s', 'tv, all, %s', '%s, all', 'tv, %s, print', 'all /*c*/, %s', 'print and (color), %s']
    for bad in BAD:
        for shape in SHAPES:
            text = shape % bad
            good = ', '.join(x.strip() for x in (shape % '\0').split(',') if '\0' not in x) or 'all'
            for owner in ('list', 'media', 'import'):
                for raising in (False, True):
                    impl.reset(raise_exceptions=raising)
                    case = {'family': 'malformed-member', 'list': text, 'owner': owner, 'raising': raising}
                    ctx.case(('malformed-member', text, owner, raising))
                    try:
                        if owner == 'list':
                            ml = cssutils.stylesheets.MediaList()
                            try:
                                ml.mediaText = text
                                accepted = ml.wellformed
                            except xml.dom.DOMException:
                                accepted = False
                            ok_good = cssutils.stylesheets.MediaList(good).wellformed
                        else:
                            tmpl = '@media %s {a{left:0}} k{m:n}' if owner == 'media' else '@import "x.css" %s; k{m:n}'
                            sh = cssutils.parseString(tmpl % text)
                            # (a rule whose list is not well-formed may stay in cssRules; it is not written and its list says so)
                            accepted = any(r.type in (r.MEDIA_RULE, r.IMPORT_RULE) and r.media.wellformed and r.cssText for r in sh.cssRules)
                            sg = cssutils.parseString(tmpl % good)
                            ok_good = any(r.type in (r.MEDIA_RULE, r.IMPORT_RULE) and r.media.wellformed and r.cssText for r in sg.cssRules)
                    except Exception as e:  # noqa
                        ctx.violation('observe-raises', case, '%s: %s' % (type(e).__name__, e), KNOWN_PRED)
                        continue
                    finally:
                        cssutils.log.raiseExceptions = True
                    if accepted or not ok_good:
                        ctx.violation('query-parse', case, 'list %r %s; the list without the malformed query (%r) %s' % (
                            text, 'accepted' if accepted else 'rejected', good, 'accepted' if ok_good else 'REJECTED'), KNOWN_PRED)
    impl.reset()


def run(ctx):
    quick = ctx.tier == 'quick'
    types = media_types()
    member_query_family(ctx, 120 if quick else 3000)
    malformed_member_family(ctx)
    nh, nops, nq = (1400, 9, 1500) if quick else (40000, 16, 30000)
    ctx.cov['rule'] = ('operation histories (mediaText= / appendMedium, append, MediaQuery object / deleteMedium / list[i]=) over the live '
                       'MEDIA_TYPES in any case, queries with only/not, 1-3 and-joined features, dimension/number/ident/colour/string '
                       'values, list- and query-level comments, token-level mutations and a catalogue of malformed queries; lists '
                       'stand-alone (3 constructions) and owned by @media/@import rules (built or parsed); distinct = distinct '
                       '(construction, initial text, operation texts); all are non-trivial')
    model_cases, wants, cases = [], [], []
    for _ in range(nh):
        h = gen_history(ctx.rng, types, ctx.rng.randrange(1, nops))
        ctx.case(json.dumps(jcase(h), sort_keys=True))
        r = run_history(ctx, h)
        if r is None:
            continue
        flat, want, case = r
        model_cases.append([170] + flat)
        wants.append(want)
        cases.append(case)
        ctx.count('ops', len(h['ops']))
        ctx.count('kind:' + h['kind'])
    if cases:
        ctx.sample(cases[0])
    qcases, qwants, qmetas = query_roundtrip(ctx, types, nq)
    if ctx.model.available:
        outs = ctx.model.run(model_cases + qcases)
        agree = 0
        for want, o, case in zip(wants, outs[:len(model_cases)], cases):
            got = decode_records(o or [], len(want))
            if got is not None and len(got) == len(want) and all(rec_equal(w, g) for w, g in zip(want, got)):
                agree += 1
            else:
                k = next((i for i, (w, g) in enumerate(zip(want, got or [])) if not rec_equal(w, g)), None)
                ctx.disagree('medialist', case, {'record': k, 'impl': repr(want[k]) if k is not None else repr(want)[:300]},
                             {'model': repr(got[k]) if (got and k is not None) else repr(o)[:300]})
        qagree = 0
        for (ok, p, toks), o, case in zip(qwants, outs[len(model_cases):], qmetas):
            got = decode_query(o or [])
            good = got is not None and got[0] == bool(ok) and (not ok or (
                got[1] == p and same_tokens(strip_coms(lower_and(toks))[0], strip_coms(got[2])[0])
                and strip_coms(toks)[1] == strip_coms(got[2])[1]))
            if good:
                qagree += 1
            else:
                ctx.disagree('mediaquery', case, repr((ok, p, toks)), repr(got))
        ctx.extra['correspondence'] = {'histories': len(cases), 'agree': agree, 'queries': len(qcases), 'queries_agree': qagree}
    else:
        ctx.broken.append(('correspondence', 'extracted model not available'))


def replay(path):
    """re-run the recorded history on the implementation and print what is observed"""
    from harness import impl
    d = json.load(open(path))
    print(json.dumps({k: d[k] for k in ('property', 'kind', 'detail') if k in d}, indent=1))
    case = d.get('case') or {}
    if 'query' in case:
        from cssutils.stylesheets import MediaQuery
        impl.reset()
        try:
            mq = MediaQuery(case['query'])
            print('MediaQuery(%r): wellformed %r mediaText %r mediaType %r' % (case['query'], mq.wellformed, mq.mediaText, mq.mediaType))
        except Exception as e:  # noqa
            print('MediaQuery(%r) raised %s: %s' % (case['query'], type(e).__name__, e))
        return 1
    if 'kind' not in case:
        print(json.dumps(d, indent=1)[:3000])
        return 1
    impl.reset()
    init = case.get('init')
    try:
        ml, rule = build(case['kind'], init)
    except Exception as e:  # noqa
        print('building %r from %r raised %s: %s' % (case['kind'], init, type(e).__name__, e))
        return 1
    print('built', case['kind'], init, '->', {k: v for k, v in observe(ml).items() if k in ('text', 'length', 'item', 'iter', 'wf')})
    for op in case['ops']:
        if op[0] == 'settext':
            full = ('settext', None, op[1], None)
        elif op[0] == 'append':
            full = ('append', None, op[1], None, op[2])
        elif op[0] == 'delete':
            full = ('delete', op[1])
        else:
            full = ('setitem', op[1], None, op[2], None)
        res, ret = apply_op(ml, full)
        print(op, '->', res, ret)
        print('    ', {k: v for k, v in observe(ml).items() if k in ('text', 'length', 'item', 'iter', 'wf')})
    return 1
