"""C02 — the parsed DOM is exactly what a well-formed source denotes.
Coq: structure layer (Model/Slice.v, Model/Blocks.v, Props/C02.v) - partial.
Correspondence: the implementation's real slicing trace vs the model.
Search: abstract sheets x spellings; semantic projection of the DOM must equal
the abstract sheet, for every spelling, parser option setting."""
import json

from harness import core, gen_css as G, slicing

GEN = ['GenLex']

MANIFEST = dict(
    text='Machine-checked (Coq, closed under the global context), PARTIAL: the structure layer at token level - each statement, comment '
         'and declaration written in the source is cut out as exactly its own tokens, in source order and nothing else, for every amount of '
         'white space between constructs and whatever follows (closed-piece theorems over Model/Slice.v + Model/Blocks.v, composed over '
         'arbitrary lists of pieces). The meaning of each piece is covered by the per-construct models (C10, C16, C17, C18). The end-to-end '
         'statement (DOM = abstract sheet, for every spelling) is decided by the generator-based search only: abstract sheets (all rule kinds '
         'incl. nested @media, @page margin boxes, CSS3 selectors, values with functions/colours/urls/unicode-ranges) x canonical + random '
         'spellings (white space, comments, letter case, quote style, escapes) x parser options, compared through a semantic projection.',
    note='Trusted: Coq kernel + vm_compute; extraction + driver; hand models of _tokensupto2 and the two dispatch loops tied by the '
         'recorded slicing trace of the real parser; the generator/projection pair (harness/gen_css.py, harness/sem_dom.py) is the '
         'transcription of the CSS grammar cssutils documents.',
    design='7/C02')

KNOWN_PRED = {
    'C02-simple-escape-kept': lambda kind, case, detail: kind == 'denotation' and case.get('value_ident_escape'),
}


def parse(text, comments=True, validate=True):
    import cssutils
    from harness import impl
    impl.reset()
    return cssutils.CSSParser(fetcher=lambda u: None, parseComments=comments, validate=validate).parseString(text)


def first_diff(exp, got):
    for i, (a, b) in enumerate(zip(exp, got)):
        if a != b:
            return 'rule %d: expected %r got %r' % (i, a, b)
    return 'rule count: expected %r got %r' % ([r[0] for r in exp], [r[0] for r in got])


def run(ctx):
    from harness import sem_dom as S
    quick = ctx.tier == 'quick'
    n = 500 if quick else 12000
    ctx.cov['rule'] = ('abstract sheets from harness/gen_css.py rendered canonically and in random spellings; distinct = distinct '
                       '(sheet, spelling text); non-trivial = at least 2 rules')
    texts = []
    for i in range(n):
        sheet = G.gen_sheet(ctx.rng)
        exp = G.sem_sheet(sheet)
        exp_nc = G.sem_sheet(sheet, comments=False)
        for k in range(3 if quick else 4):
            flag = k == 2 and ctx.rng.random() < 0.3
            sp = G.Spelling(ctx.rng, canonical=(k == 0), value_ident_escapes=flag)
            text = G.render(sp, sheet)
            case = {'text': text, 'value_ident_escape': bool(sp.used_value_ident_escape)}
            ctx.case(text, nontrivial=len(sheet) >= 2)
            try:
                got = S.sem_sheet(parse(text))
            except Exception as e:
                ctx.violation('raises', case, '%s: %s' % (type(e).__name__, e), KNOWN_PRED)
                continue
            if got != exp:
                ctx.violation('denotation', case, first_diff(exp, got)[:1500], KNOWN_PRED)
                continue
            if k == 1:
                texts.append(text)
                # disabling comment parsing removes exactly the comments; disabling validation changes nothing
                try:
                    got_nc = S.sem_sheet(parse(text, comments=False))
                    got_nv = S.sem_sheet(parse(text, validate=False))
                except Exception as e:
                    ctx.violation('raises-options', case, '%s: %s' % (type(e).__name__, e), KNOWN_PRED)
                    continue
                if got_nc != exp_nc:
                    ctx.violation('comments-off', case, first_diff(exp_nc, got_nc)[:1500], KNOWN_PRED)
                if got_nv != exp:
                    ctx.violation('validate-off', case, first_diff(exp, got_nv)[:1500], KNOWN_PRED)
        if i == 1:
            ctx.sample({'sheet': repr(sheet)[:600], 'spelled': text[:600]})
    # real-world sheets shipped with the repository: spelling-independent facts only
    import glob
    import os
    nreal = 0
    for f in sorted(glob.glob(os.path.join(core.REPO, 'sheets', '*.css')))[:(6 if quick else 100)]:
        try:
            data = open(f, 'rb').read()
            if len(data) > (30000 if quick else 400000):
                continue
            a = S.sem_sheet(parse(data))
            b = S.sem_sheet(parse(data, validate=False))
            nreal += 1
            ctx.case(('real', f))
            if a != b:
                ctx.violation('validate-off', {'file': f, 'text': ''}, first_diff(a, b)[:800], KNOWN_PRED)
        except UnicodeDecodeError:
            continue
    ctx.extra['real_sheets'] = nreal
    agree = slicing.correspondence(ctx, texts[:150 if quick else 3000])
    ctx.extra['correspondence'] = {'slicing_checks_agree_total': agree}


def replay(path):
    from harness import sem_dom as S
    d = json.load(open(path))
    text = d['case']['text']
    print(text)
    print(S.sem_sheet(parse(text)))
    print(d['detail'])
    return 0
