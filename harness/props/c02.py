"""C02 — the parsed DOM is exactly what a well-formed source denotes.
Coq: structure layer (Model/Slice.v, Model/Blocks.v, Props/C02.v) - partial.
Correspondence: the implementation's real slicing trace vs the model.
Search: abstract sheets x spellings; semantic projection of the DOM must equal
the abstract sheet, for every spelling, parser option setting."""
import json

from harness import core, gen_css as G, slicing

GEN = ['GenLex']

MANIFEST = dict(
    text='Machine-checked (Coq, closed under the global context), PARTIAL: the structure layer at token level - each statement, comment '
         'and declaration written in the source is cut out as exactly its own tokens, in source order and nothing else, for every amount of '
         'white space between constructs and whatever follows (closed-piece theorems over Model/Slice.v + Model/Blocks.v, composed over '
         'arbitrary lists of pieces). The meaning of each piece is covered by the per-construct models (C10, C16, C17, C18). The end-to-end '
         'statement (DOM = abstract sheet, for every spelling) is decided by the generator-based search only: abstract sheets (all rule kinds '
         'incl. nested @media, @page margin boxes, CSS3 selectors, values with functions/colours/urls/unicode-ranges) x canonical + random '
         'spellings (white space, comments, letter case, quote style, escapes) x parser options, compared through a semantic projection.',
    note='Trusted: Coq kernel + vm_compute; extraction + driver; hand models of _tokensupto2 and the two dispatch loops tied by the '
         'recorded slicing trace of the real parser; the generator/projection pair (harness/gen_css.py, harness/sem_dom.py) is the '
         'transcription of the CSS grammar cssutils documents.',
    design='7/C02')

KNOWN_PRED = {
    'C02-simple-escape-kept': lambda kind, case, detail: kind == 'denotation' and case.get('value_ident_escape'),
    'C02-margin-box-comments-dropped': lambda kind, case, detail: kind == 'denotation' and case.get('family') == 'margin-box-comments',
}


def parse(text, comments=True, validate=True):
    import cssutils
    from harness import impl
    impl.reset()
    return cssutils.CSSParser(fetcher=lambda u: None, parseComments=comments, validate=validate).parseString(text)


def first_diff(exp, got):
    for i, (a, b) in enumerate(zip(exp, got)):
        if a != b:
            return 'rule %d: expected %r got %r' % (i, a, b)
    return 'rule count: expected %r got %r' % ([r[0] for r in exp], [r[0] for r in got])


def run(ctx):
    from harness import sem_dom as S
    quick = ctx.tier == 'quick'
    n = 500 if quick else 12000
    ctx.cov['rule'] = ('abstract sheets from harness/gen_css.py rendered canonically and in random spellings; distinct = distinct '
                       '(sheet, spelling text); non-trivial = at least 2 rules')
    texts = []
    for i in range(n):
        sheet = G.gen_sheet(ctx.rng)
        exp = G.sem_sheet(sheet)
        exp_nc = G.sem_sheet(sheet, comments=False)
        for k in range(3 if quick else 4):
            flag = k == 2 and ctx.rng.random() < 0.3
            sp = G.Spelling(ctx.rng, canonical=(k == 0), value_ident_escapes=flag)
            text = G.render(sp, sheet)
            case = {'text': text, 'value_ident_escape': bool(sp.used_value_ident_escape)}
            ctx.case(text, nontrivial=len(sheet) >= 2)
            try:
                got = S.sem_sheet(parse(text))
            except Exception as e:
                ctx.violation('raises', case, '%s: %s' % (type(e).__name__, e), KNOWN_PRED)
                continue
            if got != exp:
                ctx.violation('denotation', case, first_diff(exp, got)[:1500], KNOWN_PRED)
                continue
            if k == 1:
                texts.append(text)
                # disabling comment parsing removes exactly the comments; disabling validation changes nothing
                try:
                    got_nc = S.sem_sheet(parse(text, comments=False))
                    got_nv = S.sem_sheet(parse(text, validate=False))
                except Exception as e:
                    ctx.violation('raises-options', case, '%s: %s' % (type(e).__name__, e), KNOWN_PRED)
                    continue
                if got_nc != exp_nc:
                    ctx.violation('comments-off', case, first_diff(exp_nc, got_nc)[:1500], KNOWN_PRED)
                if got_nv != exp:
                    ctx.violation('validate-off', case, first_diff(exp, got_nv)[:1500], KNOWN_PRED)
        if i == 1:
            ctx.sample({'sheet': repr(sheet)[:600], 'spelled': text[:600]})
    directed_families(ctx)
    # real-world sheets shipped with the repository: spelling-independent facts only
    import glob
    import os
    nreal = 0
    for f in sorted(glob.glob(os.path.join(core.REPO, 'sheets', '*.css')))[:(6 if quick else 100)]:
        try:
            data = open(f, 'rb').read()
            if len(data) > (30000 if quick else 400000):
                continue
            a = S.sem_sheet(parse(data))
            b = S.sem_sheet(parse(data, validate=False))
            nreal += 1
            ctx.case(('real', f))
            if a != b:
                ctx.violation('validate-off', {'file': f, 'text': ''}, first_diff(a, b)[:800], KNOWN_PRED)
        except UnicodeDecodeError:
            continue
    ctx.extra['real_sheets'] = nreal
    agree = slicing.correspondence(ctx, texts[:150 if quick else 3000])
    ctx.extra['correspondence'] = {'slicing_checks_agree_total': agree}


def directed_families(ctx):
    """(1) comments anywhere inside calc(): the value denotes what it denotes without them; (2) namespaced type
    selectors as the argument of :not(): the negation holds the (namespace URI, name) pair the prefix / default
    namespace gives"""
    import cssutils
    from harness import sem_dom as S
    rng = ctx.rng
    quick = ctx.tier == 'quick'
    # (1)
    gaps = ['', ' ', '/*a*/', ' /*a*/', '/*a*/ ', ' /*a*/ ', ' /*a*/ /*b*/ ', ' /*a*//*b*/ ', '/*a*/ /*b*/', '\n/*a*/\t/*b*/\n/*c*/ ']
    for expr, toks in (('1px + 2px', ['1px', '+', '2px']), ('3em * 2', ['3em', '*', '2']), ('100% - 2 * 1px', ['100%', '-', '2', '*', '1px'])):
        for _ in range(12 if quick else 200):
            g = [rng.choice(gaps) for _ in range(len(toks) + 1)]
            # white space is required around + and - (and kept around * for uniformity)
            g = [g[0]] + [x if x.strip(' \n\t') != x or x in (' ',) else ' ' + x + ' ' for x in g[1:-1]] + [g[-1]]
            inner = g[0] + ''.join(t + g[i + 1] for i, t in enumerate(toks))
            fname = rng.choice(['calc', 'calc', 'CALC', 'Calc', 'ca\\lc', 'c\\41LC', '\\63 alc'])
            text = 'a{width:%s(%s);top:0}' % (fname, inner)
            plain = 'a{width:calc(%s);top:0}' % expr
            case = {'text': text, 'family': 'calc-comments'}
            ctx.case(text)
            try:
                got = S.sem_sheet(parse(text))
                want = S.sem_sheet(parse(plain))
                strip = lambda sem: repr(sem).replace("('comment', 'a')", '').replace("('comment', 'b')", '').replace("('comment', 'c')", '')  # noqa: E731
                sh = parse(text)
                v1 = sh.cssRules[0].style.getPropertyValue('width') if sh.cssRules.length else None
            except Exception as e:
                ctx.violation('raises', case, '%s: %s' % (type(e).__name__, e), KNOWN_PRED)
                continue
            nocom = S.strip_comments(v1 or '').replace(' ', '').replace('\\', '') if v1 else None
            if nocom and nocom.lower().startswith('calc('):
                nocom = 'calc(' + nocom[5:]
            if v1 is None or nocom != ('calc(%s)' % expr).replace(' ', '') or len(got) != len(want) or len(got[0][2]) != len(want[0][2]):
                ctx.violation('denotation', case, 'width reads %r (without comments %r), expected calc(%s); sheet %r' % (v1, nocom, expr, got), KNOWN_PRED)
    # * and / need no white space, on either side or both
    for expr, want_ in (('1px* 2', '1px*2'), ('1px *2', '1px*2'), ('1px*2', '1px*2'), ('6em/ 3', '6em/3'), ('6em /3', '6em/3'), ('1px* 2 + 3px/ 4', '1px*2+3px/4')):
        text = 'a{width:calc(%s);top:0}' % expr
        ctx.case(text)
        try:
            sh = parse(text)
            v1 = sh.cssRules[0].style.getPropertyValue('width') if sh.cssRules.length else ''
        except Exception as e:
            ctx.violation('raises', {'text': text, 'family': 'calc-operators'}, '%s: %s' % (type(e).__name__, e), KNOWN_PRED)
            continue
        if v1.replace(' ', '') != 'calc(%s)' % want_:
            ctx.violation('denotation', {'text': text, 'family': 'calc-operators'}, 'width reads %r' % v1, KNOWN_PRED)
    # the url( keyword may be written with escapes wherever a URI token is read
    for text, attr, want_ in (('@import ur\\l(x.css);', 'href', 'x.css'), ('@import \\75rl( "y.css" ) tv;', 'href', 'y.css'),
                              ('@namespace p U\\52L(http://n); p|a{l:0}', 'namespaceURI', 'http://n'), ('@x u\\rl(z) w;', 'cssText', '@x url(z) w;')):
        ctx.case(text)
        try:
            sh = parse(text)
            got_ = getattr(sh.cssRules[0], attr) if sh.cssRules.length else None
        except Exception as e:
            ctx.violation('raises', {'text': text, 'family': 'escaped-url-keyword'}, '%s: %s' % (type(e).__name__, e), KNOWN_PRED)
            continue
        if got_ != want_:
            ctx.violation('denotation', {'text': text, 'family': 'escaped-url-keyword'}, '%s is %r, expected %r' % (attr, got_, want_), KNOWN_PRED)
    # comments inside the declaration block of a margin box
    for text in ('@page{@top-left{/*c*/ left:0 /*d*/}}', '@page { margin: 0; @bottom-center { content: "x" /*e*/; /*f*/ } }'):
        case = {'text': text, 'family': 'margin-box-comments'}
        ctx.case(text)
        try:
            out = parse(text).cssText.decode()
        except Exception as e:
            ctx.violation('raises', case, '%s: %s' % (type(e).__name__, e), KNOWN_PRED)
            continue
        want = S.strip_comments('x') and [c for c in ('/*c*/', '/*d*/', '/*e*/', '/*f*/') if c in text]
        if any(c not in out for c in want):
            ctx.violation('denotation', case, 'comments %r of the margin box are not in the DOM (serialised: %r)' % (want, out), KNOWN_PRED)
    # (2)
    ANY = '*ANY*'
    NEG = [('@namespace p "u"; b:not(p|a){l:0}', [(None, 'b'), ('u', 'a')]),
           ('@namespace "d"; @namespace p "u"; b:not(a){l:0}', [('d', 'b'), ('d', 'a')]),
           ('@namespace "d"; @namespace p "u"; b:not(p|a){l:0}', [('d', 'b'), ('u', 'a')]),
           ('@namespace p "u"; b:not(*|a){l:0}', [(None, 'b'), (ANY, 'a')]),
           ('@namespace "d"; b:not(|a){l:0}', [('d', 'b'), ('', 'a')]),
           ('@namespace p "u"; @media tv{p|b:not(p|a) > c:not(p|*){l:0}}', [('u', 'b'), ('u', 'a'), (None, 'c'), ('u', '*')]),
           ('@namespace p "u"; @namespace q "v"; q|x:not(p|a), y:not(q|z){l:0}', [('v', 'x'), ('u', 'a'), (None, 'y'), ('v', 'z')])]
    # prefixes are names: kept as written (case matters), and an escaped spelling is the same prefix
    NEG += [('@namespace Svg "u"; Svg|rect, b{l:0}', [('u', 'rect'), (None, 'b')]),
            ('@namespace SVG "u"; @namespace svg "v"; SVG|a, svg|b{l:0}', [('u', 'a'), ('v', 'b')]),
            ('@namespace xLink "u"; c:not(xLink|a){l:0}', [(None, 'c'), ('u', 'a')]),
            ('@namespace "d"; @namespace Q "v"; Q|x > y{l:0}', [('v', 'x'), ('d', 'y')]),
            ('@namespace s\\76 g "u"; svg|a, sv\\67 |b{l:0}', [('u', 'a'), ('u', 'b')]),
            ('@namespace Pq "u"; @media tv{Pq|a{l:0}} Pq|*{l:0}', [('u', 'a'), ('u', '*')])]
    for text, want in NEG:
        for variant in (text, text.upper().replace('"U"', '"u"').replace('"V"', '"v"').replace('"D"', '"d"') if False else text.replace('{', ' {\n').replace(':not(', ':NOT(')):
            case = {'text': variant, 'family': 'namespaced-negation'}
            ctx.case(variant)
            try:
                sh = parse(variant)
                got = []

                def walk(rules):
                    for r in rules:
                        if r.type == r.STYLE_RULE:
                            for sel in r.selectorList:
                                for it in sel.seq:
                                    if isinstance(it.value, tuple) and it.type != 'attribute-selector':
                                        ns = it.value[0]
                                        got.append((ANY if ns is not None and not isinstance(ns, str) else ns, it.value[1]))
                        elif r.type == r.MEDIA_RULE:
                            walk(r.cssRules)
                walk(sh.cssRules)
            except Exception as e:
                ctx.violation('raises', case, '%s: %s' % (type(e).__name__, e), KNOWN_PRED)
                continue
            if got != want:
                ctx.violation('denotation', case, 'type selectors denote %r, expected %r' % (got, want), KNOWN_PRED)


def replay(path):
    from harness import sem_dom as S
    d = json.load(open(path))
    text = d['case']['text']
    print(text)
    print(S.sem_sheet(parse(text)))
    print(d['detail'])
    return 0
