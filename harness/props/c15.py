"""C15 — namespace declarations and namespaced selectors stay consistent.
Coq: Model/Namespaces.v, Proofs/NamespacesFacts.v, Props/C15.v.
Correspondence: operation histories (namespaces[p]=u, del namespaces[p],
insert/delete @namespace rules, rule.prefix=, add style rules / set
selectorText with namespaced selectors, attach detached rules) run in
lock-step on CSSStyleSheet and on the extracted model; full observation
(mapping, rule list, stored (uri, name) pairs, selectorText, result class)
after every operation.
Search: oracles stated on the implementation only (mapping = effective rules,
used URIs declared, delete guard, meaning frame, undeclared prefix rejected,
reparse of sheet.cssText resolves to the same pairs, @namespace rules
well-formed)."""
import json
import re

from harness import core
from harness.core import s2n, n2s

GEN = []

MANIFEST = dict(
    text='Machine-checked (Coq 8.16, every Print Assumptions closed under the global context) for every sheet state / every '
         'operation list of the model: the namespaces mapping is determined by the rule list (the last declaration of a URI '
         'is effective, every mapping entry is an effective rule, one prefix per URI; effective rule => mapping entry when no '
         'two effective rules share a prefix - refuted without that guard); a URI used by a selector keeps a declaring rule '
         'under every operation list whose attached rules only use declared URIs, and is in the mapping when prefixes are '
         'distinct (refuted otherwise); deleting the single declaration of a used URI is rejected and changes nothing; no '
         'namespace operation changes a stored (uri, name) pair; serialise-then-resolve returns the stored pairs under the '
         'guard sel_ok (three refuting witnesses without it), also for detached rules with their own dictionary; '
         'namespaces[q]=u with a fresh prefix in a clean state re-binds u to q through the real insert + clean-up loop, '
         'changes nothing else and every (u, n) then serialises as q|n; an undeclared prefix rejects the whole selector list; '
         'unprefixed type/universal items take the default namespace of parse time, attributes never. The model is tied to '
         'CSSStyleSheet by lock-step histories with full observation after every operation and to detached Selector objects '
         'by entry 151; independent oracles state the property on the implementation.',
    note='Trusted: Coq kernel + vm_compute (refutation witnesses, example); extraction + OCaml driver; the hand model of '
         '_Namespaces / _cleanNamespaces / deleteRule guard / insertRule(@namespace) / New.append / do_css_Selector is validated '
         'by correspondence only (nothing translated); selectors are abstracted to their type/universal/attribute items and '
         'rendered to text by the harness; sheet parsing is not modelled (reparse oracle uses the real parser); the model '
         'follows the tree with fixes/C15-delitem-index.patch and fixes/C15-prefix-setter-seq.patch applied. No axioms.',
    design='7/C15')

PREFIXES = ['a', 'b', 'c', '']
URIS = ['u1', 'u2', 'u3', 'y']
TNAMES = ['x', 'q', 'y']
ANAMES = ['y', 'z', 't']
ANY = '*ANY*'
KINDS = {'type-selector': 0, 'universal': 1, 'attribute-selector': 2}

EXC = {'NoModificationAllowedErr': 1, 'NamespaceErr': 2, 'IndexSizeErr': 3, 'HierarchyRequestErr': 4, 'SyntaxErr': 5}

# classes of recorded findings (see known_findings.d/C15.json)
F_DUP = 'C15-duplicate-prefix'
F_ATTACH = 'C15-attach-undeclared'
F_DEFAULT = 'C15-default-after-parse'
F_ATTR = 'C15-attr-default-uri'

KNOWN_PRED = {
    F_DUP: lambda kind, case, detail: case.get('cls') == F_DUP,
    F_ATTACH: lambda kind, case, detail: case.get('cls') == F_ATTACH,
    F_DEFAULT: lambda kind, case, detail: case.get('cls') == F_DEFAULT,
    F_ATTR: lambda kind, case, detail: case.get('cls') == F_ATTR,
}


# ---------------------------------------------------------------- text side

def render_item(it):
    kind, ps, name = it
    pfx = {'no': '', 'star': '*|', 'empty': '|'}.get(ps[0]) if ps[0] != 'pfx' else ps[1] + '|'
    return ('[%s%s]' if kind == 2 else '%s%s') % (pfx, name)


def render_sel(items):
    out = ''
    for i, it in enumerate(items):
        if it[0] != 2 and i:
            out += ' '
        out += render_item(it)
    return out


def render_list(ts):
    return ', '.join(render_sel(t) for t in ts)


def gen_seltext(rng, declared=()):
    items = []
    declared = [p for p in declared if p]

    def pspec(kind):
        r = rng.random()
        if r < 0.40:
            if declared and rng.random() < 0.8:
                return ('pfx', rng.choice(declared))
            return ('pfx', rng.choice(PREFIXES[:3]))
        if r < 0.65:
            return ('no',)
        if r < 0.80:
            return ('star',)
        if r < 0.95 or kind == 2:
            return ('empty',)
        return ('pfx', 'd')          # never declared

    def attrs(n):
        for _ in range(n):
            items.append((2, pspec(2), rng.choice(ANAMES)))
    if rng.random() < 0.2:
        attrs(rng.randrange(1, 3))
    else:
        for _ in range(rng.choice([1, 1, 2])):
            if rng.random() < 0.25:
                items.append((1, pspec(1), '*'))
            else:
                items.append((0, pspec(0), rng.choice(TNAMES)))
            attrs(rng.choice([0, 0, 1, 2]))
    return items


def ref_resolve(view, ts):
    """independent statement of prefix resolution (CSS namespaces module):
    raises KeyError for an undeclared prefix"""
    out = []
    for t in ts:
        sel = []
        for kind, ps, name in t:
            if kind == 2 and ps[0] in ('no', 'empty'):
                sel.append(('plain', name))
            elif ps[0] == 'star':
                sel.append((kind, ANY, name))
            elif ps[0] == 'no':
                sel.append((kind, view.get(''), name))
            elif ps[0] == 'empty':
                sel.append((kind, '', name))
            else:
                sel.append((kind, view[ps[1]], name))
        out.append(sel)
    return out


# ---------------------------------------------------------------- implementation side

def style_rules(sheet):
    out = []
    for r in sheet.cssRules:
        if r.type == r.STYLE_RULE:
            out.append((0, r))
        elif r.type == r.MEDIA_RULE:
            for r2 in r.cssRules:
                if r2.type == r2.STYLE_RULE:
                    out.append((1, r2))
    return out


def sel_items(sel):
    import cssutils
    items = []
    for it in sel.seq:
        if it.type in KINDS:
            v = it.value
            if isinstance(v, tuple):
                ns = ANY if v[0] == cssutils._ANYNS and not isinstance(v[0], str) else v[0]
                items.append((KINDS[it.type], ns, v[1]))
            else:
                items.append(('plain', v))
    return items


def observe(sheet):
    view = dict(sheet.namespaces.items())
    rules = []
    for r in sheet.cssRules:
        if r.type == r.CHARSET_RULE:
            rules.append(('charset',))
        elif r.type == r.NAMESPACE_RULE:
            rules.append(('ns', r.prefix, r.namespaceURI))
        elif r.type == r.STYLE_RULE:
            rules.append(('style', 0, [(sel_items(s), s.selectorText) for s in r.selectorList]))
        elif r.type == r.MEDIA_RULE:
            inner = [x for x in r.cssRules if x.type == x.STYLE_RULE]
            sels = [(sel_items(s), s.selectorText) for x in inner for s in x.selectorList]
            rules.append(('style', 1, sels))
        else:
            rules.append(('other', r.type))
    return view, rules


def all_pairs(rules):
    return [[items for items, _ in r[2]] for r in rules if r[0] == 'style']


def no_text(rules):
    return [(r[0], r[1], [items for items, _ in r[2]]) if r[0] == 'style' else r for r in rules]


def ns_rules(rules):
    return [(r[1], r[2]) for r in rules if r[0] == 'ns']


def dup_uris(rules):
    """URIs of @namespace rules whose prefix is also bound to a different URI"""
    by = {}
    for p, u in ns_rules(rules):
        by.setdefault(p, set()).add(u)
    return {u for us in by.values() if len(us) > 1 for u in us}


def dup_prefix(rules):
    """two @namespace rules share a prefix but not the URI"""
    return bool(dup_uris(rules))


def apply_op(sheet, op):
    """-> result code (0 ok / exception class) on the real objects"""
    import cssutils
    import xml.dom
    code = op[0]
    try:
        if code == 0:
            sheet.namespaces[op[1]] = op[2]
        elif code == 1:
            del sheet.namespaces[op[1]]
        elif code == 2:
            r = cssutils.css.CSSNamespaceRule(prefix=op[1], namespaceURI=op[2])
            if op[3] is None:
                sheet.add(r)
            else:
                sheet.insertRule(r, op[3])
        elif code == 3:
            sheet.deleteRule(op[1])
        elif code == 4:
            text = render_list(op[2]) + ' {top:0}'
            if op[1]:
                text = '@media all {' + text + '}'
            sheet.add(text)
        elif code == 5:
            style_rules(sheet)[op[1]][1].selectorText = render_list(op[2])
        elif code == 6:
            [r for r in sheet.cssRules if r.type == r.NAMESPACE_RULE][op[1]].prefix = op[2]
        elif code == 7:
            text = render_list(op[3]) + ' {top:0}'
            if op[1]:
                r = cssutils.css.CSSMediaRule()
                r.cssText = ('@media all {' + text + '}', dict(op[2]))
            else:
                r = cssutils.css.CSSStyleRule()
                r.cssText = (text, dict(op[2]))
            sheet.add(r)
        return 0
    except xml.dom.DOMException as e:
        return EXC.get(type(e).__name__, 8)
    except Exception as e:  # noqa
        return 9


def gen_op(rng, sheet, clean=False):
    """next operation, chosen from the live sheet (indices in range most of the time).
    clean=True keeps the history inside the guards of the Coq theorems: no
    operation that can make two @namespace rules share a prefix, attached
    rules only use URIs the sheet declares"""
    view = dict(sheet.namespaces.items())
    nrules = len(sheet.cssRules)
    nns = len([r for r in sheet.cssRules if r.type == r.NAMESPACE_RULE])
    nst = len(style_rules(sheet))
    decl = sorted(sheet.namespaces.keys())
    for _ in range(20):
        r = rng.random()
        p = rng.choice(PREFIXES)
        u = rng.choice(URIS)
        if r < 0.20:
            return (0, p, u)
        if r < 0.32:
            return (1, rng.choice(PREFIXES + ['zz']))
        if r < 0.42:
            idx = None if rng.random() < 0.4 else rng.randrange(0, nrules + 2)
            if clean and p in view and view[p] != u:
                continue
            return (2, p, u if rng.random() < 0.97 else '', idx)
        if r < 0.52:
            if nrules or rng.random() < 0.2:
                return (3, rng.randrange(0, nrules + 1))
            continue
        if r < 0.74:
            return (4, int(rng.random() < 0.25), [gen_seltext(rng, decl) for _ in range(rng.choice([1, 1, 2]))])
        if r < 0.84:
            if nst:
                return (5, rng.randrange(nst), [gen_seltext(rng, decl) for _ in range(rng.choice([1, 1, 2]))])
            continue
        if r < 0.91:
            if nns and not clean:
                return (6, rng.randrange(nns), p)
            if nns and clean:
                # re-bind through the rule object, to a prefix no rule has
                free = [q for q in PREFIXES + ['e'] if q not in [x.prefix for x in sheet.cssRules if x.type == x.NAMESPACE_RULE]]
                if free:
                    return (6, rng.randrange(nns), rng.choice(free))
            continue
        d = {}
        for _ in range(rng.randrange(0, 4)):
            if clean:
                if view:
                    d[rng.choice(PREFIXES[:3] + ['', 'h'])] = rng.choice(sorted(view.values()))
            else:
                d[rng.choice(PREFIXES[:3] + ['', 'h'])] = rng.choice(URIS + ['html'])
        return (7, 0, sorted(d.items()), [gen_seltext(rng, sorted(d)) for _ in range(rng.choice([1, 2]))])
    return (0, 'a', 'u1')


def enc_str(s):
    return [len(s)] + s2n(s)


def enc_seltext(t):
    out = [len(t)]
    for kind, ps, name in t:
        out += [kind, {'no': 0, 'star': 1, 'empty': 2, 'pfx': 3}[ps[0]]]
        if ps[0] == 'pfx':
            out += enc_str(ps[1])
        out += enc_str(name)
    return out


def enc_op(op):
    c = op[0]
    if c == 0:
        return [0] + enc_str(op[1]) + enc_str(op[2])
    if c == 1:
        return [1] + enc_str(op[1])
    if c == 2:
        return [2] + enc_str(op[1]) + enc_str(op[2]) + [255 if op[3] is None else op[3]]
    if c == 3:
        return [3, op[1]]
    if c in (4, 5):
        out = [c, op[1], len(op[2])]
        for t in op[2]:
            out += enc_seltext(t)
        return out
    if c == 6:
        return [6, op[1]] + enc_str(op[2])
    out = [7, op[1], len(op[2])]
    for p, u in op[2]:
        out += enc_str(p) + enc_str(u)
    out.append(len(op[3]))
    for t in op[3]:
        out += enc_seltext(t)
    return out


class Dec:
    def __init__(self, l):
        self.l, self.i = l, 0

    def n(self):
        v = self.l[self.i]
        self.i += 1
        return v

    def s(self):
        k = self.n()
        v = n2s(self.l[self.i:self.i + k])
        if len(v) != k:
            raise IndexError
        self.i += k
        return v


def dec_sel(d):
    n = d.n()
    items = []
    for _ in range(n):
        if d.n() == 0:
            items.append(('plain', d.s()))
        else:
            kind, rc = d.n(), d.n()
            ns = (None, ANY, '')[rc] if rc < 3 else d.s()
            items.append((kind, ns, d.s()))
    text = []
    for _ in range(n):
        kind, pc = d.n(), d.n()
        ps = (('no',), ('star',), ('empty',))[pc] if pc < 3 else ('pfx', d.s())
        text.append((kind, ps, d.s()))
    return (items, render_sel(text))


def dec_obs(d):
    view = {}
    for _ in range(d.n()):
        p = d.s()
        view[p] = d.s()
    rules = []
    for _ in range(d.n()):
        t = d.n()
        if t == 0:
            rules.append(('charset',))
        elif t == 1:
            p = d.s()
            rules.append(('ns', p, d.s()))
        else:
            media = d.n()
            sels = []
            for _ in range(d.n()):
                sels.append(dec_sel(d))
            rules.append(('style', media, sels))
    return view, rules


def dec_model(o, nops):
    """model output -> [obs0, (res, obs)...]"""
    d = Dec(o)
    out = [(0, dec_obs(d))]
    for _ in range(nops):
        r = d.n()
        out.append((r, dec_obs(d)))
    if d.i != len(o):
        raise IndexError
    return out


# ---------------------------------------------------------------- oracles

def check_state(ctx, case, k, op, before, after, res, foreign):
    """property C15 stated on the implementation's own observations"""
    import cssutils
    view0, rules0 = before
    view, rules = after
    dup = dup_uris(rules)

    def viol(kind, detail, cls=None):
        c = {kk: v for kk, v in case.items() if kk != '_sheet'}
        if cls:
            ctx.count('class_%s_in_%s_history' % (cls, 'clean' if case.get('clean') else 'wild'))
        ctx.violation(kind, dict(c, k=k, cls=cls), 'op %d %r: %s' % (k, op, detail), KNOWN_PRED)

    # O1 mapping = effective rules (last declaration of a URI wins, one prefix per URI)
    nsr = ns_rules(rules)
    eff = [(p, u) for i, (p, u) in enumerate(nsr) if all(u2 != u for _, u2 in nsr[i + 1:])]
    if len(set(p for p, _ in eff)) != len(eff):
        viol('view-spec', 'effective rules %r share a prefix, mapping %r' % (eff, view), F_DUP)
    elif dict(eff) != view:
        viol('view-spec', 'mapping %r, effective rules %r' % (view, eff))
    if len(set(view.values())) != len(view):
        viol('view-one-prefix-per-uri', 'mapping %r' % (view,))
    # O2 every used URI is declared
    declared = set(view.values())
    for sels in all_pairs(rules):
        for items in sels:
            for it in items:
                if it[0] != 'plain' and isinstance(it[1], str) and it[1] not in ('', ANY) and it[1] not in declared:
                    cls = F_DUP if it[1] in dup else (F_ATTACH if it[1] in foreign else None)
                    viol('used-undeclared', 'URI %r used by %r is not declared in %r' % (it[1], it, view), cls)
    code = op[0]
    # O3 delete guard
    target = None
    if code == 1:
        cand = [(i, r) for i, r in enumerate(rules0) if r[0] == 'ns' and r[1] == op[1]]
        target = cand[-1] if cand else None
    elif code == 3 and op[1] < len(rules0) and rules0[op[1]][0] == 'ns':
        target = (op[1], rules0[op[1]])
    if target is not None:
        u = target[1][2]
        used = any(it[0] != 'plain' and it[1] == u for sels in all_pairs(rules0) for items in sels for it in items)
        last = [x[1] for x in ns_rules(rules0)].count(u) == 1
        if used and last and (res != 1 or rules != rules0):
            viol('delete-used-accepted', 'removing %r (URI used, only declaration): result %r, rules %r -> %r' % (
                target[1], res, rules0, rules))
        if res == 0:
            exp = rules0[:target[0]] + rules0[target[0] + 1:]
            if no_text(rules) != no_text(exp):
                viol('delete-wrong-rule', 'removing %r: rules %r -> %r' % (target[1], rules0, rules))
    # O4 meaning frame: a namespace operation changes no stored pair
    if code in (0, 1, 2, 6) or target is not None:
        if all_pairs(rules) != all_pairs(rules0):
            viol('meaning-frame', 'stored pairs changed: %r -> %r' % (all_pairs(rules0), all_pairs(rules)))
    # O7 prefix resolution of new selector text; undeclared prefix rejected
    if code in (4, 5, 7):
        m = dict(op[2]) if code == 7 else view0
        ts = op[3] if code == 7 else op[2]
        try:
            exp = ref_resolve(m, ts)
        except KeyError:
            exp = None
        if exp is None:
            if res != 2 or rules != rules0:
                viol('undeclared-prefix-accepted', 'selector %r against %r: result %r' % (render_list(ts), m, res))
        else:
            if res != 0:
                viol('declared-prefix-rejected', 'selector %r against %r: result %r' % (render_list(ts), m, res))
            else:
                st0, st = all_pairs(rules0), all_pairs(rules)
                if code == 5:
                    ok = len(st) == len(st0) and st[op[1]] == exp and st[:op[1]] + st[op[1] + 1:] == st0[:op[1]] + st0[op[1] + 1:]
                else:
                    ok = st == st0 + [exp]
                if not ok:
                    viol('resolution', 'selector %r against %r stored as %r, expected %r' % (render_list(ts), m, st, exp))
    # O8 re-binding changes the prefix only
    if code == 0 and res == 0 and not dup_prefix(rules0):
        p, u = op[1], op[2]
        old = [q for q, v in view0.items() if v == u]
        if p not in view0 and u and len(set(x[1] for x in ns_rules(rules0))) == len(ns_rules(rules0)):
            exp = {q: v for q, v in view0.items() if v != u}
            exp[p] = u
            if view != exp:
                viol('rebind', 'namespaces[%r]=%r: mapping %r -> %r, expected %r (old prefixes %r)' % (p, u, view0, view, exp, old))
    # O6 serialised @namespace rules are well-formed
    import cssutils.css
    for r in [r for r in case['_sheet'].cssRules if r.type == r.NAMESPACE_RULE]:
        text = r.cssText
        ok = re.fullmatch(r'@namespace (/\*c\*/ )?([a-z]+ )?(/\*c\*/ )?"[^"\\]+";', text) is not None
        if ok:
            try:
                r2 = cssutils.css.CSSNamespaceRule(cssText=text)
                ok = (r2.prefix, r2.namespaceURI) == (r.prefix, r.namespaceURI)
            except Exception:
                ok = False
        if not ok:
            viol('namespace-rule-illformed', 'rule (%r, %r) serialises as %r' % (r.prefix, r.namespaceURI, text))
    # O5 the serialisation re-resolves to the same pairs
    text = case['_sheet'].cssText
    try:
        s2 = cssutils.parseString(text)
        _, rules2 = observe(s2)
        err = None
    except Exception as e:  # noqa
        rules2, err = None, '%s: %s' % (type(e).__name__, e)
    if rules2 is None:
        viol('reparse-raises', 'reparse of %r raised %s' % (text, err))
    else:
        a, b = all_pairs(rules), all_pairs(rules2)
        classes = set()
        d = view.get('')
        if [[len(i) for i in s] for s in a] != [[len(i) for i in s] for s in b]:
            classes.add(None)
        else:
            for sa, sb in zip(a, b):
                for ia, ib in zip(sa, sb):
                    for x, y in zip(ia, ib):
                        if x == y:
                            continue
                        if dup:
                            # the parser merges rules with one prefix and sees shadowed rules a refused
                            # clean-up left behind: the reparsed sheet has different declarations altogether
                            classes.add(F_DUP)
                        elif x[0] != 'plain' and isinstance(x[1], str) and x[1] not in ('', ANY) and x[1] not in declared:
                            classes.add(F_ATTACH if x[1] in foreign else None)
                        elif x[0] in (0, 1) and x[1] is None and d is not None and y == (x[0], '', x[2]):
                            classes.add(F_DEFAULT)
                        elif x[0] == 2 and d is not None and x[1] == d and y == ('plain', x[2]):
                            classes.add(F_ATTR)
                        else:
                            classes.add(None)
        for cls in sorted(classes, key=str):
            viol('reparse', 'sheet %r: stored pairs %r, after reparse %r' % (text, a, b), cls)


# ---------------------------------------------------------------- histories

def build_sheet(charset, init, comments):
    import cssutils
    text = '@charset "utf-8";\n' if charset else ''
    for (p, u), c in zip(init, comments):
        text += '@namespace %s%s%s"%s";\n' % ('/*c*/ ' if c == 1 else '', p + ' ' if p else '', '/*c*/ ' if c == 2 else '', u)
    return cssutils.parseString(text), text


def gen_init(rng):
    charset = int(rng.random() < 0.4)
    n = rng.choice([0, 0, 1, 2, 3])
    ps = rng.sample(PREFIXES, n)
    us = rng.sample(URIS, n)
    return charset, list(zip(ps, us)), [rng.choice([0, 0, 0, 1, 2]) for _ in range(n)]


def run_history(ctx, charset, init, comments, ops=None, nops=0, rng=None, clean=False):
    """execute on the implementation (generating the operations from the live
    sheet when ops is None); returns flat model input, expected records, case"""
    from harness import impl
    impl.reset()
    sheet, text = build_sheet(charset, init, comments)
    case = {'charset': charset, 'init': [list(x) for x in init], 'comments': comments, 'ops': [], 'clean': clean,
            '_sheet': sheet}
    flat = [150, charset, len(init)]
    for p, u in init:
        flat += enc_str(p) + enc_str(u)
    obs = observe(sheet)
    want = [(0, obs)]
    foreign = set()
    done = []
    k = 0
    while True:
        if ops is None:
            if k >= nops:
                break
            op = gen_op(rng, sheet, clean)
        else:
            if k >= len(ops):
                break
            op = ops[k]
        before = obs
        if op[0] == 7:
            foreign |= {u for _, u in op[2] if u not in before[0].values()}
        res = apply_op(sheet, op)
        obs = observe(sheet)
        done.append(op)
        case['ops'] = jsonable_ops(done)
        check_state(ctx, case, k, op, before, obs, res, foreign)
        flat += enc_op(op)
        want.append((res, obs))
        k += 1
    case = {kk: v for kk, v in case.items() if kk != '_sheet'}
    return flat, want, case


def jsonable_ops(ops):
    return json.loads(json.dumps(ops))


def unjson_op(o):
    def tt(t):
        return [(k, tuple(ps), n) for k, ps, n in t]
    c = o[0]
    if c in (4, 5):
        return (c, o[1], [tt(t) for t in o[2]])
    if c == 7:
        return (7, o[1], [tuple(x) for x in o[2]], [tt(t) for t in o[3]])
    return tuple(o)


def norm_obs(o):
    res, (view, rules) = o
    return json.loads(json.dumps([res, sorted(view.items()), rules]))


def run(ctx):
    quick = ctx.tier == 'quick'
    nh, maxops = (1500, 22) if quick else (12000, 45)
    ctx.cov['rule'] = ('operation histories over sheets built from parsed @charset/@namespace text (with and without prefix, '
                       'comments), operations namespaces[p]=u, del namespaces[p], insertRule/add/deleteRule of @namespace rules '
                       '(explicit indices), rule.prefix=, add style rule / @media{style rule} from text, set selectorText, attach '
                       'detached rules carrying their own dictionary; selectors of type, universal and attribute items with '
                       'prefix, *|, | and no prefix; distinct = distinct (initial sheet, op list); a history is non-trivial '
                       'when it has at least one operation')
    cases, wants, flats = [], [], []
    for _ in range(nh):
        charset, init, comments = gen_init(ctx.rng)
        clean = ctx.rng.random() < 0.5
        flat, want, case = run_history(ctx, charset, init, comments, None, ctx.rng.randrange(1, maxops), ctx.rng, clean)
        ctx.count('histories_clean' if clean else 'histories_wild')
        ctx.case((charset, tuple(init), json.dumps(case['ops'])))
        for w in want[1:]:
            ctx.count('result_%d' % w[0])
        cases.append(case)
        wants.append(want)
        flats.append(flat)
    if cases:
        ctx.sample(cases[0])
    detached_selectors(ctx, 1500 if quick else 20000)
    negation_family(ctx, 150 if quick else 4000)
    undeclared_and_moved_family(ctx, 80 if quick else 2000)
    if ctx.model.available:
        outs = ctx.model.run(flats)
        agree = 0
        for case, want, o in zip(cases, wants, outs):
            try:
                got = dec_model(o or [], len(want) - 1)
            except IndexError:
                got = None
            w = [norm_obs(x) for x in want]
            g = [norm_obs(x) for x in got] if got is not None else None
            if g == w:
                agree += 1
            else:
                k = next((i for i in range(len(w)) if g is None or i >= len(g) or g[i] != w[i]), 0)
                ctx.disagree('namespaces', dict(case, first_difference_at_record=k), w[k], (g[k] if g and k < len(g) else None))
        ctx.extra['correspondence'] = {'histories': len(cases), 'agree': agree,
                                       'records': sum(len(w) for w in wants)}
    else:
        ctx.broken.append(('correspondence', 'extracted model not available'))


def detached_selectors(ctx, n):
    """a Selector that is not attached to a sheet resolves and serialises
    against its own dictionary (which, unlike a sheet's mapping, may bind
    several prefixes to one URI): implementation vs model entry 151, plus the
    reference resolver"""
    import cssutils
    import xml.dom
    from harness import impl
    rng = ctx.rng
    flats, wants, cases = [], [], []
    for _ in range(n):
        d = []
        for p in rng.sample(PREFIXES + ['h'], rng.randrange(0, 5)):
            d.append((p, rng.choice(URIS[:3])))
        t = gen_seltext(rng, [p for p, _ in d])
        text = render_sel(t)
        case = {'dict': d, 'selector': text}
        ctx.case(('detached', tuple(d), text))
        impl.reset()
        try:
            sel = cssutils.css.Selector((text, dict(d)))
            got = [sel_items(sel), sel.selectorText]
        except xml.dom.NamespaceErr:
            got = None
        except Exception as e:  # noqa
            ctx.disagree('detached-selector', case, '%s: %s' % (type(e).__name__, e), None)
            continue
        try:
            exp = ref_resolve(dict(d), [t])[0]
        except KeyError:
            exp = None
        if (got is None) != (exp is None):
            ctx.violation('detached-undeclared-prefix', dict(case, cls=None),
                          'Selector((%r, %r)): %s' % (text, dict(d), 'accepted' if exp is None else 'rejected'), KNOWN_PRED)
        elif got is not None and got[0] != exp:
            ctx.violation('detached-resolution', dict(case, cls=None),
                          'Selector((%r, %r)) stored %r, expected %r' % (text, dict(d), got[0], exp), KNOWN_PRED)
        flat = [151, len(d)]
        for p, u in d:
            flat += enc_str(p) + enc_str(u)
        flats.append(flat + enc_seltext(t))
        wants.append(got)
        cases.append(case)
    if not ctx.model.available:
        return
    agree = 0
    for case, want, o in zip(cases, wants, ctx.model.run(flats)):
        try:
            if o and o[0] == 1:
                dd = Dec(o[1:])
                items, txt = dec_sel(dd)
                got = [items, txt]
            elif o == [0]:
                got = None
            else:
                got = 'undecodable'
        except IndexError:
            got = 'undecodable'
        if json.loads(json.dumps(got)) == json.loads(json.dumps(want)):
            agree += 1
        else:
            ctx.disagree('detached-selector', case, want, got)
    ctx.extra['correspondence_detached'] = {'cases': len(cases), 'agree': agree}


def all_pairs_deep(sheet):
    """every (URI, name) a selector stores, the argument of :not() included"""
    out = []
    for _, r in style_rules(sheet):
        for sel in r.selectorList:
            one = []
            for it in sel.seq:
                if isinstance(it.value, tuple):
                    ns = ANY if not isinstance(it.value[0], str) and it.value[0] is not None else it.value[0]
                    one.append((it.type, ns, it.value[1]))
            out.append(one)
    return out


def negation_family(ctx, n):
    """a namespace may be used only inside :not(): it is still used.  Search only (oracle = the property's own
    words): every URI a selector stores is declared; removal of a used namespace is rejected; re-binding keeps
    the pairs; the serialisation re-resolves to the same pairs"""
    import cssutils
    import xml.dom
    from harness import impl
    rng = ctx.rng
    NEG = ['x:not(%sq)', ':not(%s*)', 'x:not([%st])', 'y:not(%sq) z', '*|x:not(%sy)']
    for _ in range(n):
        impl.reset()
        used = rng.choice(['a', 'b'])
        other = 'b' if used == 'a' else 'a'
        sels = [rng.choice(NEG) % (used + '|')]
        if rng.random() < 0.4:
            sels.append(rng.choice(['%s|x' % other, '[%s|t]' % other, 'x']))
        text = '@namespace a "u1"; @namespace b "u2"; ' + ' '.join('%s{left:0}' % s_ for s_ in sels)
        ops = []
        for _k in range(rng.randrange(1, 4)):
            ops.append(rng.choice([('del', used), ('del', other), ('delrule', 0), ('delrule', 1), ('rebind', 'n', used), ('rebind', other, used),
                                   ('seturi', used, 'u9'), ('settext-rejected', rng.choice(['@namespace b "v"; c|y {l:0}', '@namespace a "zz"; a|q{l:0} }}', '@namespace n "w"; x{ }} @import "late";']))]))
        case = {'text': text, 'ops': [list(o) for o in ops], 'cls': None, 'family': 'negation'}
        ctx.case(('negation', text, tuple(ops)))
        try:
            sheet = cssutils.parseString(text)
            pairs0 = all_pairs_deep(sheet)
            for k, op in enumerate(ops):
                before = all_pairs_deep(sheet)
                uri_of = dict(sheet.namespaces.items())
                used_uris = {ns for sel in before for _, ns, _ in sel if isinstance(ns, str) and ns and ns != ANY}
                rejected = False
                try:
                    if op[0] == 'del':
                        target = uri_of.get(op[1])
                        del sheet.namespaces[op[1]]
                    elif op[0] == 'delrule':
                        rr = sheet.cssRules[op[1]] if op[1] < sheet.cssRules.length else None
                        target = rr.namespaceURI if rr is not None and rr.type == rr.NAMESPACE_RULE else None
                        sheet.deleteRule(op[1])
                    elif op[0] == 'settext-rejected':
                        target = None
                        sheet.cssText = op[1]
                    elif op[0] == 'rebind':
                        target = None
                        if op[2] in uri_of:
                            sheet.namespaces[op[1]] = uri_of[op[2]]
                    else:
                        target = None
                        sheet.namespaces[op[1]] = op[2]
                except xml.dom.DOMException:
                    rejected = True
                after = all_pairs_deep(sheet)
                decl = set(dict(sheet.namespaces.items()).values())
                if target is not None and target in used_uris and not rejected and op[0] in ('del', 'delrule'):
                    ctx.violation('remove-used', dict(case, at=k), 'removing the namespace %r still used inside :not() was accepted' % target, KNOWN_PRED)
                if op[0] != 'seturi' and not (op[0] == 'delrule' and target is None) and after != before:
                    ctx.violation('denotation-changed', dict(case, at=k), 'pairs before %r after %r' % (before, after), KNOWN_PRED)
                by_rules = {}
                for r_ in sheet.cssRules:
                    if r_.type == r_.NAMESPACE_RULE:
                        by_rules[r_.prefix] = r_.namespaceURI
                if dict(sheet.namespaces.items()) != by_rules and len(set(by_rules.values())) == len(by_rules):
                    ctx.violation('view-vs-rules', dict(case, at=k), 'namespaces mapping %r, @namespace rules %r' % (dict(sheet.namespaces.items()), by_rules), KNOWN_PRED)
                undeclared = {ns for sel in after for _, ns, _ in sel if isinstance(ns, str) and ns and ns != ANY} - decl
                if undeclared:
                    ctx.violation('used-undeclared', dict(case, at=k), 'selectors use %r, declared %r' % (sorted(undeclared), sorted(decl)), KNOWN_PRED)
                again = cssutils.parseString(sheet.cssText)
                if all_pairs_deep(again) != after:
                    ctx.violation('reparse-pairs', dict(case, at=k), 'serialised %r: pairs %r, in the DOM %r' % (
                        sheet.cssText.decode()[:300], all_pairs_deep(again), after), KNOWN_PRED)
        except Exception as e:  # noqa
            ctx.violation('negation-raises', case, '%s: %s' % (type(e).__name__, e), KNOWN_PRED)
        # stand-alone selector with its own dictionary
        try:
            sel = cssutils.css.Selector((sels[0], {'a': 'u1', 'b': 'u2'}))
            again = cssutils.css.Selector((sel.selectorText, {'a': 'u1', 'b': 'u2'}))
            if [i.value for i in sel.seq] != [i.value for i in again.seq]:
                ctx.violation('detached-resolution', dict(case, selector=sels[0]), 'selectorText %r re-resolves to %r, stored %r' % (
                    sel.selectorText, [i.value for i in again.seq], [i.value for i in sel.seq]), KNOWN_PRED)
        except xml.dom.DOMException as e:
            ctx.violation('detached-undeclared-prefix', dict(case, selector=sels[0]), 'rejected: %s' % e, KNOWN_PRED)


def undeclared_and_moved_family(ctx, n):
    """(1) an undeclared prefix anywhere in a selector (compound, complex, list, attribute, :not()) rejects the
    selector, in the parser's non-raising mode too: nothing of the rule may remain; (2) a Selector object moved into
    the list of a rule of another sheet resolves and serialises against ITS sheet.  Search only."""
    import cssutils
    import xml.dom
    from harness import impl
    rng = ctx.rng
    # a prefix (or the default) declared twice with different URIs, comments anywhere inside the first rule: the rule
    # that remains is well-formed, says what the mapping says, and the sheet reads back with the same pairs
    for first in ('@namespace p "one";', '@namespace p "one" /*c*/;', '@namespace /*a*/ p /*b*/ "one" /*c*/ /*d*/ ;', '@namespace p url(one)/*c*/;',
                  '@namespace "one" /*c*/;', '@namespace /*a*/ "one";', '@namespace/*a*/"one"/*c*/;'):
        pre = 'p' if ' p ' in first or ' p/' in first else ''
        second = '@namespace %s "two";' % pre
        body = ' p|a, x[p|b]{l:0}' if pre else ' a{l:0}'
        text = first + ' ' + second + body
        impl.reset()
        ctx.case(('redeclared-comments', text))
        case = {'text': text, 'cls': None, 'family': 'redeclared-comments'}
        try:
            sheet = cssutils.parseString(text)
            rules_ = [(r.prefix, r.namespaceURI) for r in sheet.cssRules if r.type == r.NAMESPACE_RULE]
            view_ = dict(sheet.namespaces.items())
            again = cssutils.parseString(sheet.cssText)
            rules2 = [(r.prefix, r.namespaceURI) for r in again.cssRules if r.type == r.NAMESPACE_RULE]
            pa, pb = all_pairs_deep(sheet), all_pairs_deep(again)
        except Exception as e:  # noqa
            ctx.violation('negation-raises', case, '%s: %s' % (type(e).__name__, e), KNOWN_PRED)
            continue
        if dict(rules_) != view_ or view_ != {pre: 'two'}:
            ctx.violation('view-vs-rules', case, '@namespace rules %r, mapping %r, expected {%r: "two"}' % (rules_, view_, pre), KNOWN_PRED)
        elif rules2 != rules_ or pa != pb:
            ctx.violation('reparse-pairs', case, 'rules %r selectors %r; the text %r reads back as rules %r selectors %r' % (
                rules_, pa, sheet.cssText.decode()[:200], rules2, pb), KNOWN_PRED)
    # re-declared URIs leave one prefix per URI and a mapping that is exactly the remaining rules
    for text in ('@namespace a "one"; @namespace b "two"; @namespace c "one"; @namespace d "two"; d|x{l:0}',
                 '@namespace a "one"; @namespace b "one"; @namespace c "one"; c|x{l:0}',
                 '@namespace a "one"; @namespace b "two"; @namespace a "two"; @namespace b "one"; a|x b|y{l:0}'):
        impl.reset()
        ctx.case(('redeclared', text))
        try:
            sheet = cssutils.parseString(text)
            rules_ = [(r.prefix, r.namespaceURI) for r in sheet.cssRules if r.type == r.NAMESPACE_RULE]
            view_ = dict(sheet.namespaces.items())
            if len({u for _, u in rules_}) != len(rules_) or dict(rules_) != view_:
                ctx.violation('view-vs-rules', {'text': text, 'cls': None, 'family': 'redeclared'}, '@namespace rules %r, mapping %r' % (rules_, view_), KNOWN_PRED)
        except Exception as e:  # noqa
            ctx.violation('negation-raises', {'text': text, 'cls': None}, '%s: %s' % (type(e).__name__, e), KNOWN_PRED)
    # a prefix re-declared through insertRule (rule object or text, every index): accepted or refused, the mapping stays
    # exactly the @namespace rules, every URI a selector uses stays declared, and the text reads back the same
    for base in ('@namespace p "one"; p|a, x[p|b], p|*{l:0}', '@namespace p "one"; @namespace q "three"; @media tv{p|a{l:0}} q|b{l:0}', '@namespace p "one"; c{l:0}',
                 '@namespace "one"; @namespace p "one2"; a:not(p|b){l:0}'):
        for uri in ('two', 'one', 'three'):
            for prefix in ('p', 'q', 'r'):
                for form in ('object', 'text'):
                    for idx in (0, 1, 2, None):
                        impl.reset()
                        case = {'text': base, 'insert': [prefix, uri, form, idx], 'cls': None, 'family': 'redeclare-at-index'}
                        ctx.case(('redeclare-at-index', base, prefix, uri, form, idx))
                        try:
                            sheet = cssutils.parseString(base)
                            before = (sheet.cssText, dict(sheet.namespaces.items()))
                            rule = cssutils.css.CSSNamespaceRule(namespaceURI=uri, prefix=prefix) if form == 'object' else '@namespace %s "%s";' % (prefix, uri)
                            refused = False
                            try:
                                sheet.insertRule(rule, idx) if idx is not None else sheet.insertRule(rule)
                            except xml.dom.DOMException:
                                refused = True
                            rules_ = [(r.prefix, r.namespaceURI) for r in sheet.cssRules if r.type == r.NAMESPACE_RULE]
                            view_ = dict(sheet.namespaces.items())
                            after = (sheet.cssText, view_)
                            used = {v[0] for sel in all_pairs_deep(sheet) for _, *v in [tuple(i) for i in sel] if isinstance(v[0], str) and v[0]}
                            again = cssutils.parseString(sheet.cssText)
                            pa, pb = all_pairs_deep(sheet), all_pairs_deep(again)
                        except Exception as e:  # noqa
                            ctx.violation('negation-raises', case, '%s: %s' % (type(e).__name__, e), KNOWN_PRED)
                            continue
                        if refused and after != before:
                            ctx.violation('remove-used', case, 'the insertion was refused but the sheet changed: %r -> %r' % (before, after), KNOWN_PRED)
                        elif dict(rules_) != view_ or len(dict(rules_)) != len(rules_):
                            ctx.violation('view-vs-rules', case, '@namespace rules %r, mapping %r' % (rules_, view_), KNOWN_PRED)
                        elif not used <= set(view_.values()):
                            ctx.violation('used-undeclared', case, 'URIs in use %r, declared %r' % (sorted(used), view_), KNOWN_PRED)
                        elif pa != pb:
                            ctx.violation('reparse-pairs', case, 'sheet has %r; its text %r reads back as %r' % (pa, sheet.cssText.decode()[:200], pb), KNOWN_PRED)
    # prefixes are names as written (letter case matters); the first namespace of a sheet lands before every body rule
    for text, want in (('@namespace SVG "A"; @namespace svg "B"; SVG|circle, svg|rect, [SVG|href], SVG|*{l:0}', [('A', 'circle'), ('B', 'rect'), ('A', 'href'), ('A', '*')]),
                       ('@namespace Math "M"; Math|mi:not(Math|mo){l:0}', [('M', 'mi'), ('M', 'mo')])):
        impl.reset()
        ctx.case(('prefix-case', text))
        try:
            sheet = cssutils.parseString(text)
            got = [(v[0], v[1]) for sel in all_pairs_deep(sheet) for _, *v in [tuple(sel_item) for sel_item in sel]]
        except Exception as e:  # noqa
            ctx.violation('negation-raises', {'text': text, 'cls': None}, '%s: %s' % (type(e).__name__, e), KNOWN_PRED)
            continue
        if got != want:
            ctx.violation('detached-resolution', {'text': text, 'cls': None, 'family': 'prefix-case'}, 'selectors hold %r, expected %r' % (got, want), KNOWN_PRED)
    for first in ('@font-face{font-family:x}', '@page{margin:0}', '@media tv{b{l:0}}', '/*c*/', '@x y;', 'b{l:0}', '@variables{v:1}', '@import "i.css";'):
        for how in ('mapping', 'add-text', 'add-rule'):
            impl.reset()
            text = first + ' a{l:0}'
            case = {'text': text, 'how': how, 'cls': None, 'family': 'first-namespace'}
            ctx.case(('first-namespace', first, how))
            try:
                sheet = cssutils.parseString(text)
                if how == 'mapping':
                    sheet.namespaces['p'] = 'u'
                elif how == 'add-text':
                    sheet.add('@namespace p "u";')
                else:
                    sheet.add(cssutils.css.CSSNamespaceRule(namespaceURI='u', prefix='p'))
                sheet.add('p|z{t:0}')
                again = cssutils.parseString(sheet.cssText)
                a = (dict(sheet.namespaces.items()), all_pairs_deep(sheet))
                b = (dict(again.namespaces.items()), all_pairs_deep(again))
            except xml.dom.DOMException:
                continue
            except Exception as e:  # noqa
                ctx.violation('negation-raises', case, '%s: %s' % (type(e).__name__, e), KNOWN_PRED)
                continue
            if a != b:
                ctx.violation('reparse-pairs', case, 'sheet has %r; its text %r reads back as %r' % (a, sheet.cssText.decode()[:200], b), KNOWN_PRED)
    SHAPES = ['x|a.c', 'p|ok, x|a.c', 'b > x|a', 'b[x|att]', 'b:not(x|a)', 'b:not([x|a])', 'x|a', '.c x|*', 'x|a, k2', '*|y x|z#i']
    for _ in range(n):
        impl.reset()
        shape = rng.choice(SHAPES)
        wrap = rng.choice(['%s{l:0}', '@media tv{%s{l:0}}', '@media tv{@media print{%s{l:0}}}'])
        text = '@namespace p "u"; ' + (wrap % shape) + ' k{m:n}'
        if rng.random() < 0.3:
            # the prefix is "declared" by an @namespace rule that is refused where it stands
            text = rng.choice(['@namespace p "u"; k0{l:0} @namespace x "w"; ', '@namespace p "u"; @variables {a:1} @namespace x "w"; ',
                               '@namespace p "u"; @media tv{k0{l:0}} @namespace x "w"; ', '@namespace p "u"; @page{margin:0} @namespace x "w"; ']) + (wrap % shape) + ' k{m:n}'
        case = {'text': text, 'cls': None, 'family': 'undeclared'}
        ctx.case(('undeclared', text))
        try:
            sheet = cssutils.parseString(text)
            rules = [r for _, r in style_rules(sheet)]
            deep = all_pairs_deep(sheet)
            if [r.selectorText for r in rules if r.selectorText != 'k0'] != ['k'] or 'x' in dict(sheet.namespaces.items()):
                ctx.violation('undeclared-accepted', case, 'style rules after the parse: %r (only k may remain)' % [r.selectorText for r in rules], KNOWN_PRED)
            for mode in (True, False):
                cssutils.log.raiseExceptions = mode
                r = cssutils.css.CSSStyleRule(selectorText='k')
                sheet.add(r)
                try:
                    r.selectorText = shape
                    accepted = True
                except xml.dom.DOMException:
                    accepted = False
                if r.selectorText != 'k':
                    ctx.violation('undeclared-accepted', dict(case, raising=mode), 'rule.selectorText = %r (%s) left %r' % (
                        shape, 'no exception' if accepted else 'exception', r.selectorText), KNOWN_PRED)
                cssutils.log.raiseExceptions = True
        except Exception as e:  # noqa
            cssutils.log.raiseExceptions = True
            ctx.violation('negation-raises', case, '%s: %s' % (type(e).__name__, e), KNOWN_PRED)
        # (2)
        impl.reset()
        s1 = cssutils.parseString('@namespace p "A"; @namespace o "C"; p|a o|b{l:0} p|x{l:1}')
        s2 = cssutils.parseString('@namespace z "A"; @namespace p "B"; @namespace o "C"; z|c{l:0} p|d{l:2}')
        case = {'family': 'moved-selector', 'cls': None, 'sheet1': s1.cssText.decode(), 'sheet2': s2.cssText.decode()}
        ctx.case(('moved', rng.random()))
        try:
            sel = s1.cssRules[2 + rng.randrange(2)].selectorList[0]
            want = [i.value for i in sel.seq if isinstance(i.value, tuple)]
            target = s2.cssRules[3 + rng.randrange(2)].selectorList
            how = rng.choice(['append', 'appendSelector', 'setitem'])
            if how == 'append':
                target.append(sel)
            elif how == 'appendSelector':
                target.appendSelector(sel)
            else:
                target[0] = sel
            case['how'] = how
            got = [i.value for i in sel.seq if isinstance(i.value, tuple)]
            again = cssutils.parseString(s2.cssText)
            if got != want or all_pairs_deep(again) != all_pairs_deep(s2):
                ctx.violation('reparse-pairs', case, 'moved selector stored %r (was %r); sheet 2 serialises %r which reads back as %r, DOM %r' % (
                    got, want, s2.cssText.decode()[:300], all_pairs_deep(again), all_pairs_deep(s2)), KNOWN_PRED)
        except xml.dom.DOMException:
            pass
        except Exception as e:  # noqa
            ctx.violation('negation-raises', case, '%s: %s' % (type(e).__name__, e), KNOWN_PRED)


def replay(path):
    d = json.load(open(path))
    case = d.get('case') or (d.get('disagreements') or [{}])[0].get('case')
    print(json.dumps({k: v for k, v in d.items() if k != 'case'}, indent=1)[:3000])
    if not case or 'ops' not in case:
        return 0
    ctx = core.Ctx('C15', 'quick', 0)
    ops = [unjson_op(o) for o in case['ops']]
    from harness import impl  # noqa
    flat, want, _ = run_history(ctx, case['charset'], [tuple(x) for x in case['init']], case['comments'], ops)
    for k, w in enumerate(want):
        print(k, ops[k - 1] if k else 'init', json.dumps(norm_obs(w)))
    real = [v for v in ctx.violations]
    for v in real:
        print('VIOLATION', v['kind'], v['detail'][:400])
    for kid, n in ctx.known_hits.items():
        print('KNOWN-FINDING', kid, n)
    return 1 if real else 0
