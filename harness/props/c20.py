"""C20 — encutils reports the document encoding by the documented precedence.
Coq: Gen/GenEnc.v (regenerated from encutils/__init__.py), Model/Encutils.v,
Proofs/EncutilsFacts.v, Props/C20.v.
Correspondence: the extracted model against encutils on (a) the complete
finite table media class x charset x XML {absent, declaration, BOM, ...} x meta x
agree/disagree x text/bytes with stub response objects — enumerated on every
run —, (b) media-type strings, (c) random documents and streams for the
sniffers.  Search: oracles that state the documented rules directly on the
row parameters / the reported attributes."""
import http.client
import io
import json
import logging

from harness import core
from harness.core import s2n

GEN = ['GenEnc']

MANIFEST = dict(
    text='Machine-checked (Coq, closed under the global context) for all option-valued inputs: the decision chain of getEncodingInfo '
         'equals "first known source" over the documented source list of each text type (transport charset; then XML sniffing for '
         'application/xml types, meta then media-type default for text/html, the media-type default for the other text types, '
         'nothing else otherwise), the defaults being utf-8 / ascii / iso-8859-1 / utf-8 by evaluation of the regenerated table; '
         'text/xml ignores the document; mismatch <-> two consulted sources are known and differ; outputs are lower-case when the '
         'extracted inputs are (str.lower idempotent by an exhaustive check of the regenerated table; BOM names, defaults lower-case); '
         'XML sniffing of a document of >= 4 units = BOM name by longest-first prefix, else the lower-cased declared name, else utf-8, '
         'and the stream position is restored; a reported declaration has the shape <?xml..encoding=q name q..?> inside the first 2048 '
         'units.  The media-type rules, default table, BOM table, probes, regexes, window sizes are regenerated from the source on '
         'every run; the hand model (gathering, chain, mismatch, stream operations) is tied by an exhaustive table run plus random '
         'documents.  Header and <meta> extraction (email.message, html.parser) are inputs of the model and covered by the oracles only.',
    note='Trusted: Coq kernel + vm_compute; translator/gen_enc.py (AST shape checks, fail-closed) and regex2coq (CPython re._parser front '
         'end, per-class code-point queries); extraction + driver; hand model of getEncodingInfo / detectXMLEncoding validated by '
         'correspondence; CPython email.message / html.parser (oracle only); str.lower modelled per character (final-sigma rule not '
         'modelled, U+03A3 excluded from generated names). Modelled behaviour is the repaired one (fixes/C20-1, C20-2).',
    design='7/C20')


# ---------------------------------------------------------------- known findings

def _decl_has_linebreak(doc):
    end = doc.find('?>')
    return end != -1 and any(c in doc[:end] for c in '\n')


KNOWN_PRED = {
    # documents shorter than four characters: the sniffer raises ValueError (and leaves the stream moved)
    'C20-sniffer-short-document': lambda kind, case, detail: kind in ('sniff-raises', 'sniff-position') and len(case.get('doc', '')) < 4,
    # XML declaration containing a line break is not recognised ('.' does not match a newline)
    'C20-decl-linebreak': lambda kind, case, detail: kind == 'sniff-declared' and _decl_has_linebreak(case.get('doc', '')),
}


# ---------------------------------------------------------------- implementation side

class Resp:
    """stub HTTP response: only .info() is used by encutils"""

    def __init__(self, info):
        self._info = info

    def info(self):
        return self._info


class RawInfo:
    """stub message that answers the two questions directly"""

    def __init__(self, media_type, charset):
        self.mt, self.cs = media_type, charset

    def get_content_type(self):
        return self.mt

    def get_content_charset(self):
        return self.cs


def header_info(content_type):
    m = http.client.HTTPMessage()
    if content_type is not None:
        m['Content-Type'] = content_type
    return m


_quiet = logging.getLogger('verif-c20-quiet')
_quiet.addHandler(logging.NullHandler())
_quiet.propagate = False
_quiet.setLevel(logging.CRITICAL + 1)


def call_info(resp, text, own_log=True):
    import encutils
    if own_log:
        return encutils.getEncodingInfo(resp, text, log=_quiet)
    try:
        return encutils.getEncodingInfo(resp, text)
    finally:
        # getEncodingInfo adds a handler to the shared 'encutils' logger on every call
        del logging.getLogger('encutils').handlers[:]


def units(text):
    """document as list of code units (bytes values / code points)"""
    return list(text) if isinstance(text, (bytes, bytearray)) else s2n(text)


def as_text(doc, as_bytes):
    return doc.encode('latin-1') if as_bytes else doc


def opt(o):
    return [0] if o is None else [1, len(o)] + s2n(o)


# ---------------------------------------------------------------- the finite table

MEDIA = [  # (documented class, media type as sent)
    ('appxml', 'application/xml'), ('appxml', 'application/xhtml+xml'), ('appxml', 'application/xml-dtd'),
    ('appxml', 'application/xml-external-parsed-entity'), ('appxml', 'Application/RSS+XML'),
    ('textxml', 'text/xml'), ('textxml', 'text/xml-external-parsed-entity'), ('textxml', 'text/x+xml'), ('textxml', 'TEXT/XML'),
    ('html', 'text/html'), ('html', 'Text/HTML'),
    ('css', 'text/css'),
    ('text', 'text/plain'), ('text', 'text/javascript'),
    ('other', 'image/png'), ('other', 'application/octet-stream'), ('other', 'application/json'),
    ('absent-header', None),      # response without Content-Type: the transport reports text/plain (RFC 2045 default)
    ('absent-type', None),        # stub message reporting no media type at all
    ('absent-response', None),    # no response object
]
CHARSETS = [None, 'utf-8', 'ISO-B', '']
XMLS = ['none', 'decl-utf8', 'decl-isob', 'decl-noenc', 'bom-utf8', 'bom16-decl-isob', 'short']
METAS = [None, 'utf-8', 'Iso-B', 'nocharset']
BOM_NAMES = [('\x00\x00\xfe\xff', 'utf_32_be'), ('\xff\xfe\x00\x00', 'utf_32_le'), ('\xfe\xff', 'utf_16_be'),
             ('\xff\xfe', 'utf_16_le'), ('\xef\xbb\xbf', 'utf-8')]


def build_doc(xml, meta):
    """-> (document, bom name or None, declared or None, has declaration marker)"""
    if xml == 'short':
        return '<a>', None, None
    bom, bomname, decl, declared = '', None, '', None
    if xml == 'decl-utf8':
        decl, declared = '<?xml version="1.0" encoding="utf-8"?>', 'utf-8'
    elif xml == 'decl-isob':
        decl, declared = "<?xml version='1.0' encoding='ISO-B' standalone='yes' ?>", 'ISO-B'
    elif xml == 'decl-noenc':
        decl = '<?xml version="1.0"?>'
    elif xml == 'bom-utf8':
        bom, bomname = '\xef\xbb\xbf', 'utf-8'
    elif xml == 'bom16-decl-isob':
        bom, bomname = '\xff\xfe', 'utf_16_le'
        decl, declared = '<?xml version="1.0" encoding="ISO-B"?>', 'ISO-B'
    m = ''
    if meta == 'nocharset':
        m = '<meta http-equiv="Content-Type" content="text/html">'
    elif meta is not None:
        m = '<meta name="x" content="y"><META HTTP-EQUIV="Content-Type" CONTENT="text/html; charset=%s">' % meta
    return bom + decl + '<html><head>' + m + '</head><body>text</body></html>', bomname, declared


def documented(cls, charset, doc, bomname, declared, meta, short):
    """the documented rules, stated on the parameters a row was built from
    -> (encoding, xml source, meta source) ; unknown is None"""
    http_enc = charset.lower() if charset else None
    meta_enc = meta.lower() if meta and meta != 'nocharset' else None
    # XML sniffing: BOM, else declared, else (where a default applies) utf-8;
    # documents of fewer than 4 characters are not sniffed (pinned by the repository's tests)
    sniff = None if short else (bomname or (declared.lower() if declared else None))
    sniff_default = None if short else (sniff or 'utf-8')
    if cls == 'absent-response':
        # "If no media type is given the XML encoding pseudo attribute is used if present"
        cls = 'appxml' if '<?xml version=' in doc[:30] else 'other'
    if cls == 'absent-header':
        cls = 'text'
    if cls == 'absent-type':
        cls = 'other'
    if cls == 'appxml':
        return http_enc or sniff_default, sniff_default, None
    if cls == 'textxml':
        return http_enc or 'ascii', None, None
    if cls == 'html':
        return http_enc or meta_enc or 'iso-8859-1', sniff, meta_enc
    if cls == 'css':
        return http_enc or 'utf-8', None, None
    if cls == 'text':
        return http_enc or 'iso-8859-1', None, meta_enc
    return http_enc, None, None


def known(x):
    return bool(x)


def mismatch_rule(h, x, m):
    return ((known(h) and known(x) and h != x) or (known(h) and known(m) and h != m)
            or (known(x) and known(m) and x != m))


def make_response(cls, mt, charset, stub):
    """-> response object or None"""
    if cls == 'absent-response':
        return None
    if cls == 'absent-type':
        return Resp(RawInfo(None, charset))
    if stub:
        return Resp(RawInfo(mt, charset))
    if cls == 'absent-header':
        return Resp(header_info(None))
    if charset is None:
        return Resp(header_info(mt))
    return Resp(header_info('%s; charset="%s"' % (mt, charset)))


def observe(ctx, resp, text, case, own_log=True):
    """run the implementation; returns the five reported attributes or None"""
    try:
        i = call_info(resp, text, own_log)
    except Exception as e:
        ctx.violation('raises-bytes' if case.get('bytes') else 'raises', case,
                      'getEncodingInfo raised %s: %s' % (type(e).__name__, e), KNOWN_PRED)
        return None
    return (i.encoding, bool(i.mismatch), i.http_encoding, i.xml_encoding, i.meta_encoding)


def general_oracles(ctx, obs, case):
    """what the property says about the reported attributes, whatever the input"""
    enc, mm, h, x, m = obs
    for name, v in (('encoding', enc), ('http_encoding', h), ('xml_encoding', x), ('meta_encoding', m)):
        if v is not None and (not isinstance(v, str) or v != v.lower()):
            ctx.violation('lowercase', case, '%s = %r is not lower-case' % (name, v), KNOWN_PRED)
    if mm != mismatch_rule(h, x, m):
        ctx.violation('mismatch', case, 'mismatch=%r but sources http=%r xml=%r meta=%r' % (mm, h, x, m), KNOWN_PRED)


def model_input(ctx, resp, text):
    """inputs of the model: what the stdlib extractors report"""
    import encutils
    if resp is None:
        head = [0] + opt(None) + opt(None)
    else:
        mt, cs = encutils.getHTTPInfo(resp)
        head = [1] + opt(mt) + opt(cs)
    meta = encutils.getMetaInfo(text)[1]
    return [204] + head + opt(meta) + units(text)


def want_info(obs):
    enc, mm, h, x, m = obs
    return opt(enc) + [1 if mm else 0] + opt(h) + opt(x) + opt(m)


def exhaustive_table(ctx, model_cases, wants, cases):
    n = 0
    classes = set()
    for cls, mt in MEDIA:
        for charset in CHARSETS:
            if cls == 'absent-response' and charset is not None:
                continue
            if cls == 'absent-header' and charset is not None:
                continue
            for xml in XMLS:
                for meta in METAS:
                    if xml == 'short' and meta is not None:
                        continue
                    doc, bomname, declared = build_doc(xml, meta)
                    for as_bytes in (False, True):
                        for stub in ((False, True) if cls not in ('absent-response', 'absent-type', 'absent-header') else (False,)):
                            case = {'class': cls, 'media_type': mt, 'charset': charset, 'xml': xml, 'meta': meta,
                                    'bytes': as_bytes, 'stub': stub, 'doc': doc}
                            text = as_text(doc, as_bytes)
                            resp = make_response(cls, mt, charset, stub)
                            ctx.case(('table', cls, mt, charset, xml, meta, as_bytes, stub))
                            classes.add((cls, charset is not None and charset != '', xml, meta, as_bytes))
                            n += 1
                            obs = observe(ctx, resp, text, case, own_log=(n % 7 != 0))
                            if obs is None:
                                continue
                            exp_enc, exp_xml, exp_meta = documented(cls, charset, doc, bomname, declared, meta, xml == 'short')
                            enc, mm, h, x, m = obs
                            if (enc or None) != exp_enc:
                                ctx.violation('precedence-bytes' if as_bytes else 'precedence', case,
                                              'encoding %r, documented rules give %r (http=%r xml=%r meta=%r)' % (enc, exp_enc, h, x, m), KNOWN_PRED)
                            if (h or None) != (charset.lower() if charset else None):
                                ctx.violation('http-charset', case, 'http_encoding %r for charset %r' % (h, charset), KNOWN_PRED)
                            if x != exp_xml:
                                ctx.violation('xml-source-bytes' if as_bytes else 'xml-source', case,
                                              'xml_encoding %r, sniffing rule gives %r' % (x, exp_xml), KNOWN_PRED)
                            if (m or None) != exp_meta:
                                ctx.violation('meta-source-bytes' if as_bytes else 'meta-source', case,
                                              'meta_encoding %r, document declares %r' % (m, exp_meta), KNOWN_PRED)
                            general_oracles(ctx, obs, case)
                            try:
                                model_cases.append(model_input(ctx, resp, text))
                            except Exception as e:
                                ctx.violation('raises-bytes' if as_bytes else 'raises', case, 'extractor raised %s: %s' % (type(e).__name__, e), KNOWN_PRED)
                                continue
                            wants.append(want_info(obs))
                            cases.append(case)
    return n, len(classes)


# ---------------------------------------------------------------- media types

MT_BASE = [m for _, m in MEDIA if m] + [
    'application/atom+xml', 'application/xml-dtdx', 'application/xmlx', 'application/+xml', 'application/x+xml2', 'application/a+xmlb+xml',
    'application/.*?\\+xml', 'text\\/.*?\\+xml', 'text/.*?\\+xml', 'text/+xml', 'text/a+xml+b', 'text/xmlx', 'text/htmlx', 'text/html+xml',
    'text/css+xml', 'text/cssx', 'text/', 'text', 'texts/plain', 'xtext/html', 'application/xhtml', 'application', 'x/x', 'ANYTHING',
    'application/x\n+xml', 'text/\n+xml', 'applicatıon/x+xml', 'applİcation/x+xml', 'text/ſtyle+xml', 'TEXT/KML',
    'application/K+xml', 'text/xmℓ']
MT_SPACE = ['', ' ', '  ', '\t', '\n', '\r\n', '\x0b', '\x0c', '\x1c', '\x1f', '\x85', '\xa0', ' ', '　', '​', '﻿']


def gen_media_type(rng):
    r = rng.random()
    if r < 0.03:
        return None
    if r < 0.06:
        return rng.choice(['', ' ', '\t\n'])
    s = rng.choice(MT_BASE)
    if rng.random() < 0.4:
        s = ''.join(c.upper() if rng.random() < 0.5 else c.lower() for c in s)
    if rng.random() < 0.2:
        i = rng.randrange(len(s) + 1)
        s = s[:i] + rng.choice(['+xml', 'x', '/', '+', ' ', 'XML', 'text/', '-dtd', '\n']) + s[i:]
    return rng.choice(MT_SPACE) + s + rng.choice(MT_SPACE)


def ref_class(mt):
    """documented classes for clean media types (lower-case, no parameters)"""
    if mt in ('application/xml', 'application/xml-dtd', 'application/xml-external-parsed-entity') or (
            mt.startswith('application/') and mt.endswith('+xml')):
        return 'appxml'
    if mt in ('text/xml', 'text/xml-external-parsed-entity') or (mt.startswith('text/') and mt.endswith('+xml')):
        return 'textxml'
    if mt == 'text/html':
        return 'html'
    if mt == 'text/css':
        return 'css'
    if mt.startswith('text/'):
        return 'text'
    return 'other'


DOC_DEFAULT = {'appxml': 'utf-8', 'textxml': 'ascii', 'html': 'iso-8859-1', 'css': 'utf-8', 'text': 'iso-8859-1', 'other': None}


def media_types(ctx, n):
    import encutils
    rng = ctx.rng
    mts = [m for _, m in MEDIA if m] + [None, ''] + MT_BASE + [gen_media_type(rng) for _ in range(n)]
    code = {'appxml': encutils._XML_APPLICATION_TYPE, 'textxml': encutils._XML_TEXT_TYPE, 'html': encutils._HTML_TEXT_TYPE,
            'css': encutils._TEXT_UTF8, 'text': encutils._TEXT_TYPE, 'other': encutils._OTHER_TYPE}
    mc, want, cs = [], [], []
    for mt in mts:
        case = {'media_type': mt}
        ctx.case(('mt', mt))
        try:
            t = encutils._getTextTypeByMediaType(mt)
            d = encutils.encodingByMediaType(mt)
        except Exception as e:
            ctx.violation('classify-raises', case, '%s: %s' % (type(e).__name__, e), KNOWN_PRED)
            continue
        # oracle: clean media types of the documented families (any case, surrounding blanks)
        if mt is not None:
            clean = mt.strip(' \t').lower()
            if clean in [m.lower() for _, m in MEDIA if m] or clean in ('application/atom+xml', 'x/x', 'anything'):
                if t != code[ref_class(clean)] or d != DOC_DEFAULT[ref_class(clean)]:
                    ctx.violation('media-class', case, 'type %r default %r, documented class %s' % (t, d, ref_class(clean)), KNOWN_PRED)
        if d is not None and d != d.lower():
            ctx.violation('lowercase', case, 'default %r' % d, KNOWN_PRED)
        mc.append([200] + opt(mt))
        want.append([t])
        cs.append(('classify', case))
        mc.append([201] + opt(mt))
        want.append(opt(d))
        cs.append(('default', case))
    return mc, want, cs


# ---------------------------------------------------------------- sniffers

NAMES = ['utf-8', 'UTF-8', 'ISO-8859-1', 'x', 'Latin1', 'windows-1252', 'a b', 'U\xc4\xd6', 'KK', 'İx', 'ascii', 'Shift_JIS', '=']
QUOTES = ['"', "'"]


def gen_decl(rng, linebreak=False):
    """a well-formed XML declaration -> (text, declared name)"""
    ws = lambda: rng.choice([' ', ' ', '  ', '\t', ' \t '] + (['\n', ' \n ', '\r\n'] if linebreak else []))  # noqa: E731
    q = rng.choice(QUOTES)
    name = rng.choice(NAMES)
    q2 = rng.choice(QUOTES)
    s = '<?xml' + ws() + 'version=' + q2 + '1.0' + q2 + ws() + 'encoding=' + q + name + q
    if rng.random() < 0.4:
        s += ws() + 'standalone=' + q2 + 'yes' + q2
    if rng.random() < 0.5:
        s += ws()
    return s + '?>', name


SOUP = ['<?xml', '<?XML', '?>', ' ', '\n', 'version=', '"1.0"', "'1.0'", 'encoding=', 'encoding', '=', '"', "'", 'utf-8', 'X', '<', '>',
        '\xef\xbb\xbf', '\xfe\xff', '\xff\xfe', '\x00\x00', '\xfe', '\xff', '\x00', '\xef\xbb', '<?xml version=', 'a', '<?pi encoding="Z"?>',
        '<meta http-equiv="Content-Type" content="text/html;charset=M">', '<x encoding="ascii"/>', '€', 'Ā', 'ENCODING="Q"', '\t']


def gen_sniff_doc(rng):
    """-> (doc, expected or None) ; expected = (bom name | None, declared | None) when the document is
    structured enough for the documented rule to be stated without the regex"""
    r = rng.random()
    if r < 0.45:
        lb = rng.random() < 0.15
        decl, name = gen_decl(rng, lb)
        bom = rng.choice(BOM_NAMES) if rng.random() < 0.3 else None
        rest = rng.choice(['', '<a/>', '\n<html></html>', '<x y="z"/>\n', '<a>€</a>'])
        doc = (bom[0] if bom else '') + decl + rest
        return doc, (bom[1] if bom else None, name)
    if r < 0.55:
        # no declaration at all
        bom = rng.choice(BOM_NAMES) if rng.random() < 0.5 else None
        body = rng.choice(['<html><body>abc</body></html>', 'body { color: red }', 'abcd', '<a b="c"/>    ', 'plain text\nmore'])
        return (bom[0] if bom else '') + body, (bom[1] if bom else None, None)
    if r < 0.65:
        # declaration that crosses / exceeds the 2 KB window
        k = rng.choice([1990, 2000, 2010, 2020, 2030, 2040, 2048, 2060])
        return '<?xml version="1.0"' + ' ' * (k - 19) + 'encoding="late"?><a/>', None
    return ''.join(rng.choice(SOUP) for _ in range(rng.randrange(0, 14))), None


def ref_bom(doc):
    for b, name in BOM_NAMES:   # four-byte marks first
        if doc.startswith(b):
            return name
    return None


def sniff_case(ctx, doc, expected, kind, pos, incl, mc, want, cs):
    """kind: 'str' | 'bytes' | 'stringio' | 'bytesio'"""
    import encutils
    if kind in ('bytes', 'bytesio'):
        try:
            raw = doc.encode('latin-1')
        except UnicodeEncodeError:
            kind = 'str' if kind == 'bytes' else 'stringio'
    case = {'doc': doc, 'as': kind, 'pos': pos, 'includeDefault': incl}
    ctx.case(('sniff', doc, kind, pos, incl))
    if kind == 'str':
        arg, fp = doc, None
    elif kind == 'bytes':
        arg, fp = raw, None
    elif kind == 'stringio':
        arg = fp = io.StringIO(doc)
    else:
        arg = fp = io.BytesIO(raw)
    if fp is not None:
        fp.seek(pos)
    else:
        pos = 0
    try:
        got = ('ret', encutils.detectXMLEncoding(arg, includeDefault=incl))
    except ValueError as e:
        got = ('raise', 'ValueError')
        ctx.violation('sniff-raises', case, 'detectXMLEncoding raised ValueError: %s' % e, KNOWN_PRED)
    except Exception as e:
        ctx.violation('sniff-raises-bytes' if kind in ('bytes', 'bytesio') else 'sniff-raises', case,
                      'detectXMLEncoding raised %s: %s' % (type(e).__name__, e), KNOWN_PRED)
        return
    newpos = fp.tell() if fp is not None else 0
    if fp is not None and newpos != pos:
        ctx.violation('sniff-position', case, 'stream position %d before, %d after' % (pos, newpos), KNOWN_PRED)
    if got[0] == 'ret':
        v = got[1]
        bom = ref_bom(doc)
        if v is not None and v != v.lower():
            ctx.violation('lowercase', case, 'sniffed %r' % v, KNOWN_PRED)
        if bom is not None and v != bom:
            ctx.violation('sniff-bom', case, 'document starts with the %s mark, sniffed %r' % (bom, v), KNOWN_PRED)
        if expected is not None and bom is None:
            declared = expected[1]
            if declared is not None and v != declared.lower():
                ctx.violation('sniff-declared', case, 'declared %r, sniffed %r' % (declared, v), KNOWN_PRED)
            if declared is None and v != ('utf-8' if incl else None):
                ctx.violation('sniff-default', case, 'nothing declared, sniffed %r' % v, KNOWN_PRED)
    mc.append([203, 1 if incl else 0, pos] + s2n(doc))
    # the position of the internal stream of a str / bytes argument is not observable
    want.append(([0] if got[0] == 'raise' else [1] + opt(got[1])) + [newpos if fp is not None else None])
    cs.append(('detect', case))


def sniffers(ctx, n):
    import encutils
    rng = ctx.rng
    mc, want, cs = [], [], []
    fixed = [('', None), ('a', None), ('ab', None), ('abc', None), ('\xfe\xff', None), ('\xef\xbb\xbf', None), ('abcd', (None, None)),
             ('\xef\xbb\xbfa', ('utf-8', None)), ('\x00\x00\xfe\xff', ('utf_32_be', None)), ('\xff\xfe\x00\x00', ('utf_32_le', None)),
             ('\xff\xfe\x00a', ('utf_16_le', None)), ('<?xml version="1.0"?><x encoding="ascii"/>', (None, None)),
             ("<?xml version='1.0'\n encoding='x'?>", (None, 'x')),
             # a declaration without an encoding, followed on later lines by an encoding="..." attribute and a '?>'
             ('<?xml version="1.0"?>\n<x encoding="koi8-r"/>\n<?pi ?>', (None, None)),
             ('<?xml version="1.0" standalone="yes"?>\n<root>\n <data encoding=\'base64\'>QQ==</data>\n <?xml-stylesheet href="a.css"?>\n</root>', (None, None)),
             ('<?xml version="1.0"?>\r\n<!-- encoding="x" ?> -->', (None, None))]
    docs = fixed + [gen_sniff_doc(rng) for _ in range(n)]
    for doc, expected in docs:
        kind = rng.choice(['str', 'bytes', 'stringio', 'bytesio'])
        pos = rng.choice([0, 0, 1, 3, 4, 5, len(doc), len(doc) + 3, rng.randrange(0, len(doc) + 1)])
        sniff_case(ctx, doc, expected, kind, pos, rng.random() < 0.7, mc, want, cs)
        # _getTextType
        text = doc
        if rng.random() < 0.4:
            try:
                text = doc.encode('latin-1')
            except UnicodeEncodeError:
                pass
        try:
            t = encutils._getTextType(text)
        except Exception as e:
            ctx.violation('texttype-raises', {'doc': doc}, '%s: %s' % (type(e).__name__, e), KNOWN_PRED)
            continue
        mc.append([202] + s2n(doc))
        want.append([t])
        cs.append(('texttype', {'doc': doc}))
    return mc, want, cs


META_SOUP = ['<meta', ' http-equiv', '=', '"Content-Type"', "'content-type'", ' content', '"text/html; charset=M"', "'text/html;charset=N'", '>', '/>',
             '<', '<!', '<![', '<![x[', ']]>', '<!--', '-->', '<!DOCTYPE html>', '</ >', '<a b>', ' checked', ' ', '\n', '<?', '?>', '<script>', '</script>',
             '"', "'", 'x', '<META', ' HTTP-EQUIV=Content-Type', ' CONTENT="text/html; CHARSET=Iso-X"', '<meta charset="utf-8">', '&amp;', '<![CDATA[']


def gen_meta_doc(rng):
    """-> (doc, expected charset or 'unknown')"""
    r = rng.random()
    if r < 0.5:
        name = rng.choice(['utf-8', 'ISO-8859-1', 'Shift_JIS', 'x'])
        q = rng.choice(QUOTES)
        attrs = ['http-equiv=%s%s%s' % (q, rng.choice(['Content-Type', 'content-type', 'CONTENT-TYPE', ' Content-Type ']), q),
                 'content=%s%s;%scharset=%s%s' % (q, rng.choice(['text/html', 'application/xhtml+xml', ' text/html ']), rng.choice(['', ' ']), name, q)]
        extra = rng.choice([[], ['itemscope'], ['data-x'], ['id="m"']])     # value-less attributes are legal HTML
        attrs = attrs + extra
        rng.shuffle(attrs)
        tag = rng.choice(['meta', 'META', 'Meta'])
        before = rng.choice(['', '<html><head>', '<!DOCTYPE html>\n<html>', '<meta name="a" content="b">', '<meta charset="q">', '<title>t</title>',
                             '<meta itemscope name=k>'])
        doc = before + '<' + tag + ' ' + ' '.join(attrs) + rng.choice(['>', '/>', ' >']) + rng.choice(['', '</head>', '<meta http-equiv="content-type" content="a/b;charset=later">'])
        return doc, name.lower()
    return ''.join(rng.choice(META_SOUP) for _ in range(rng.randrange(0, 12))), 'unknown'


def meta_sniffer(ctx, n):
    import encutils
    rng = ctx.rng
    for _ in range(n):
        doc, exp = gen_meta_doc(rng)
        as_bytes = rng.random() < 0.4
        case = {'doc': doc, 'bytes': as_bytes}
        ctx.case(('meta', doc, as_bytes))
        try:
            mt, enc = encutils.getMetaInfo(as_text(doc, as_bytes))
        except Exception as e:
            ctx.violation('meta-raises-bytes' if as_bytes else 'meta-raises', case, 'getMetaInfo raised %s: %s' % (type(e).__name__, e), KNOWN_PRED)
            continue
        if exp != 'unknown' and enc != exp:
            ctx.violation('meta-charset', case, 'first content-type meta declares %r, reported %r' % (exp, enc), KNOWN_PRED)
        if enc is not None and enc != enc.lower():
            ctx.violation('lowercase', case, 'meta charset %r' % enc, KNOWN_PRED)


def random_rows(ctx, n, model_cases, wants, cases):
    """random response / document combinations: attribute-level oracles + correspondence"""
    rng = ctx.rng
    clean = [m for _, m in MEDIA if m] + ['application/atom+xml', 'text/x-foo', 'video/mp4']
    for _ in range(n):
        r = rng.random()
        as_bytes = rng.random() < 0.4
        doc = gen_sniff_doc(rng)[0] if rng.random() < 0.6 else gen_meta_doc(rng)[0]
        if rng.random() < 0.3:
            doc = doc + gen_meta_doc(rng)[0]
        if as_bytes:
            try:
                doc.encode('latin-1')
            except UnicodeEncodeError:
                as_bytes = False
        charset = rng.choice([None, None, 'utf-8', 'UTF-8', 'x', 'M', 'late', 'Iso-X', 'utf_16_le', ''])
        if r < 0.1:
            resp, mt = None, None
        elif r < 0.55:
            mt = rng.choice(clean)
            mt = mt.upper() if rng.random() < 0.2 else mt
            resp = Resp(header_info(mt if charset is None else '%s;charset=%s' % (mt, charset)))
        else:
            mt = gen_media_type(rng)
            resp = Resp(RawInfo(mt, charset))
        case = {'media_type': mt, 'charset': charset, 'doc': doc, 'bytes': as_bytes, 'response': resp is not None}
        text = as_text(doc, as_bytes)
        ctx.case(('row', mt, charset, doc, as_bytes, resp is not None))
        obs = observe(ctx, resp, text, case)
        if obs is None:
            continue
        general_oracles(ctx, obs, case)
        enc, mm, h, x, m = obs
        if resp is not None and mt is not None and mt.lower() in [c.lower() for c in clean]:
            cls = ref_class(mt.lower())
            chain = {'appxml': [h, x], 'textxml': [h, 'ascii'], 'html': [h, m, 'iso-8859-1'], 'css': [h, 'utf-8'],
                     'text': [h, 'iso-8859-1'], 'other': [h]}[cls]
            exp = next((v for v in chain if v), None)
            if (enc or None) != exp:
                ctx.violation('precedence-bytes' if as_bytes else 'precedence', case,
                              'encoding %r; first known of the documented sources %r is %r' % (enc, chain, exp), KNOWN_PRED)
        try:
            model_cases.append(model_input(ctx, resp, text))
        except Exception as e:
            ctx.violation('raises-bytes' if as_bytes else 'raises', case, 'extractor raised %s: %s' % (type(e).__name__, e), KNOWN_PRED)
            continue
        wants.append(want_info(obs))
        cases.append(case)


# ---------------------------------------------------------------- run

def run(ctx):
    from harness import impl
    impl.reset()
    quick = ctx.tier == 'quick'
    ctx.cov['rule'] = ('(1) the complete table: %d media types in 9 classes (application/xml family, text/xml family, text/html, text/css, other text, '
                       'other, no header, no media type, no response) x charset {absent, utf-8, ISO-B, empty} x XML {absent, declaration utf-8, declaration ISO-B, '
                       'declaration without encoding, BOM, BOM+declaration, short document} x meta {absent, utf-8, Iso-B, without charset} x text/bytes x '
                       'real header / stub message; (2) media-type strings (families, case, blanks, near misses); (3) random documents and streams for '
                       'detectXMLEncoding, _getTextType, getMetaInfo; (4) random response/document rows. distinct = distinct inputs; all non-trivial'
                       % len(MEDIA))
    mc, wants, cases = [], [], []
    nrows, nclasses = exhaustive_table(ctx, mc, wants, cases)
    if cases:
        ctx.sample({k: v for k, v in cases[len(cases) // 3].items()})
    ctx.extra['exhaustive'] = True
    ctx.extra['table'] = {'rows': nrows, 'abstract_cells': nclasses, 'media': len(MEDIA), 'charsets': len(CHARSETS), 'xml': len(XMLS),
                          'meta': len(METAS), 'forms': ['text', 'bytes'], 'responses': ['real header', 'stub message', 'none']}
    random_rows(ctx, 6000 if quick else 300000, mc, wants, cases)
    info_cases = [('info', c) for c in cases]
    m2, w2, c2 = media_types(ctx, 4000 if quick else 150000)
    m3, w3, c3 = sniffers(ctx, 8000 if quick else 500000)
    meta_sniffer(ctx, 8000 if quick else 500000)
    ctx.sample(c3[len(c3) // 2][1])
    allm, allw, allc = mc + m2 + m3, wants + w2 + w3, info_cases + c2 + c3
    if ctx.model.available:
        outs = ctx.model.run(allm)
        agree = {}
        total = {}
        for want, o, (what, case) in zip(allw, outs, allc):
            total[what] = total.get(what, 0) + 1
            if want and want[-1] is None and o:
                want, o = want[:-1], o[:-1]
            if o == want:
                agree[what] = agree.get(what, 0) + 1
            else:
                ctx.disagree(what, case, want[:80], (o or [])[:80])
        ctx.extra['correspondence'] = {k: {'cases': total[k], 'agree': agree.get(k, 0)} for k in total}
    else:
        ctx.broken.append(('correspondence', 'extracted model not available'))


def replay(path):
    import encutils
    d = json.load(open(path))
    case = d.get('case', {})
    print(json.dumps(d, indent=1)[:2500])
    doc = case.get('doc')
    if doc is None:
        if 'media_type' in case:
            print('_getTextTypeByMediaType ->', encutils._getTextTypeByMediaType(case['media_type']))
        return 0
    text = as_text(doc, case.get('bytes') or case.get('as') in ('bytes', 'bytesio'))
    if 'as' in case:
        try:
            print('detectXMLEncoding ->', encutils.detectXMLEncoding(text, includeDefault=case.get('includeDefault', True)))
        except Exception as e:
            print('detectXMLEncoding raises %s: %s' % (type(e).__name__, e))
        return 0
    if 'class' in case:
        resp = make_response(case['class'], case['media_type'], case['charset'], case.get('stub', False))
    elif case.get('response'):
        resp = Resp(RawInfo(case.get('media_type'), case.get('charset')))
    else:
        resp = None
    try:
        i = call_info(resp, text)
        print('getEncodingInfo ->', i.encoding, i.mismatch, i.http_encoding, i.xml_encoding, i.meta_encoding)
    except Exception as e:
        print('getEncodingInfo raises %s: %s' % (type(e).__name__, e))
    return 0
