"""C11 — a rejected DOM mutation changes nothing.

Coq: Model/Atomic.v (phase models of the mutators), Proofs/AtomicFacts.v,
Props/C11.v.

Search (the property itself, independent of the model): every public mutator
of every DOM class x inputs rejected at every stage (garbage injected at every
token boundary of otherwise valid new content; bad index / hierarchy /
namespace / not-found arguments) x varied prior state, in raising mode.
Whenever the call raises xml.dom.DOMException the serialisation of the target,
of every enclosing rule and of the sheet and the structural lists must be
identical to before.  Read-only objects must reject every mutator with
NoModificationAllowedErr and stay unchanged.

Correspondence: for "clean" rejections (the failing check is known by
construction) the extracted phase model predicts the outcome, the error class
and the set of fields committed before the rejection; the implementation must
show the same outcome, class and changed fields.
"""
import json
import re

from harness import core

GEN = []

MANIFEST = dict(
    text='Machine-checked (Coq, closed under the global context): for every mutator whose phase list passes the decidable '
         'predicate commits_after_checks (no observable, unprotected field assignment precedes a rejection point; a snapshot '
         'taken by the mutator is restored on rejection), a rejected step leaves the observation unchanged, for every state and '
         'every input (which checks fail, how many nested items the new content has); the predicate is computed per mutator '
         '(vm_compute, plus an induction for the nested-item loops); every mutator of a read-only object rejects with '
         'NoModificationAllowedErr without a commit.  The pinned phase lists of the setters that commit early are refuted with '
         'witness traces.  The phase lists are hand-made and tied to the implementation by correspondence on rejections whose '
         'failing check is known by construction (outcome, error class, set of changed fields).  The exception-atomicity oracle '
         'runs on the implementation directly and does not depend on the model.',
    note='Trusted: Coq kernel + vm_compute; extraction + driver; the hand-made phase abstraction (which assignment happens '
         'before which rejection point), validated by the correspondence only; the observation function of the harness '
         '(cssText of target / enclosing rules / sheet, rule types, property, selector, media lists, namespaces).',
    design='7/C11')

RULE_T = dict(unknown=0, style=1, charset=2, imp=3, media=4, fontface=5, page=6, namespace=10, comment=1001,
              margin=1006, variables=1008)

# ------------------------------------------------------------------ observation


def q(f):
    """a query that never raises: observation must be total"""
    try:
        return f()
    except Exception as e:  # noqa
        return ('!raises', type(e).__name__)


def obs_pv(pv):
    return ('pv', q(lambda: pv.cssText), q(lambda: tuple(v.cssText for v in pv)))


def obs_prop(p):
    return ('prop', q(lambda: p.cssText), q(lambda: p.name), q(lambda: p.literalname), q(lambda: p.value),
            q(lambda: p.priority))


def obs_decl(d):
    return ('decl', q(lambda: d.cssText),
            q(lambda: tuple((p.name, p.propertyValue.cssText, p.priority) for p in d.getProperties(all=True))),
            q(lambda: tuple(d.keys())), q(lambda: d.length))


def obs_sel(s):
    return ('sel', q(lambda: s.selectorText))


def obs_sellist(sl):
    return ('sellist', q(lambda: sl.selectorText), q(lambda: tuple(s.selectorText for s in sl)), q(lambda: sl.length))


def obs_mq(m):
    return ('mq', q(lambda: m.mediaText), q(lambda: m.mediaType))


def _mqs(ml):
    # iterating a MediaList yields seq items whose value is the MediaQuery
    return [getattr(m, 'value', m) for m in ml]


def obs_ml(ml):
    return ('ml', q(lambda: ml.mediaText), q(lambda: tuple(m.mediaText for m in _mqs(ml))), q(lambda: ml.length))


def obs_vars(v):
    return ('vars', q(lambda: v.cssText), q(lambda: tuple((k, v.getVariableValue(k)) for k in v.keys())))


def obs_ns(ns):
    return ('ns', q(lambda: tuple(sorted(dict(ns.items()).items()))))


def obs_rule(r):
    import cssutils
    C = cssutils.css.CSSRule
    T = q(lambda: r.type)
    base = ('rule', T, q(lambda: r.cssText))
    if T == C.STYLE_RULE:
        return base + (obs_sellist(r.selectorList), obs_decl(r.style))
    if T == C.CHARSET_RULE:
        return base + (q(lambda: r.encoding),)
    if T == C.IMPORT_RULE:
        return base + (q(lambda: r.href), obs_ml(r.media), q(lambda: r.name))
    if T == C.NAMESPACE_RULE:
        return base + (q(lambda: r.prefix), q(lambda: r.namespaceURI))
    if T == C.MEDIA_RULE:
        return base + (obs_ml(r.media), q(lambda: r.name), q(lambda: tuple(obs_rule(x) for x in r.cssRules)))
    if T == C.FONT_FACE_RULE:
        return base + (obs_decl(r.style),)
    if T == C.PAGE_RULE:
        return base + (q(lambda: r.selectorText), obs_decl(r.style), q(lambda: tuple(obs_rule(x) for x in r.cssRules)))
    if T == C.MARGIN_RULE:
        return base + (q(lambda: r.margin), obs_decl(r.style))
    if T == C.VARIABLES_RULE:
        return base + (obs_vars(r.variables),)
    if T == C.UNKNOWN_RULE:
        return base + (q(lambda: r.atkeyword),)
    return base


def links(container, sheet, parent_rule):
    """the parent links below a sheet / container rule: each rule names its sheet and its containing rule, each
    declaration block its rule (part of what a rejected mutation must leave as it was)"""
    out = []
    for r in getattr(container, 'cssRules', None) or ():
        ok = [r.parentStyleSheet is sheet, r.parentRule is parent_rule]
        st = getattr(r, 'style', None)
        if st is not None:
            ok.append(st.parentRule is r)
        out.append((tuple(ok), links(r, sheet, r)))
    return tuple(out)


def obs_sheet(s):
    return ('sheet', q(lambda: s.cssText), q(lambda: tuple(r.type for r in s.cssRules)),
            q(lambda: tuple(obs_rule(r) for r in s.cssRules)), obs_ns(s.namespaces), q(lambda: s.encoding),
            q(lambda: links(s, s, None)),
            q(lambda: tuple(sorted((k_, s.variables.getVariableValue(k_)) for k_ in s.variables.keys()))))


def obs_any(o):
    import cssutils
    from cssutils import css, stylesheets
    if isinstance(o, css.CSSStyleSheet):
        return obs_sheet(o)
    if isinstance(o, css.CSSRule):
        return obs_rule(o)
    if isinstance(o, css.CSSStyleDeclaration):
        return obs_decl(o)
    if isinstance(o, css.Property):
        return obs_prop(o)
    if isinstance(o, css.PropertyValue):
        return obs_pv(o)
    if isinstance(o, css.SelectorList):
        return obs_sellist(o)
    if isinstance(o, css.Selector):
        return obs_sel(o)
    if isinstance(o, stylesheets.MediaList):
        return obs_ml(o)
    if isinstance(o, stylesheets.MediaQuery):
        return obs_mq(o)
    if isinstance(o, css.CSSVariablesDeclaration):
        return obs_vars(o)
    if isinstance(o, cssutils.util._Namespaces):
        return obs_ns(o)
    return ('other', repr(type(o)))


def fields_of(o):
    """the observable fields of an object, by the names used in Model/Atomic.v"""
    import cssutils
    from cssutils import css, stylesheets
    C = css.CSSRule
    if isinstance(o, css.CSSStyleSheet):
        return {'rules': q(lambda: tuple(obs_rule(r) for r in o.cssRules)), 'namespaces': obs_ns(o.namespaces)}
    if isinstance(o, css.CSSRule):
        T = o.type
        if T == C.STYLE_RULE:
            return {'selectors': obs_sellist(o.selectorList), 'style': obs_decl(o.style)}
        if T == C.CHARSET_RULE:
            return {'encoding': q(lambda: o.encoding)}
        if T == C.IMPORT_RULE:
            return {'href': q(lambda: o.href), 'media': obs_ml(o.media), 'name': q(lambda: o.name)}
        if T == C.NAMESPACE_RULE:
            return {'prefix': q(lambda: o.prefix), 'uri': q(lambda: o.namespaceURI)}
        if T == C.MEDIA_RULE:
            return {'media': obs_ml(o.media), 'name': q(lambda: o.name),
                    'rules': q(lambda: tuple(obs_rule(x) for x in o.cssRules))}
        if T == C.FONT_FACE_RULE:
            return {'style': obs_decl(o.style)}
        if T == C.PAGE_RULE:
            return {'selectors': q(lambda: o.selectorText), 'style': obs_decl(o.style),
                    'rules': q(lambda: tuple(obs_rule(x) for x in o.cssRules))}
        if T == C.MARGIN_RULE:
            return {'margin': q(lambda: o.margin), 'style': obs_decl(o.style)}
        if T == C.VARIABLES_RULE:
            return {'vars': obs_vars(o.variables)}
        if T == C.UNKNOWN_RULE:
            return {'text': q(lambda: o.cssText)}
        if T == C.COMMENT:
            return {'text': q(lambda: o.cssText)}
    if isinstance(o, css.CSSStyleDeclaration):
        return {'items': obs_decl(o)}
    if isinstance(o, css.Property):
        return {'name': (q(lambda: o.name), q(lambda: o.literalname)), 'value': q(lambda: o.propertyValue.cssText),
                'priority': q(lambda: o.priority)}
    if isinstance(o, css.PropertyValue):
        return {'text': obs_pv(o)}
    if isinstance(o, css.SelectorList):
        return {'items': obs_sellist(o)}
    if isinstance(o, css.Selector):
        return {'text': obs_sel(o)}
    if isinstance(o, stylesheets.MediaList):
        return {'items': obs_ml(o), 'wellformed': q(lambda: o.wellformed)}
    if isinstance(o, stylesheets.MediaQuery):
        return {'text': q(lambda: o.mediaText), 'mediatype': q(lambda: o.mediaType)}
    if isinstance(o, css.CSSVariablesDeclaration):
        return {'vars': obs_vars(o)}
    if isinstance(o, cssutils.util._Namespaces):
        return {'namespaces': obs_ns(o)}
    return {}


# ------------------------------------------------------------------ worlds (prior state)

W_DECLS = ['color: red', 'top: 1px !important', 'margin: 0 auto', 'background: url(w.png)', 'left: 0', '/*wd*/ width: 5%',
           'font: 12px/1.5 "W", serif', 'color: blue !important', 'x-w: f(1, 2)']
W_SELS = ['wa', 'wa, wb > wc', '.wk:hover', '#wi', 'wa[wt="1"] + wb', '*', 'wa wb, wc', 'wp|wd', '*|we']
W_MEDIA = ['print', 'print, tv', 'screen and (min-width: 1px), tv', 'all', 'only screen']


def _decls(rng, lo=1, hi=3):
    return '; '.join(rng.choice(W_DECLS) for _ in range(rng.randrange(lo, hi + 1)))


def _stylerule(rng, ns):
    sel = rng.choice(W_SELS if ns else W_SELS[:7])
    return '%s { %s }' % (sel, _decls(rng))


def gen_world(rng, small=False, full=False):
    """a style sheet text holding every kind of rule, with randomly varied content
    (full: every optional part is present: @charset, @import, a used and an unused @namespace, @variables)"""
    ns = full or rng.random() < 0.7
    parts = []
    if full or rng.random() < 0.5:
        parts.append('@charset "utf-8";')
    if rng.random() < 0.4:
        parts.append('/*w0*/')
    if full or rng.random() < 0.6:
        parts.append('@import "w.css"%s;' % rng.choice(['', ' tv', ' print, tv', ' tv "wtitle"']))
    if ns:
        parts.append('@namespace wp "http://w/p";')
        if not full and rng.random() < 0.3:
            parts.append('@namespace "http://w/default";')
        if full or rng.random() < 0.4:
            parts.append('@namespace wq "http://w/q";')
    if full or rng.random() < 0.4:
        parts.append('@variables { wv: 1px; wz: red }')
    body = []
    for _ in range(rng.randrange(1, 3 if small else 4)):
        body.append(_stylerule(rng, ns))
    if ns:
        body.append('wp|wu { %s }' % _decls(rng))     # the prefix is in use
    nested = [_stylerule(rng, ns) for _ in range(rng.randrange(1, 3))]
    if rng.random() < 0.5:
        nested.insert(rng.randrange(len(nested) + 1), '@page { margin: 1cm }')
    if rng.random() < 0.3:
        nested.append('/*wn*/')
    body.append('@media %s%s { %s }' % (rng.choice(W_MEDIA), rng.choice(['', '', ' "wname"']), ' '.join(nested)))
    margins = ' '.join('@%s { %s }' % (m, _decls(rng, 1, 2)) for m in rng.sample(['top-left', 'bottom-center', 'right-top'],
                                                                             rng.randrange(1, 3)))
    body.append('@page%s { %s; %s }' % (rng.choice(['', ' :first', ' wpage', ' wpage:left']), _decls(rng, 1, 2), margins))
    body.append('@font-face { font-family: W; src: url(w.ttf)%s }' % rng.choice(['', '; font-weight: bold']))
    body.append(rng.choice(['@wunk x { y }', '@wunk z;', '@wunk (a) [b] { c { d } }']))
    if rng.random() < 0.4:
        body.append('/*w1*/')
    rng.shuffle(body)
    return '\n'.join(parts + body)


# detached objects (no sheet): name -> constructor source evaluated in eval_case
DETACHED = {
    'style': ["css.CSSStyleRule(selectorText='wa, wb', style='color: red; top: 1px')",
              "css.CSSStyleRule(selectorText=('wp|wa', {'wp': 'http://w/p'}), style='left: 0 !important')"],
    'media': ["mk(css.CSSMediaRule('print, tv'), 'wm { left: 0 } wn { top: 0 }')",
              "mk(css.CSSMediaRule('tv', name='wname'), 'wm { color: red }')"],
    'page': ["css.CSSPageRule(selectorText=':first', style='margin: 1cm')",
             "mk(css.CSSPageRule(selectorText='wpage', style='margin: 2cm'), '@top-left { content: \"w\" }')"],
    'imp': ["css.CSSImportRule(href='w.css', mediaText='tv', name='wtitle')", "css.CSSImportRule(href='w.css')"],
    'namespace': ["css.CSSNamespaceRule(namespaceURI='http://w/p', prefix='wp')",
                  "css.CSSNamespaceRule(namespaceURI='http://w/d')"],
    'charset': ["css.CSSCharsetRule(encoding='utf-8')", "css.CSSCharsetRule(encoding='ascii')"],
    'fontface': ["css.CSSFontFaceRule(style='font-family: W; src: url(w.ttf)')"],
    'unknown': ["css.CSSUnknownRule(cssText='@wunk x { y }')", "css.CSSUnknownRule(cssText='@wunk z;')"],
    'comment': ["css.CSSComment(cssText='/*w*/')"],
    'margin': ["css.MarginRule(margin='@top-left', style='content: \"w\"; color: red')"],
    'variables': ["css.CSSVariablesRule(variables=css.CSSVariablesDeclaration(cssText='wv: 1px; wz: red'))"],
    'decl': ["css.CSSStyleDeclaration(cssText='color: red; /*w*/ top: 1px !important; color: blue')",
             "css.CSSStyleDeclaration(cssText='')"],
    'prop': ["css.Property('color', 'red')", "css.Property('top', '1px', 'important')",
             "css.Property('font', '12px/1.5 \"W\", serif')"],
    'pv': ["css.PropertyValue(cssText='1px solid red')", "css.PropertyValue(cssText='url(w.png)')"],
    'sel': ["css.Selector('wa > wb')", "css.Selector(('wp|wa', {'wp': 'http://w/p'}))"],
    'sellist': ["css.SelectorList(selectorText='wa, wb > wc')",
                "css.SelectorList(selectorText=('wp|wa, wb', {'wp': 'http://w/p'}))"],
    'ml': ["stylesheets.MediaList(mediaText='print, tv')", "stylesheets.MediaList(mediaText='all')",
           "stylesheets.MediaList(mediaText='screen and (min-width: 1px), tv')"],
    'mq': ["stylesheets.MediaQuery(mediaText='print')", "stylesheets.MediaQuery(mediaText='only screen and (color)')"],
    'vardecl': ["css.CSSVariablesDeclaration(cssText='wv: 1px; wz: red')"],
    'sheet': ["css.CSSStyleSheet()"],
}
# read-only constructions of the same: the class takes readonly=True
RO_CTOR = {
    'style': "css.CSSStyleRule(selectorText='wa, wb', style='color: red; top: 1px', readonly=True)",
    'media': "css.CSSMediaRule('print, tv', name='wname', readonly=True)",
    'page': "css.CSSPageRule(selectorText=':first', style='margin: 1cm', readonly=True)",
    'imp': "css.CSSImportRule(href='w.css', mediaText='tv', name='wtitle', readonly=True)",
    'namespace': "css.CSSNamespaceRule(namespaceURI='http://w/p', prefix='wp', readonly=True)",
    'charset': "css.CSSCharsetRule(encoding='utf-8', readonly=True)",
    'fontface': "css.CSSFontFaceRule(style='font-family: W; src: url(w.ttf)', readonly=True)",
    'unknown': "css.CSSUnknownRule(cssText='@wunk x { y }', readonly=True)",
    'comment': "css.CSSComment(cssText='/*w*/', readonly=True)",
    'margin': "css.MarginRule(margin='@top-left', style='content: \"w\"', readonly=True)",
    'variables': "css.CSSVariablesRule(variables=css.CSSVariablesDeclaration(cssText='wv: 1px'), readonly=True)",
    'decl': "css.CSSStyleDeclaration(cssText='color: red; top: 1px !important', readonly=True)",
    'pv': "css.PropertyValue(cssText='1px solid red', readonly=True)",
    'sel': "css.Selector('wa > wb', readonly=True)",
    'sellist': "css.SelectorList(selectorText='wa, wb > wc', readonly=True)",
    'ml': "stylesheets.MediaList(mediaText='print, tv', readonly=True)",
    'mq': "stylesheets.MediaQuery(mediaText='print', readonly=True)",
    'vardecl': "css.CSSVariablesDeclaration(cssText='wv: 1px; wz: red', readonly=True)",
    'sheet': "css.CSSStyleSheet(readonly=True)",
}

# where a target of a given kind lives inside a world sheet: list of paths (each a list of steps)
IN_WORLD = {
    'sheet': [[]],
    'style': [[('rule', 'style', 0)], [('rule', 'style', -1)], [('rule', 'media', 0), ('rule', 'style', 0)]],
    'media': [[('rule', 'media', 0)]],
    'page': [[('rule', 'page', 0)], [('rule', 'media', 0), ('rule', 'page', 0)]],
    'imp': [[('rule', 'imp', 0)]],
    'namespace': [[('rule', 'namespace', 0)], [('rule', 'namespace', -1)]],
    'charset': [[('rule', 'charset', 0)]],
    'fontface': [[('rule', 'fontface', 0)]],
    'unknown': [[('rule', 'unknown', 0)]],
    'comment': [[('rule', 'comment', 0)], [('rule', 'media', 0), ('rule', 'comment', 0)]],
    'margin': [[('rule', 'page', 0), ('rule', 'margin', 0)]],
    'variables': [[('rule', 'variables', 0)]],
    'decl': [[('rule', 'style', 0), ('attr', 'style')], [('rule', 'media', 0), ('rule', 'style', 0), ('attr', 'style')],
             [('rule', 'page', 0), ('attr', 'style')], [('rule', 'fontface', 0), ('attr', 'style')],
             [('rule', 'page', 0), ('rule', 'margin', 0), ('attr', 'style')]],
    'prop': [[('rule', 'style', 0), ('attr', 'style'), ('prop', 0)], [('rule', 'style', -1), ('attr', 'style'), ('prop', -1)],
             [('rule', 'media', 0), ('rule', 'style', 0), ('attr', 'style'), ('prop', 0)],
             [('rule', 'fontface', 0), ('attr', 'style'), ('prop', 0)]],
    'pv': [[('rule', 'style', 0), ('attr', 'style'), ('prop', 0), ('attr', 'propertyValue')]],
    'sel': [[('rule', 'style', 0), ('attr', 'selectorList'), ('item', 0)],
            [('rule', 'media', 0), ('rule', 'style', 0), ('attr', 'selectorList'), ('item', -1)]],
    'sellist': [[('rule', 'style', 0), ('attr', 'selectorList')], [('rule', 'style', -1), ('attr', 'selectorList')],
                [('rule', 'media', 0), ('rule', 'style', 0), ('attr', 'selectorList')]],
    'ml': [[('rule', 'media', 0), ('attr', 'media')], [('rule', 'imp', 0), ('attr', 'media')]],
    'mq': [[('rule', 'media', 0), ('attr', 'media'), ('item', 0)]],
    'vardecl': [[('rule', 'variables', 0), ('attr', 'variables')]],
    'ns': [[('attr', 'namespaces')]],
}


def resolve(root, path):
    """follow a path; returns (object, [enclosing objects]) or (None, ...) if the world lacks it"""
    o = root
    chain = [root]
    for step in path:
        try:
            if step[0] == 'rule':
                rs = [r for r in o.cssRules if r.type == RULE_T[step[1]]]
                o = rs[step[2]]
            elif step[0] == 'attr':
                o = getattr(o, step[1])
            elif step[0] == 'item':
                o = list(o)[step[1]]
                if type(o).__name__ == 'Item':
                    o = o.value
            elif step[0] == 'prop':
                o = o.getProperties(all=True)[step[1]]
        except (IndexError, AttributeError):
            return None, chain
        if o is None:
            return None, chain
        chain.append(o)
    return o, chain


# ------------------------------------------------------------------ arguments and mutators

def mkarg(spec, target):
    """decode a JSON-able argument spec into the Python argument"""
    import cssutils
    from cssutils import css
    if isinstance(spec, dict):
        k, v = next(iter(spec.items()))
        if k == '$rule':        # a rule object parsed from text, not attached anywhere
            cls = {'@media': css.CSSMediaRule, '@page': css.CSSPageRule, '@import': css.CSSImportRule,
                   '@charset': css.CSSCharsetRule, '@font-face': css.CSSFontFaceRule, '@namespace': css.CSSNamespaceRule,
                   '@variables': css.CSSVariablesRule, '/*': css.CSSComment}
            for pre, c in cls.items():
                if v.startswith(pre):
                    r = c()
                    r.cssText = v
                    return r
            if v.startswith('@top-left') or v.startswith('@bottom'):
                r = css.MarginRule()
                r.cssText = v
                return r
            if v.startswith('@'):
                return css.CSSUnknownRule(cssText=v)
            r = css.CSSStyleRule()
            r.cssText = v
            return r
        if k == '$rulelist':
            rl = css.CSSRuleList()
            for t in v:
                list.append(rl, mkarg({'$rule': t}, target))
            return rl
        if k == '$ruleat':      # the rule object at that index of the target
            return target.cssRules[v]
        if k == '$tuple':
            return tuple(v)
        if k == '$decl':
            return css.CSSStyleDeclaration(cssText=v)
        if k == '$prop':
            return css.Property(*v)
        if k == '$sel':
            return css.Selector(v)
        if k == '$mq':
            return cssutils.stylesheets.MediaQuery(v)
        if k == '$int':
            return int(v)
        if k == '$none':
            return None
        if k == '$idxof':       # index of the first rule of that kind in the target
            return [r.type for r in target.cssRules].index(RULE_T[v])
        if k == '$idxofns':     # index of the @namespace rule with that prefix
            return [getattr(r, 'prefix', None) if r.type == 10 else None for r in target.cssRules].index(v)
        if k == '$emptyrule':   # a rule object that is not wellformed
            return css.CSSStyleRule()
        raise ValueError(spec)
    return spec


def _set(attr):
    return lambda t, a: setattr(t, attr, a[0])


def _setitem(t, a):
    t[a[0]] = a[1]


def _delitem(t, a):
    del t[a[0]]


def _call(name):
    return lambda t, a: getattr(t, name)(*a)


def _setprop_kw(t, a):
    t.setProperty(a[0], a[1], a[2], replace=False)


MUT = {
    # text / attribute setters
    'cssText': _set('cssText'), 'selectorText': _set('selectorText'), 'mediaText': _set('mediaText'),
    'style=': _set('style'), 'media=': _set('media'), 'name=': _set('name'), 'href=': _set('href'),
    'prefix=': _set('prefix'), 'namespaceURI=': _set('namespaceURI'), 'encoding=': _set('encoding'),
    'margin=': _set('margin'), 'variables=': _set('variables'), 'value=': _set('value'),
    'priority=': _set('priority'), 'propertyValue=': _set('propertyValue'), 'mediaType=': _set('mediaType'),
    'selectorList=': _set('selectorList'), 'atkeyword=': _set('atkeyword'),
    # dom-name attribute of a declaration block
    'attr:color': _set('color'), 'attr:marginLeft': _set('marginLeft'),
    # methods
    'insertRule': _call('insertRule'), 'add': _call('add'), 'deleteRule': _call('deleteRule'),
    'setProperty': _call('setProperty'), 'setProperty+': _setprop_kw, 'removeProperty': _call('removeProperty'),
    'appendSelector': _call('appendSelector'), 'append': _call('append'),
    'appendMedium': _call('appendMedium'), 'deleteMedium': _call('deleteMedium'),
    'setVariable': _call('setVariable'), 'removeVariable': _call('removeVariable'),
    '[]=': _setitem, 'del[]': _delitem,
}

# ------------------------------------------------------------------ evaluating one case (runs in a worker)


def build_root(world):
    import cssutils
    from cssutils import css, stylesheets  # noqa: F401  (used by eval)

    def mk(rule, text):
        for t in re.findall(r'[^{}]*\{[^{}]*\}', text):
            rule.insertRule(t.strip())
        return rule
    if world['kind'] == 'sheet':
        return cssutils.parseString(world['text'])
    if world['kind'] == 'fetch':    # a sheet whose @import targets resolve: n-bad.css has a syntax error
        files = {'w.css': 'wi { left: 0 }', 'n-ok.css': 'ni { left: 2px }', 'n-bad.css': 'ni { left: 2px } nj { top: $ }',
                 'n-bad2.css': '@import "n-bad.css"; ni { left: 2px }'}

        def fetcher(url):
            name = url.rsplit('/', 1)[-1]
            return (None, files[name]) if name in files else None
        return cssutils.CSSParser(fetcher=fetcher).parseString(world['text'], href='http://w/base.css')
    if world['kind'] == 'expr':
        return eval(world['expr'], {'css': css, 'stylesheets': stylesheets, 'mk': mk, 'cssutils': cssutils})
    raise ValueError(world)


def eval_case(case):
    """case: {world, path, readonly, mut, args} -> result dict (JSON-able)"""
    import xml.dom
    import cssutils  # noqa: F401
    from harness import impl
    impl.reset()
    res = {'skip': None}
    try:
        root = build_root(case['world'])
    except Exception as e:  # noqa
        res['skip'] = 'world: %s: %s' % (type(e).__name__, str(e)[:80])
        return res
    target, chain = resolve(root, [tuple(s) for s in case['path']])
    if target is None:
        res['skip'] = 'no-target'
        return res
    try:
        args = [mkarg(a, target) for a in case['args']]
    except Exception as e:  # noqa
        res['skip'] = 'arg: %s: %s' % (type(e).__name__, str(e)[:80])
        return res
    if case.get('readonly') == 'flag':
        target._readonly = True
    impl.reset()
    ftarget = root if case['kind'] == 'ns' else target     # the namespace mapping acts on its sheet
    before = [obs_any(o) for o in chain]
    fbefore = fields_of(ftarget)
    raised, msg, crash = None, '', None
    try:
        MUT[case['mut']](target, args)
    except xml.dom.DOMException as e:
        raised, msg = type(e).__name__, str(e)[:160]
    except Exception as e:  # noqa
        crash = '%s: %s' % (type(e).__name__, str(e)[:160])
    after = [obs_any(o) for o in chain]
    fafter = fields_of(ftarget)
    res.update(raised=raised, msg=msg, crash=crash, same=(before == after),
               changed=sorted(k for k in fbefore if fbefore[k] != fafter.get(k)))
    if before != after:
        res['diff'] = first_diff(before, after)
    return res


def first_diff(a, b, path=''):
    if type(a) is not type(b) or not isinstance(a, (tuple, list)):
        return '%s: %r -> %r' % (path, _short(a), _short(b))
    if len(a) != len(b):
        return '%s: length %d -> %d: %r -> %r' % (path, len(a), len(b), _short(a), _short(b))
    for i, (x, y) in enumerate(zip(a, b)):
        if x != y:
            return first_diff(x, y, '%s/%s' % (path, x[0] if isinstance(x, tuple) and x and isinstance(x[0], str) and i == 0 else i))
    return path + ': equal'


def _short(x):
    s = repr(x)
    return s if len(s) < 240 else s[:240] + '...'


def eval_batch(batch):
    return [eval_case(c) for c in batch]


# ------------------------------------------------------------------ inputs rejected at every stage

GARBAGE = {
    'dollar': '$', 'lbrace': '{', 'rbrace': '}', 'badsel': 'a,,b', 'badprio': '!x', 'nsprefix': 'q|z', 'semi': ';',
    'lparen': '(', 'rparen': ')', 'badstring': '"x\n', 'atimport': '@import "i.css";', 'atcharset': '@charset "utf-8";',
    'atnamespace': '@namespace n "http://n";', 'colon': ':', 'comma': ',', 'excl': '!', 'hash': '#', 'atx': '@x',
    'rbracket': ']', 'cdo': '<!--', 'number': '1', 'badurl': 'url(x y)', 'atmedia': '@media print { nn { top: 0 } }',
    'atpage': '@page { margin: 0 }', 'atfontface': '@font-face { font-family: N }', 'gt': '>', 'backslash': '\\',
}

# valid new content per text mutator; vocabulary disjoint from the worlds' (n... names)
N_STYLE = ['na { left: 2px }', 'na, nb > nc { left: 2px; color: green !important }', 'wp|na { width: 1% }',
           '.nk[nt] nb:hover { /*n*/ background: url(n.png) no-repeat }']
N_DECL = ['left: 2px', 'left: 2px; color: green !important', '/*n*/ width: 1%; background: url(n.png) no-repeat; left: 3px',
          'font: 10px/2 "N", fantasy']
N_MEDIA = ['@media screen { na { left: 2px } }', '@media screen, projection { na { left: 2px } nb, nc { color: green } nd { width: 1% } }',
           '@media tv and (color) "nname" { na { left: 2px !important } @page { margin: 3cm } /*n*/ nb { top: 2px } }',
           '@media projection { @media tv { na { left: 2px } } nb { left: 3px } }']
N_PAGE = ['@page { margin: 3cm }', '@page :left { margin: 3cm; @bottom-left { content: "n" } }',
          '@page npage:first { @top-right { color: green } width: 1%; @top-right { left: 2px } }']
N_IMPORT = ['@import "n.css";', '@import url(n.css) projection, screen;', '@import "n.css" screen "ntitle";']
N_NAMESPACE = ['@namespace np "http://n/p";', '@namespace "http://n/d";', '@namespace wp "http://w/p";',
               '@namespace url(http://w/p);']
N_CHARSET = ['@charset "ascii";', '@charset "latin-1";']
N_FONTFACE = ['@font-face { font-family: N; src: url(n.ttf) }', '@font-face /*n*/ { font-family: N }']
N_UNKNOWN = ['@wunk n;', '@wunk n { m [1] (2) }', '@nunk n;']
N_COMMENT = ['/*n*/']
# the same kinds with the at-keyword spelled with escapes / in upper case: accepted or refused, but never half applied
N_MEDIA = N_MEDIA + ['@M\\45 DIA tv { nz { left: 2px } }', '@\\6d edia print { nz { top: 2px } }']
N_PAGE = N_PAGE + ['@P\\41GE { margin: 4cm }']
N_IMPORT = N_IMPORT + ['@\\69mport "n2.css";', '@IMPORT "n3.css" tv;']
N_NAMESPACE = N_NAMESPACE + ['@N\\41MESPACE np "http://n/2";']
N_CHARSET = N_CHARSET + ['@\\63harset "ascii";']
N_FONTFACE = N_FONTFACE + ['@FONT-F\\41 CE { font-family: N2 }']
N_MARGIN = ['@top-left { content: "n" }', '@bottom-right { left: 2px; color: green }']
N_VARIABLES = ['@variables { nv: 2px }', '@variables { nv: 2px; nz: green }']
N_SHEET = ['na { left: 2px }', '@charset "ascii"; @import "n.css"; @namespace np "http://n/p"; np|na { left: 2px } nb { top: 2px }',
           '/*n*/ na { left: 2px } @media screen { nb { top: 2px } nc { color: green } } @page { margin: 3cm } nd { width: 1% }',
           '@namespace wp "http://n/other"; wp|na, nb { left: 2px } @font-face { font-family: N } @nunk n; nc { top: 2px }',
           '@variables { nv: 2px } na { left: var(nv) } nb { top: 2px }',
           '@variables { wv: 9px; nq: green } na { left: var(wv); color: var(nq) } nb { top: 2px } nc { width: 1% }']
N_SEL = ['na', 'na > nb', 'na.nk:hover nb[nt="1"]', 'wp|na', '*|na nb']
N_SELLIST = ['na', 'na, nb > nc', 'na , wp|nb , .nk']
N_ML = ['screen', 'screen, projection', 'projection and (min-width: 2px), screen', 'all', '/*n*/ screen']
N_MQ = ['screen', 'not projection', 'screen and (min-width: 2px) and (color)', '(color)']
N_PV = ['2px', '2px dotted green', 'url(n.png) no-repeat, f(1, 2)', '"N", fantasy', '#00f', 'rgb(1, 2, 3)', '-2.5em/3']
N_PROP = ['left: 2px', 'color: green !important', 'background: url(n.png) no-repeat', 'left : 2px ! important']
N_VARDECL = ['nv: 2px', 'nv: 2px; nz: green']
N_PAGESEL = [':left', 'npage', 'npage:first']
N_PRIO = ['important', '!important', '! IMPORTANT', '']
N_NAME = ['left', 'COLOR', 'x-n']

TEXT_MUTATORS = [
    # (target kind, mutator, valid texts)
    ('sheet', 'cssText', N_SHEET), ('style', 'cssText', N_STYLE), ('media', 'cssText', N_MEDIA), ('page', 'cssText', N_PAGE),
    ('imp', 'cssText', N_IMPORT), ('namespace', 'cssText', N_NAMESPACE), ('charset', 'cssText', N_CHARSET),
    ('fontface', 'cssText', N_FONTFACE), ('unknown', 'cssText', N_UNKNOWN), ('comment', 'cssText', N_COMMENT),
    ('margin', 'cssText', N_MARGIN), ('variables', 'cssText', N_VARIABLES),
    ('decl', 'cssText', N_DECL), ('prop', 'cssText', N_PROP), ('pv', 'cssText', N_PV),
    ('sel', 'selectorText', N_SEL), ('sellist', 'selectorText', N_SELLIST), ('style', 'selectorText', N_SELLIST),
    ('page', 'selectorText', N_PAGESEL),
    ('ml', 'mediaText', N_ML), ('mq', 'mediaText', N_MQ), ('vardecl', 'cssText', N_VARDECL),
    ('style', 'style=', N_DECL), ('page', 'style=', N_DECL), ('fontface', 'style=', N_DECL), ('margin', 'style=', N_DECL),
    ('media', 'media=', N_ML), ('imp', 'media=', N_ML), ('variables', 'variables=', N_VARDECL),
    ('prop', 'value=', N_PV), ('prop', 'propertyValue=', N_PV), ('prop', 'priority=', N_PRIO), ('prop', 'name=', N_NAME),
    ('namespace', 'prefix=', ['np', 'wp']), ('charset', 'encoding=', ['ascii', 'latin-1']),
    ('mq', 'mediaType=', ['screen', 'TV']), ('margin', 'margin=', ['@bottom-left', '@TOP-left']),
    ('sellist', 'appendSelector', N_SEL), ('sellist', 'append', N_SEL), ('ml', 'appendMedium', N_MQ), ('ml', 'append', N_MQ),
    ('sheet', 'insertRule', N_STYLE + N_MEDIA[:2] + N_PAGE[:2] + N_FONTFACE[:1] + N_UNKNOWN[:2] + N_COMMENT + N_IMPORT[:1]
     + N_NAMESPACE[:1] + N_VARIABLES[:1] + ['@charset "ascii";']),
    ('sheet', 'add', N_STYLE[:2] + N_MEDIA[:1] + N_PAGE[:1] + N_IMPORT[:1] + N_NAMESPACE[:2] + ['@charset "ascii";']),
    ('media', 'insertRule', N_STYLE + N_PAGE[:1] + N_MEDIA[:1] + N_COMMENT + N_UNKNOWN[:1]),
    ('media', 'add', N_STYLE[:2]),
    ('page', 'insertRule', N_MARGIN), ('page', 'add', N_MARGIN),
]


def token_offsets(text):
    """offsets of token boundaries of a valid text (by the library's own tokenizer;
    falls back to a coarse split)"""
    import cssutils.tokenize2
    offs = [0]
    try:
        pos = 0
        for t in cssutils.tokenize2.Tokenizer().tokenize(text):
            v = t[1]
            if t[0] == 'EOF':
                break
            if text[pos:pos + len(v)] != v:
                raise ValueError
            pos += len(v)
            offs.append(pos)
        if pos != len(text):
            raise ValueError
    except Exception:  # noqa
        offs = sorted(set([0, len(text)] + [m.start() for m in re.finditer(r'\b|[{};:,()]', text)]))
    return sorted(set(offs))


def stage_label(text, off):
    """coarse description of where in the new content the garbage lands"""
    pre = text[:off]
    depth = pre.count('{') - pre.count('}')
    if depth == 0:
        items = len(re.findall(r'[};]\s*(?=\S)', pre))
        return 'start' if off == 0 else ('end' if off == len(text) else 'top-after-%d-items' % items)
    head = pre[pre.index('{') + 1:]
    inner = len(re.findall(r'[};]\s*(?=\S)', head))
    return 'depth%d-after-%d-parts' % (depth, inner)


def injections(text):
    """all (stage label, garbage name, mutated text)"""
    out = []
    for off in token_offsets(text):
        lab = stage_label(text, off)
        for gname, g in GARBAGE.items():
            out.append((lab, gname, text[:off] + ' ' + g + ' ' + text[off:]))
    # truncations are rejections "after part of the new content was accepted" too
    return out


# non-text arguments that must be rejected (index, hierarchy, namespace, not-found, type)
def arg_cases():
    out = []

    def add(kind, mut, args, stage):
        out.append((kind, mut, args, stage))
    for kind in ('sheet', 'media', 'page'):
        for idx in (-1, 99, 1000):
            add(kind, 'insertRule', ['na { left: 2px }' if kind != 'page' else '@top-right { left: 2px }', idx], 'index')
            add(kind, 'insertRule', [{'$rule': 'na { left: 2px }' if kind != 'page' else '@top-right { left: 2px }'}, idx], 'index')
        for idx in (99, -99):
            add(kind, 'deleteRule', [idx], 'index')
        add(kind, 'deleteRule', [{'$rule': 'nz { left: 2px }'}], 'not-in-list')
    # hierarchy: objects and texts at bad positions
    for idx in (0, 1, 2, 3, None):
        for r in ('@charset "ascii";', '@import "n.css";', '@namespace np "http://n/p";', 'na { left: 2px }',
                  '@variables { nv: 2px }', '/*n*/', '@nunk n;', '@media screen { na { left: 2px } }', '@page { margin: 3cm }'):
            a = [] if idx is None else [idx]
            add('sheet', 'insertRule', [r] + a, 'hierarchy')
            add('sheet', 'insertRule', [{'$rule': r}] + a, 'hierarchy')
    for r in ('@charset "ascii";', '@import "n.css";', '@namespace np "http://n/p";', '@font-face { font-family: N }',
              '@top-left { content: "n" }', '@variables { nv: 2px }'):
        for idx in ([], [0]):
            add('media', 'insertRule', [r] + idx, 'hierarchy')
            add('media', 'insertRule', [{'$rule': r}] + idx, 'hierarchy')
            add('media', 'add', [{'$rule': r}], 'hierarchy')
    for r in ('@charset "ascii";', '@import "n.css";', '@namespace np "http://n/p";', '@font-face { font-family: N }',
              '@page { margin: 3cm }', '@media screen { na { left: 2px } }', 'na { left: 2px }'):
        for idx in ([], [0]):
            add('page', 'insertRule', [r] + idx, 'hierarchy')
            add('page', 'insertRule', [{'$rule': r}] + idx, 'hierarchy')
    # a list of rules of which a later one is refused: rejection after part was accepted
    add('sheet', 'insertRule', [{'$rulelist': ['na { left: 2px }', 'nb { top: 2px }', '@charset "ascii";']}], 'rulelist-late')
    add('sheet', 'insertRule', [{'$rulelist': ['na { left: 2px }', '@import "n.css";']}], 'rulelist-late')
    add('sheet', 'insertRule', [{'$rulelist': ['@charset "ascii";', 'na { left: 2px }']}, 0], 'rulelist-first')
    add('media', 'insertRule', [{'$rulelist': ['na { left: 2px }', 'nb { top: 2px }', '@import "n.css";']}], 'rulelist-late')
    add('media', 'insertRule', [{'$rulelist': ['na { left: 2px }', '@font-face { font-family: N }']}, 0], 'rulelist-late')
    add('page', 'insertRule', [{'$rulelist': ['@top-right { left: 2px }', 'na { left: 2px }', '@page { margin: 0 }']}], 'rulelist-late')
    # namespaces
    add('sheet', 'insertRule', [{'$rule': '@namespace wp "http://n/other";'}, {'$idxof': 'namespace'}], 'namespace-conflict')
    add('sheet', 'insertRule', ['@namespace wp "http://n/other";', {'$idxof': 'namespace'}], 'namespace-conflict')
    add('sheet', 'add', [{'$rule': '@namespace wp "http://n/other";'}], 'namespace-conflict')
    add('sheet', 'add', ['@namespace wp "http://n/other";'], 'namespace-conflict')
    for i in range(0, 6):
        add('sheet', 'deleteRule', [i], 'namespace-in-use')
    add('ns', '[]=', ['wp', 'http://n/other'], 'namespace-in-use')
    add('ns', '[]=', ['np', 'http://w/p'], 'namespace-same-uri')
    add('ns', '[]=', ['$', 'http://n/x'], 'bad-prefix')
    add('ns', '[]=', ['wp', 'http://w/p'], 'same')
    add('ns', 'del[]', ['wp'], 'namespace-in-use')
    add('ns', 'del[]', ['nope'], 'not-found')
    add('ns', 'del[]', ['wq'], 'unused')
    add('namespace', 'namespaceURI=', ['http://n/other'], 'uri-readonly')
    add('namespace', 'prefix=', ['$'], 'bad-prefix')
    add('namespace', 'prefix=', ['1'], 'bad-prefix')
    add('namespace', 'cssText', ['@namespace np "http://n/other";'], 'uri-readonly-late')
    add('namespace', 'cssText', ['@namespace "http://n/other";'], 'uri-readonly-late')
    add('sellist', 'appendSelector', ['q|z'], 'namespace-undeclared')
    add('sellist', 'appendSelector', [{'$tuple': ['q|z', {'q': 'http://n/q'}]}], 'namespace-given')
    add('sellist', 'selectorText', [{'$tuple': ['q|z, na', {'r': 'http://n/q'}]}], 'namespace-undeclared')
    add('sel', 'selectorText', [{'$tuple': ['na q|z', {}]}], 'namespace-undeclared')
    add('style', 'selectorText', ['na, q|z'], 'namespace-undeclared')
    add('style', 'cssText', ['na, q|z { left: 2px }'], 'namespace-undeclared')
    add('style', 'cssText', [{'$tuple': ['q|z { left: $ }', {'q': 'http://n/q'}]}], 'late-after-namespace')
    add('media', 'cssText', ['@media screen { na { left: 2px } q|z { top: 2px } }'], 'namespace-undeclared-nested')
    add('sheet', 'cssText', ['na { left: 2px } q|z { top: 2px }'], 'namespace-undeclared-nested')
    add('sheet', 'cssText', [{'$tuple': ['q|z { top: 2px } r|z { left: 2px }', {'q': 'http://n/q'}]}], 'namespace-undeclared-nested')
    add('sheet', 'insertRule', ['q|z { top: 2px }'], 'namespace-undeclared')
    add('media', 'insertRule', ['q|z { top: 2px }'], 'namespace-undeclared')
    # encodings
    for enc in ('nope-enc', '$', '"x"', 'a b', ''):
        add('sheet', 'encoding=', [enc], 'encoding')
        add('charset', 'encoding=', [enc], 'encoding')
    add('sheet', 'encoding=', [{'$none': 0}], 'encoding-none')
    # lists of media / selectors
    add('ml', 'mediaText', ['/*n*/'], 'no-content')
    add('ml', 'mediaText', [' '], 'no-content')
    add('media', 'media=', ['/*n*/'], 'no-content')
    add('imp', 'media=', ['/*n*/'], 'no-content')
    add('ml', 'deleteMedium', ['braille'], 'not-found')
    add('ml', 'deleteMedium', ['$'], 'not-found')
    add('ml', 'appendMedium', ['nope'], 'bad-medium')
    add('ml', 'appendMedium', ['handheld'], 'after-all')
    add('ml', 'appendMedium', [{'$mq': 'screen'}], 'after-all')
    add('ml', '[]=', [0, '$'], 'bad-medium')
    add('ml', '[]=', [0, 'nope'], 'bad-medium')
    add('sellist', '[]=', [0, 'a,,b'], 'bad-selector')
    add('sellist', '[]=', [0, '$'], 'bad-selector')
    add('mq', 'mediaType=', ['nope'], 'bad-medium')
    add('mq', 'mediaType=', ['$'], 'bad-medium')
    add('margin', 'margin=', ['@nope'], 'bad-margin')
    add('margin', 'margin=', ['top-left'], 'bad-margin')
    add('margin', 'cssText', ['@nope { left: 2px }'], 'bad-margin')
    add('unknown', 'cssText', ['@other n;'], 'other-keyword')
    add('imp', 'name=', [{'$int': 3}], 'bad-type')
    add('media', 'name=', [{'$int': 3}], 'bad-type')
    add('page', '[]=', ['@top-right', '$'], 'bad-style')
    add('page', '[]=', ['@nope', 'left: 2px'], 'bad-margin')
    add('page', '[]=', ['@top-left', 'left: 2px; $'], 'bad-style-late')
    # declaration blocks: name / value / priority refused at each argument
    for name, value, prio, st in (('$', '2px', '', 'bad-name'), ('left', '$', '', 'bad-value'), ('left', '2px', '!x', 'bad-priority'),
                                  ('left', '2px', 'x', 'bad-priority'), ('color', '2px }', '', 'bad-value'),
                                  ('color', 'green', '$', 'bad-priority'), ('a b', '2px', '', 'bad-name'),
                                  ('top', '2px $', 'important', 'bad-value-late'), ('color', 'rgb(', '', 'bad-value'),
                                  ('1', '2', '', 'bad-name'), ('left', '2px;', '', 'bad-value-late')):
        add('decl', 'setProperty', [name, value, prio], st)
        add('decl', 'setProperty+', [name, value, prio], st)
        add('decl', '[]=', [name, {'$tuple': [value, prio]}], st)
    add('decl', 'attr:color', ['$'], 'bad-value')
    add('decl', 'attr:color', ['green $'], 'bad-value-late')
    add('decl', 'attr:marginLeft', ['2px !x'], 'bad-value-late')
    add('vardecl', 'setVariable', ['$', '2px'], 'bad-name')
    add('vardecl', 'setVariable', ['nv', '$'], 'bad-value')
    add('vardecl', 'setVariable', ['wv', '2px $'], 'bad-value-late')
    add('prop', 'priority=', ['!x'], 'bad-priority-late')
    add('prop', 'priority=', ['x'], 'bad-priority')
    add('prop', 'priority=', ['! important x'], 'bad-priority')
    add('prop', 'cssText', ['left: 2px !x'], 'bad-priority-late')
    add('prop', 'cssText', ['left: 2px ! important x'], 'bad-priority')
    add('prop', 'cssText', ['left: $'], 'bad-value')
    add('prop', 'cssText', ['left 2px'], 'no-colon')
    add('prop', 'cssText', [': 2px'], 'no-name')
    add('prop', 'cssText', ['left:'], 'no-value')
    return out


# mutators applicable to a read-only object of each kind (valid arguments: the only reason to reject is the flag)
RO_MUTATORS = {
    'sheet': [('cssText', ['na { left: 2px }']), ('insertRule', ['na { left: 2px }']), ('add', ['na { left: 2px }']),
              ('deleteRule', [0]), ('insertRule', [{'$rule': 'na { left: 2px }'}, 0]), ('encoding=', ['ascii'])],
    'style': [('cssText', [N_STYLE[0]]), ('selectorText', ['na']), ('style=', ['left: 2px']),
              ('style=', [{'$decl': 'left: 2px'}]), ('selectorList=', [{'$sel': 'na'}])],
    'media': [('cssText', [N_MEDIA[0]]), ('media=', ['screen']), ('insertRule', ['na { left: 2px }']), ('add', ['na { left: 2px }']),
              ('deleteRule', [0]), ('name=', ['nname'])],
    'page': [('cssText', [N_PAGE[0]]), ('selectorText', [':left']), ('style=', ['left: 2px']),
             ('insertRule', ['@top-right { left: 2px }']), ('add', ['@top-right { left: 2px }']), ('deleteRule', [0]),
             ('[]=', ['@top-right', 'left: 2px'])],
    'imp': [('cssText', [N_IMPORT[0]]), ('media=', ['screen']), ('name=', ['ntitle']), ('href=', ['n.css'])],
    'namespace': [('cssText', [N_NAMESPACE[2]]), ('prefix=', ['np']), ('namespaceURI=', ['http://n/other'])],
    'charset': [('cssText', [N_CHARSET[0]]), ('encoding=', ['ascii'])],
    'fontface': [('cssText', [N_FONTFACE[0]]), ('style=', ['font-family: N'])],
    'unknown': [('cssText', ['@wunk n;'])],
    'comment': [('cssText', ['/*n*/'])],
    'margin': [('cssText', [N_MARGIN[0]]), ('style=', ['left: 2px']), ('margin=', ['@bottom-left'])],
    'variables': [('cssText', [N_VARIABLES[0]]), ('variables=', ['nv: 2px'])],
    'decl': [('cssText', ['left: 2px']), ('setProperty', ['left', '2px', '']), ('setProperty+', ['left', '2px', '']),
             ('removeProperty', ['color']), ('[]=', ['left', '2px']), ('del[]', ['color']), ('attr:color', ['green'])],
    'pv': [('cssText', ['2px'])],
    'sel': [('selectorText', ['na'])],
    'sellist': [('selectorText', ['na, nb']), ('appendSelector', ['na']), ('append', ['na']), ('[]=', [0, 'na'])],
    'ml': [('mediaText', ['screen']), ('appendMedium', ['screen']), ('append', ['screen']), ('deleteMedium', ['print']),
           ('[]=', [0, 'screen'])],
    'mq': [('mediaText', ['screen']), ('mediaType=', ['screen'])],
    'vardecl': [('cssText', ['nv: 2px']), ('setVariable', ['nv', '2px']), ('removeVariable', ['wv']), ('[]=', ['nv', '2px']),
                ('del[]', ['wv'])],
}


# ------------------------------------------------------------------ correspondence with Model/Atomic.v

ERRCLASS = {'NoModificationAllowedErr': 1, 'InvalidModificationErr': 2, 'SyntaxErr': 3, 'HierarchyRequestErr': 4,
            'NamespaceErr': 5, 'IndexSizeErr': 6, 'NotFoundErr': 7}

# observable fields per class, numbered as in Model/Atomic.v
CLASS_FIELDS = {
    'sheet': {'rules': 1, 'namespaces': 2}, 'ns': {'rules': 1, 'namespaces': 2},
    'media': {'media': 1, 'name': 2, 'rules': 3}, 'style': {'selectors': 1, 'style': 2},
    'page': {'selectors': 1, 'style': 2, 'rules': 3}, 'imp': {'href': 1, 'media': 2, 'name': 3},
    'namespace': {'prefix': 1, 'uri': 2}, 'charset': {'encoding': 1}, 'fontface': {'style': 1}, 'unknown': {'text': 1},
    'comment': {'text': 1}, 'variables': {'vars': 1}, 'margin': {'margin': 1, 'style': 2}, 'decl': {'items': 1},
    'prop': {'name': 1, 'value': 2, 'priority': 3}, 'pv': {'text': 1}, 'sel': {'text': 1}, 'sellist': {'items': 1},
    'ml': {'items': 1, 'wellformed': 2}, 'mq': {'text': 1, 'mediatype': 2}, 'vardecl': {'vars': 1},
}

S2, S1 = 'na { left: 2px }', 'nb { top: 2px }'

# "clean" inputs: (model mutator id, target kind, mutator, [(failing check, nested items n, args, options)])
#   failing check 0 = a valid argument.  options: w = where the target lives ('world' = a full world sheet (default),
#   'det:k' = detached variant k, 'fetch' = a sheet that resolves imports); same = fields the commit rewrites with an equal value
CLEAN = [
    (1, 'sheet', 'cssText', [
        (0, 2, ['%s %s' % (S2, S1)], {}), (100, 2, ['na { left: $ } ' + S1], {}), (103, 2, [S2 + ' nb { top: $ }'], {}),
        (104, 2, [S2 + ' q|z { top: 2px }'], {}), (105, 2, [S2 + ' @import "n.css";'], {}),
        (106, 3, ['%s %s nc { left: $ }' % (S2, S1)], {}), (101, 1, ['q|z { top: 2px }'], {})]),
    (2, 'sheet', 'insertRule', [
        (0, 0, [S2], {}), (2, 0, [S2, 99], {}), (2, 0, [{'$rule': S2}, -1], {}), (3, 0, ['na { left: $ }'], {}),
        (4, 0, ['q|z { left: 2px }'], {}), (5, 0, [S2 + ' @import "x.css";'], {}), (6, 0, [S2 + ' ' + S1], {}),
        (7, 0, [{'$emptyrule': 0}], {}), (8, 0, ['@charset "ascii";', 1], {}), (8, 0, [{'$rule': '@import "n.css";'}], {}),
        (0, 0, [{'$rule': '@media screen { na { left: 2px } }'}], {})]),
    (2, 'sheet', 'add', [(0, 0, [S2], {}), (3, 0, ['na { left: $ }'], {}), (4, 0, ['q|z { left: 2px }'], {})]),
    (3, 'sheet', 'insertRule', [
        (9, 0, [{'$rule': '@namespace wp "http://n/other";'}, {'$idxof': 'namespace'}], {}),
        (0, 0, [{'$rule': '@namespace np "http://n/p";'}, {'$idxof': 'namespace'}], {})]),
    (4, 'sheet', 'add', [(10, 0, [{'$rule': '@import "n-bad.css";'}], {'w': 'fetch'}),
                         (0, 0, [{'$rule': '@import "n-ok.css";'}], {'w': 'fetch'})]),
    (5, 'sheet', 'insertRule', [
        (0, 2, [{'$rulelist': [S2, S1]}], {}), (105, 2, [{'$rulelist': [S2, '@charset "ascii";']}], {}),
        (102, 2, [{'$rulelist': ['@charset "ascii";', S2]}], {}), (2, 2, [{'$rulelist': [S2, S1]}, 99], {}),
        (108, 3, [{'$rulelist': [S2, S1, '@import "n.css";']}], {})]),
    (6, 'sheet', 'deleteRule', [(2, 0, [99], {}), (2, 0, [{'$rule': S2}], {}), (3, 0, [{'$idxofns': 'wp'}], {}),
                                (0, 0, [{'$idxofns': 'wq'}], {})]),
    (7, 'ns', '[]=', [(2, 0, ['wp', 'http://n/other'], {})]),
    # (del namespaces[p] for a declared prefix deletes by the index among the @namespace rules only, i.e. possibly
    #  another rule, without raising: outside C11, reported to C15)
    (8, 'ns', 'del[]', [(2, 0, ['nope'], {})]),
    (10, 'media', 'cssText', [
        (0, 2, ['@media screen "nname" { %s %s }' % (S2, S1)], {}), (2, 0, [S2], {}),
        (3, 1, ['@media $ { %s }' % S2], {}), (4, 1, ['@media screen "nname" $ { %s }' % S2], {}),
        (5, 1, ['@media screen { %s } nb' % S2], {}), (100, 2, ['@media screen { na { left: $ } %s }' % S1], {}),
        (103, 2, ['@media screen { %s nb { top: $ } }' % S2], {}), (104, 2, ['@media screen { %s q|z { top: 2px } }' % S2], {}),
        (105, 2, ['@media screen { %s @import "n.css"; }' % S2], {}),
        (106, 3, ['@media screen { %s %s nc { a,,b { } } }' % (S2, S1)], {})]),
    (11, 'media', 'insertRule', [
        (0, 0, [S2], {}), (2, 0, [S2, 99], {}), (3, 0, ['na { left: $ }'], {}), (4, 0, ['q|z { left: 2px }'], {}),
        (5, 0, [S2 + ' @import "x.css";'], {}), (6, 0, [S2 + ' ' + S1], {}), (8, 0, ['@import "n.css";'], {}),
        (8, 0, [{'$rule': '@font-face { font-family: N }'}, 0], {})]),
    (11, 'media', 'add', [(0, 0, [S2], {}), (8, 0, [{'$rule': '@namespace np "http://n/p";'}], {})]),
    (12, 'media', 'insertRule', [(0, 2, [{'$rulelist': [S2, S1]}], {}), (105, 2, [{'$rulelist': [S2, '@import "n.css";']}], {}),
                                 (102, 2, [{'$rulelist': ['@import "n.css";', S2]}], {})]),
    (13, 'media', 'deleteRule', [(2, 0, [99], {}), (2, 0, [{'$rule': S2}], {}), (0, 0, [0], {})]),
    (14, 'media', 'media=', [(0, 0, ['projection'], {}), (2, 0, ['$'], {}), (3, 0, ['/*n*/'], {})]),
    (15, 'media', 'name=', [(0, 0, ['nname'], {}), (2, 0, [{'$int': 3}], {})]),
    (20, 'style', 'cssText', [
        (0, 0, ['na, nb { left: 2px }'], {}), (2, 0, [S2 + ' nb'], {}), (3, 0, ['@nunk n;'], {}), (4, 0, ['na'], {}),
        (5, 0, ['a,,b { left: 2px }'], {}), (6, 0, ['q|z { left: 2px }'], {}), (8, 0, ['na { left: $ }'], {}),
        (8, 0, ['na { left: 2px !x }'], {})]),
    (21, 'style', 'selectorText', [(0, 2, ['na, nb'], {}), (100, 2, ['$, nb'], {}), (103, 2, ['na, $'], {}),
                                   (104, 2, ['na, q|z'], {}), (2, 1, ['na,'], {})]),
    (22, 'style', 'style=', [(0, 0, ['left: 2px'], {}), (2, 0, ['left: $'], {})]),
    (30, 'page', 'cssText', [
        (0, 1, ['@page :left { margin: 3cm; @bottom-left { content: "n" } }'], {}), (2, 0, [S2], {}),
        (3, 0, ['@page { margin: 3cm } nb'], {}), (4, 0, ['@page $ { margin: 3cm }'], {}),
        (100, 1, ['@page { @bottom-left { left: $ } margin: 3cm }'], {}), (5, 0, ['@page { margin: $ }'], {})]),
    (31, 'page', 'selectorText', [(0, 0, [':right'], {}), (2, 0, ['$'], {})]),
    (32, 'page', 'style=', [(0, 0, ['left: 2px'], {}), (2, 0, ['left: $'], {})]),
    (33, 'page', 'insertRule', [(0, 0, ['@bottom-left { left: 2px }'], {}), (2, 0, ['@bottom-left { left: 2px }', 99], {}),
                                (3, 0, ['@bottom-left { left: $ }'], {}), (8, 0, ['@page { margin: 0 }'], {}),
                                (8, 0, [{'$rule': '@media screen { na { left: 2px } }'}], {})]),
    (34, 'page', 'insertRule', [(0, 2, [{'$rulelist': ['@bottom-left { left: 2px }', '@bottom-right { top: 2px }']}], {}),
                                (105, 2, [{'$rulelist': ['@bottom-left { left: 2px }', '@page { margin: 0 }']}], {})]),
    (35, 'page', 'deleteRule', [(2, 0, [99], {}), (0, 0, [0], {'w': 'world!'})]),
    (40, 'imp', 'cssText', [(0, 0, ['@import "n.css" projection "ntitle";'], {}), (2, 0, [S2], {}), (3, 0, ['@import $;'], {}),
                            (4, 0, ['@import "n.css" screen $;'], {})]),
    (41, 'imp', 'cssText', [(10, 0, ['@import "n-bad.css" projection "ntitle";'], {'w': 'fetch'}),
                            (0, 0, ['@import "n-ok.css" projection "ntitle";'], {'w': 'fetch'})]),
    (42, 'imp', 'media=', [(0, 0, ['projection'], {}), (2, 0, ['$'], {}), (3, 0, ['/*n*/'], {})]),
    (43, 'imp', 'name=', [(0, 0, ['ntitle'], {}), (2, 0, [{'$int': 3}], {})]),
    (44, 'imp', 'href=', [(0, 0, ['n.css'], {})]),
    (45, 'imp', 'href=', [(10, 0, ['n-bad.css'], {'w': 'fetch'}), (0, 0, ['n-ok.css'], {'w': 'fetch'})]),
    (50, 'namespace', 'cssText', [(0, 0, ['@namespace np "http://w/p";'], {'w': 'det:0'}), (2, 0, [S2], {}),
                                  (3, 0, ['@namespace $;'], {}), (4, 0, ['@namespace np "http://n/other";'], {})]),
    (51, 'namespace', 'prefix=', [(0, 0, ['np'], {}), (2, 0, ['$'], {})]),
    (52, 'namespace', 'namespaceURI=', [(2, 0, ['http://n/other'], {})]),
    (60, 'charset', 'cssText', [(0, 0, ['@charset "latin-1";'], {}), (2, 0, [S2], {}), (3, 0, ['@charset $;'], {}),
                                (4, 0, ['@charset "a b";'], {}), (5, 0, ['@charset "nope-enc";'], {})]),
    (61, 'charset', 'encoding=', [(0, 0, ['latin-1'], {}), (4, 0, ['$'], {}), (5, 0, ['nope-enc'], {})]),
    (62, 'fontface', 'cssText', [(0, 0, ['@font-face { font-family: N }'], {}), (2, 0, [S2], {}),
                                 (3, 0, ['@font-face $ { font-family: N }'], {}), (4, 0, ['@font-face { font-family: $ }'], {})]),
    (63, 'fontface', 'style=', [(0, 0, ['font-family: N'], {}), (2, 0, ['font-family: $'], {})]),
    (64, 'unknown', 'cssText', [(0, 0, ['@wunk n;'], {}), (2, 0, [S2], {}), (3, 0, ['@wunk }'], {}), (4, 0, ['@other n;'], {})]),
    (65, 'comment', 'cssText', [(0, 0, ['/*n*/'], {}), (2, 0, ['na'], {})]),
    (66, 'variables', 'cssText', [(0, 0, ['@variables { nv: 2px }'], {}), (2, 0, [S2], {}),
                                  (3, 0, ['@variables $ { nv: 2px }'], {}), (4, 0, ['@variables { nv: $ }'], {})]),
    (67, 'variables', 'variables=', [(0, 0, ['nv: 2px'], {}), (2, 0, ['nv: $'], {})]),
    (70, 'margin', 'cssText', [(0, 0, ['@bottom-left { left: 2px }'], {}), (2, 0, ['@nope { left: 2px }'], {}),
                               (3, 0, ['@bottom-left { left: $ }'], {})]),
    (71, 'margin', 'margin=', [(0, 0, ['@bottom-left'], {}), (2, 0, ['@nope'], {})]),
    (72, 'margin', 'style=', [(0, 0, ['left: 2px'], {}), (2, 0, ['left: $'], {})]),
    (80, 'decl', 'cssText', [(0, 2, ['left: 2px; bottom: 2px'], {}), (100, 2, ['left: $; bottom: 2px'], {}),
                             (103, 2, ['left: 2px; bottom: $'], {}), (103, 2, ['left: 2px; bottom: 2px !x'], {})]),
    (81, 'decl', 'setProperty', [(0, 0, ['bottom', '2px', 'important'], {}), (2, 0, ['$', '2px', ''], {}),
                                 (3, 0, ['bottom', '$', ''], {}), (4, 0, ['bottom', '2px', 'x'], {}), (5, 0, ['bottom', '2px', '!x'], {})]),
    (81, 'decl', '[]=', [(0, 0, ['bottom', '2px'], {}), (3, 0, ['bottom', '$'], {})]),
    (82, 'decl', 'removeProperty', [(0, 0, ['color'], {'w': 'det:0'})]),
    (82, 'decl', 'del[]', [(0, 0, ['top'], {'w': 'det:0'})]),
    (81, 'decl', 'attr:marginLeft', [(0, 0, ['2px'], {'w': 'det:1'}), (3, 0, ['$'], {})]),
    (90, 'prop', 'cssText', [(0, 0, ['bottom: 2px !important'], {'w': 'det:0'}), (2, 0, ['bottom 2px'], {}), (3, 0, ['$: 2px'], {}),
                             (4, 0, ['bottom: $'], {}), (5, 0, ['bottom: 2px !important x'], {}), (6, 0, ['bottom: 2px !x'], {})]),
    (91, 'prop', 'name=', [(0, 0, ['bottom'], {'w': 'det:0'}), (3, 0, ['$'], {})]),
    (92, 'prop', 'value=', [(0, 0, ['2px'], {}), (4, 0, ['$'], {})]),
    (93, 'prop', 'priority=', [(0, 0, ['important'], {'w': 'det:0'}), (5, 0, ['x'], {}), (6, 0, ['!x'], {})]),
    (95, 'pv', 'cssText', [(0, 0, ['2px'], {}), (2, 0, ['$'], {})]),
    (100, 'sel', 'selectorText', [(0, 0, ['na'], {}), (2, 0, ['$'], {}), (3, 0, ['q|z'], {})]),
    (101, 'sellist', 'selectorText', [(0, 2, ['na, nb'], {}), (100, 2, ['$, nb'], {}), (103, 2, ['na, $'], {}),
                                      (104, 2, ['na, q|z'], {}), (2, 1, ['na,'], {})]),
    (102, 'sellist', 'appendSelector', [(0, 0, ['na'], {}), (2, 0, ['$'], {}), (3, 0, ['q|z'], {})]),
    (103, 'sellist', '[]=', [(0, 0, [0, 'na'], {}), (2, 0, [0, '$'], {}), (3, 0, [0, 'q|z'], {})]),
    (110, 'ml', 'mediaText', [(0, 0, ['projection'], {'same': ['wellformed']}), (2, 0, ['$'], {}), (3, 0, ['/*n*/'], {})]),
    (111, 'ml', 'appendMedium', [(0, 0, ['projection'], {'w': 'det:0'}), (2, 0, ['$'], {}), (3, 0, ['projection'], {'w': 'det:1'})]),
    (112, 'ml', 'deleteMedium', [(0, 0, ['print'], {'w': 'det:0'}), (2, 0, ['braille'], {})]),
    (113, 'ml', '[]=', [(0, 0, [0, 'projection'], {}), (2, 0, [0, '$'], {})]),
    (115, 'mq', 'mediaText', [(0, 0, ['projection'], {'w': 'det:0'}), (2, 0, ['$'], {})]),
    (116, 'mq', 'mediaType=', [(0, 0, ['projection'], {'w': 'det:0'}), (2, 0, ['nope'], {})]),
    (120, 'vardecl', 'cssText', [(0, 0, ['nv: 2px'], {}), (2, 0, ['nv: $'], {})]),
    (121, 'vardecl', 'setVariable', [(0, 0, ['nv', '2px'], {}), (2, 0, ['$', '2px'], {}), (3, 0, ['nv', '$'], {})]),
    (122, 'vardecl', 'removeVariable', [(0, 0, ['wv'], {})]),
]
# mutators of classes without a read-only flag, and the unguarded one: no read-only variant of the clean case
NO_RO = {90, 91, 92, 93, 7, 8}
PINNED_ALT = {1: 501, 3: 503, 4: 504, 5: 505, 12: 512, 34: 534, 41: 541, 45: 545, 10: 510, 15: 515, 43: 543, 50: 550, 70: 570, 71: 571, 90: 590, 93: 593, 110: 610, 122: 622}


def clean_cases(rng, worlds_full, fetch_worlds, reps):
    out = []
    for mid_, kind, mut, rows in CLEAN:
        for c, n, args, opt in rows:
            for ro in ([0, 1] if (c == 0 and mid_ not in NO_RO) else [0]):
                for _ in range(reps):
                    w = opt.get('w', 'world')
                    if w == 'fetch':
                        world, path = rng.choice(fetch_worlds), ([] if kind == 'sheet' else [('rule', 'imp', 0)])
                    elif w.startswith('det:'):
                        world, path = {'kind': 'expr', 'expr': DETACHED[kind][int(w[4:])]}, []
                    elif w == 'world!' or kind in IN_WORLD and (kind not in DETACHED or kind in ('sheet', 'ns') or rng.random() < 0.7):
                        world, path = rng.choice(worlds_full), IN_WORLD[kind][0]
                    else:
                        world, path = {'kind': 'expr', 'expr': DETACHED[kind][0]}, []
                    out.append({'kind': kind, 'mut': mut, 'args': args, 'stage': 'clean-%d-check%d%s' % (mid_, c, '-ro' if ro else ''),
                                'world': world, 'path': [list(s) for s in path], 'readonly': 'flag' if ro else None,
                                'clean': {'mid': mid_, 'c': c, 'n': n, 'ro': ro, 'same': opt.get('same', [])}})
    return out


def correspondence(ctx, clean_results):
    """clean_results: list of (case, result).  Compare with the extracted phase model."""
    if not ctx.model.available:
        ctx.broken.append(('correspondence', 'extracted model not available'))
        return
    ids = ctx.model.run([[111]])[0] or []
    queries, keep = [], []
    for case, res in clean_results:
        cl = case['clean']
        for mid_ in (cl['mid'], PINNED_ALT.get(cl['mid'])):
            if mid_ is not None:
                queries.append([110, mid_, cl['ro'], cl['c'], cl['n']])
        keep.append((case, res))
    outs = ctx.model.run(queries)
    qi = 0
    agree = pinned_only = 0
    witnessed = set()
    per_mid = {}
    for case, res in keep:
        cl = case['clean']
        variants = []
        for mid_ in (cl['mid'], PINNED_ALT.get(cl['mid'])):
            if mid_ is not None:
                variants.append((mid_, outs[qi]))
                qi += 1
        fields = CLASS_FIELDS[case['kind']]
        impl = (1 if res['raised'] else 0, ERRCLASS.get(res['raised'], 0),
                sorted(fields[f] for f in res['changed'] if f in fields))
        if res['crash']:
            impl = ('crash', res['crash'], impl[2])
        same = set(fields[f] for f in cl['same'])

        def matches(o):
            if not o or o[0] != 1:
                return False
            outcome, c, e, changed = o[1], o[2], o[3], sorted(set(o[6:]) - same)
            if outcome == 1 and cl['ro'] == 0 and c != cl['c']:
                return False        # the model rejected somewhere else than the input was built for
            return impl == (outcome, e if outcome else 0, changed)
        ok_main = matches(variants[0][1])
        ok_alt = len(variants) > 1 and matches(variants[1][1])
        st = per_mid.setdefault(cl['mid'], [0, 0])
        st[0] += 1
        if ok_main:
            agree += 1
            st[1] += 1
            witnessed.add((cl['mid'], cl['c'] if not cl['ro'] else 'ro'))
        elif ok_alt:
            pinned_only += 1
        else:
            ctx.disagree('phase-model', {k: case[k] for k in ('kind', 'mut', 'args', 'stage', 'world', 'path', 'readonly')},
                         {'raised': res['raised'], 'msg': res['msg'], 'crash': res['crash'], 'changed': res['changed'], 'impl': impl},
                         {'variants': [(m, o) for m, o in variants]})
    ctx.extra['correspondence'] = {'clean_cases': len(keep), 'agree_repaired_model': agree, 'agree_pinned_model_only': pinned_only,
                                   'model_mutators': len(ids), 'model_mutators_exercised': len(per_mid),
                                   'rejection_points_witnessed': len(witnessed)}
    if pinned_only:
        ctx.count('clean-cases-matching-only-the-pinned-phase-model', pinned_only)


# ------------------------------------------------------------------ known findings (mutator + stage predicates)

def _first_arg(case):
    a = case.get('args') or [None]
    return a[0]


def _k_rulelist(kind, case, detail):
    a = _first_arg(case)
    return (kind in ('sheet.insertRule-not-atomic', 'media.insertRule-not-atomic', 'page.insertRule-not-atomic')
            and isinstance(a, dict) and '$rulelist' in a)


def _k_ns_insert(kind, case, detail):
    a = _first_arg(case)
    return (kind in ('sheet.insertRule-not-atomic', 'sheet.add-not-atomic') and isinstance(a, dict)
            and str(a.get('$rule', '')).startswith('@namespace')
            and 'raised NoModificationAllowedErr (CSSStyleSheet: NamespaceURI defined in this rule is used' in detail)


def _k_nested_import(kind, case, detail):
    a = _first_arg(case)
    obj = isinstance(a, dict) and str(a.get('$rule', '')).startswith('@import')
    return (case.get('world', {}).get('kind') == 'fetch' and 'n-bad' in json.dumps(case.get('args'))
            and (kind in ('imp.href=-not-atomic', 'imp.cssText-not-atomic')
                 or (kind in ('sheet.add-not-atomic', 'sheet.insertRule-not-atomic') and obj)))


def _k_href_readonly(kind, case, detail):
    return kind == 'imp.href=-readonly-accepted' and bool(case.get('readonly'))


KNOWN_PRED = {
    'C11-insertrule-rulelist-partial': _k_rulelist,
    'C11-namespace-insert-cleanup-rejected': _k_ns_insert,
    'C11-import-nested-sheet-rejected': _k_nested_import,
    'C11-import-href-readonly': _k_href_readonly,
}


# ------------------------------------------------------------------ case generation

def gen_cases(ctx):
    rng = ctx.rng
    quick = ctx.tier == 'quick'
    cases = []
    nworlds = 4 if quick else 24
    worlds = [{'kind': 'sheet', 'text': gen_world(rng)} for _ in range(nworlds)]

    def placements(kind, n):
        """n prior states for a target of this kind: in a world sheet and detached"""
        out = []
        paths = IN_WORLD.get(kind, [])
        det = DETACHED.get(kind, [])
        for _ in range(n):
            if paths and (not det or rng.random() < 0.65):
                out.append((rng.choice(worlds), rng.choice(paths)))
            else:
                out.append(({'kind': 'expr', 'expr': rng.choice(det)}, []))
        return out

    def emit(kind, mut, args, stage, world, path, readonly=None, clean=None):
        cases.append({'kind': kind, 'mut': mut, 'args': args, 'stage': stage, 'world': world, 'path': [list(s) for s in path],
                      'readonly': readonly, 'clean': clean})

    # 1. garbage at every token boundary of valid new content
    frac = 0.22 if quick else 1.0
    for kind, mut, texts in TEXT_MUTATORS:
        for text in texts:
            inj = injections(text)
            for lab, gname, bad in inj:
                if frac < 1.0 and rng.random() > frac:
                    continue
                for world, path in placements(kind, 1 if quick else 4):
                    a = [bad] + ([rng.choice([0, 1])] if mut == 'insertRule' and rng.random() < 0.3 else [])
                    emit(kind, mut, a, '%s+%s' % (lab, gname), world, path)
            # the valid text itself (must not be a false rejection source) and truncations
            for world, path in placements(kind, 1):
                emit(kind, mut, [text], 'valid', world, path)
            offs = token_offsets(text)
            for off in offs[1:-1]:
                if frac < 1.0 and rng.random() > 2 * frac:
                    continue
                for world, path in placements(kind, 1):
                    emit(kind, mut, [text[:off]], 'truncated-at-%s' % stage_label(text, off), world, path)
    # 2. bad arguments
    for kind, mut, args, stage in arg_cases():
        for world, path in placements(kind, 3 if quick else 16):
            emit(kind, mut, args, stage, world, path)
    # 2b. a refused imported sheet: rejection in a nested object
    fetch_worlds = []
    for _ in range(2 if quick else 6):
        w = {'kind': 'fetch', 'text': '@import "w.css" tv;\n' + gen_world(rng, small=True).replace('@charset "utf-8";', '')}
        fetch_worlds.append(w)
        for bad in ('n-bad.css', 'n-bad2.css'):
            emit('imp', 'href=', [bad], 'nested-import', w, [('rule', 'imp', 0)])
            emit('imp', 'cssText', ['@import "%s" screen "ntitle";' % bad], 'nested-import', w, [('rule', 'imp', 0)])
            emit('sheet', 'insertRule', ['@import "%s";' % bad, 0], 'nested-import', w, [])
            emit('sheet', 'add', ['@import "%s";' % bad], 'nested-import', w, [])
            emit('sheet', 'add', [{'$rule': '@import "%s";' % bad}], 'nested-import', w, [])
            emit('sheet', 'cssText', ['@import "n-ok.css"; @import "%s"; na { left: 2px }' % bad], 'nested-import', w, [])
        emit('imp', 'href=', ['n-ok.css'], 'valid', w, [('rule', 'imp', 0)])
    # 3. read-only objects
    for kind, muts in RO_MUTATORS.items():
        for mut, args in muts:
            emit(kind, mut, args, 'readonly-ctor', {'kind': 'expr', 'expr': RO_CTOR[kind]}, [], readonly='ctor')
            for world, path in placements(kind, 2 if quick else 5):
                emit(kind, mut, args, 'readonly-flag', world, path, readonly='flag')
    # 4. rejections whose failing check is known by construction (also compared with the phase model)
    worlds_full = [{'kind': 'sheet', 'text': gen_world(rng, full=True)} for _ in range(3 if quick else 8)]
    cases += clean_cases(rng, worlds_full, fetch_worlds, 2 if quick else 10)
    return cases


# ------------------------------------------------------------------ run

def value_item_family(ctx):
    """the items of a property value (DimensionValue, ColorValue, URIValue, CSSFunction ...) reached through
    prop.propertyValue[i]: a rejected cssText leaves the item, the value, the property and the rule as they were.
    Search only."""
    import cssutils
    import xml.dom
    from harness import impl
    BAD = ['', ' ', '}', '1px 2px', 'red;', '"x', '+' + '9' * 400 + '.0em', '-' + '9' * 5000 + '%', '9' * 400 + 'pt', 'url(', 'f(', '#', '1px}',
           '/*c*/', '1e', '@x', 'rgb(1,2', ')', '1px !important']
    values = ['5px', '-2.5em', '50%', '7', 'red', '#abc', 'rgb(1, 2, 3)', 'url(a.png)', '"s"', 'f(1px, 2px)', 'calc(1px + 2px)', 'U+0-7F']
    for v0 in values:
        for bad in BAD:
            impl.reset()
            sheet = cssutils.parseString('a { x-w: %s 1px; top: 0 }' % v0)
            rule = sheet.cssRules[0]
            prop = rule.style.getProperties()[0]
            item = prop.propertyValue[0]
            case = {'family': 'value-item', 'kind': 'value-item', 'mut': 'cssText', 'value': v0, 'args': [bad[:60]], 'item_type': type(item).__name__}
            ctx.case(('value-item', v0, bad[:60]))
            before = (item.cssText, getattr(item, 'value', None), getattr(item, 'dimension', None), item.type, prop.cssText, rule.cssText, sheet.cssText)
            try:
                item.cssText = bad
                continue          # accepted: not the subject here
            except xml.dom.DOMException as e:
                exc = '%s (%s)' % (type(e).__name__, str(e)[:80])
            except Exception as e:  # noqa
                ctx.violation('value-item.cssText-raises', case, '%s: %s' % (type(e).__name__, str(e)[:200]), KNOWN_PRED)
                continue
            try:
                after = (item.cssText, getattr(item, 'value', None), getattr(item, 'dimension', None), item.type, prop.cssText, rule.cssText, sheet.cssText)
            except Exception as e:  # noqa
                after = ('observation raised %s: %s' % (type(e).__name__, str(e)[:100]),)
            if after != before:
                ctx.violation('value-item.cssText-not-atomic', case, '%s.cssText(%r) raised %s but the state changed: %r -> %r' % (
                    type(item).__name__, bad[:60], exc, before[:5], after[:5]), KNOWN_PRED)


def medialist_edge_family(ctx):
    """media lists at their edge states ('all', comment + 'all', one medium, empty) given appends / deletes that are
    refused: list, owning rule and sheet stay as they were.  Search only."""
    import cssutils
    import xml.dom
    from cssutils.stylesheets import MediaQuery
    from harness import impl
    for base in ('all', '/*c*/ all', 'ALL /*d*/', 'tv', 'tv, print and (color)', '/*e*/ tv'):
        for owner in ('list', 'media', 'import'):
            for arg in ('all', 'ALL', 'All', MediaQuery('all'), 'tv', 'bogus', 'print and (', '', '/*x*/', MediaQuery('tv')):
                for meth in ('appendMedium', 'append', 'deleteMedium'):
                    impl.reset()
                    if owner == 'list':
                        sheet, ml = None, cssutils.stylesheets.MediaList(base)
                    elif owner == 'media':
                        sheet = cssutils.parseString('@media %s {a{left:0}}' % base)
                        ml = sheet.cssRules[0].media if sheet.cssRules.length else None
                    else:
                        sheet = cssutils.parseString('@import "x.css" %s;' % base)
                        ml = sheet.cssRules[0].media if sheet.cssRules.length else None
                    if ml is None or (meth == 'deleteMedium' and not isinstance(arg, str)):
                        continue
                    argtext = arg if isinstance(arg, str) else 'MediaQuery(%r)' % arg.mediaText
                    case = {'family': 'medialist-edge', 'kind': 'ml', 'mut': meth, 'args': [argtext], 'list': base, 'owner': owner}
                    ctx.case(('ml-edge', base, owner, meth, argtext))

                    def state():
                        return (ml.mediaText, ml.length, [ml.item(i) for i in range(ml.length + 1)], ml.wellformed,
                                [getattr(it, 'value', it).mediaText if hasattr(getattr(it, 'value', it), 'mediaText') else str(getattr(it, 'value', it).cssText)
                                 for it in ml], sheet.cssText if sheet is not None else None)
                    try:
                        before = state()
                        getattr(ml, meth)(arg)
                        continue
                    except xml.dom.DOMException as e:
                        exc = '%s (%s)' % (type(e).__name__, str(e)[:70])
                    except Exception as e:  # noqa
                        ctx.violation('ml.%s-raises' % meth, case, '%s: %s' % (type(e).__name__, str(e)[:160]), KNOWN_PRED)
                        continue
                    try:
                        after = state()
                    except Exception as e:  # noqa
                        after = ('observation raised %s: %s' % (type(e).__name__, str(e)[:100]),)
                    if after != before:
                        ctx.violation('ml.%s-not-atomic' % meth, case, 'ml.%s(%s) raised %s but the state changed: %r -> %r' % (meth, argtext, exc, before, after), KNOWN_PRED)


def run(ctx):
    from harness import impl
    quick = ctx.tier == 'quick'
    value_item_family(ctx)
    medialist_edge_family(ctx)
    cases = gen_cases(ctx)
    ctx.cov['rule'] = ('case = (prior state: random world sheet holding every rule kind, or a detached object) x (target object) x '
                       '(mutator) x (argument: valid new content with one of %d garbage strings injected at a token boundary, a '
                       'truncation, a bad index / hierarchy / namespace / not-found argument, or a valid argument on a read-only '
                       'object); distinct = distinct (world, path, mutator, argument); non-trivial = the call raised a DOMException'
                       % len(GARBAGE))
    B = 40
    batches = [cases[i:i + B] for i in range(0, len(cases), B)]
    pool = impl.Pool('harness.props.c11.eval_batch', nproc=12)
    results = pool.map(batches, lambda b: 60.0)
    stats = {}
    nraise = 0
    clean_results = []
    for batch, r in zip(batches, results):
        if r is None or r[0] != 'ok':
            ctx.broken.append(('harness', 'batch failed: %r' % (r,)))
            continue
        for case, res in zip(batch, r[1]):
            key = '%s.%s' % (case['kind'], case['mut'])
            st = stats.setdefault(key, {'cases': 0, 'rejected': 0, 'stages': set()})
            if res.get('skip'):
                ctx.count('skipped:' + res['skip'].split(':')[0])
                continue
            st['cases'] += 1
            canon = (case['world'].get('text') or case['world'].get('expr'), tuple(map(tuple, case['path'])), case['mut'],
                     json.dumps(case['args'], sort_keys=True), case['readonly'])
            ctx.case(canon, nontrivial=bool(res['raised']))
            pub = {k: case[k] for k in ('kind', 'mut', 'args', 'stage', 'world', 'path', 'readonly')}
            if case.get('clean'):
                clean_results.append((case, res))
            if res['raised']:
                nraise += 1
                st['rejected'] += 1
                st['stages'].add(case['stage'].split('+')[0])
                if not res['same']:
                    ctx.violation('%s-not-atomic' % key, pub,
                                  '%s(%r) raised %s (%s) but the state changed: %s' % (
                                      key, case['args'], res['raised'], res['msg'], res.get('diff')), KNOWN_PRED)
            if case['readonly']:
                if res['raised'] != 'NoModificationAllowedErr':
                    ctx.violation('%s-readonly-accepted' % key, pub,
                                  'read-only %s: %s(%r) was not rejected with NoModificationAllowedErr (raised=%r crash=%r, state %s)'
                                  % (case['kind'], case['mut'], case['args'], res['raised'], res['crash'],
                                     'unchanged' if res['same'] else 'changed: %s' % res.get('diff')), KNOWN_PRED)
            elif res['crash'] and not res['same']:
                # not a DOM exception, so outside the property text; recorded, not asserted
                ctx.count('non-dom-exception-with-change')
    ctx.sample({k: cases[0][k] for k in ('kind', 'mut', 'args', 'stage')} if cases else None)
    correspondence(ctx, clean_results)
    if ctx.counters.get('clean-cases-matching-only-the-pinned-phase-model') and not ctx.violations and not ctx.known_hits:
        ctx.broken.append(('correspondence', 'the implementation follows the pinned (early-committing) phase lists but the '
                           'oracle saw no changed state'))
    ctx.extra['rejections'] = nraise
    ctx.extra['per_mutator'] = {k: {'cases': v['cases'], 'rejected': v['rejected'], 'stages': len(v['stages'])}
                                for k, v in sorted(stats.items())}
    never = sorted(k for k, v in stats.items() if v['rejected'] == 0)
    ctx.extra['mutators_never_rejected'] = never


def replay(path):
    d = json.load(open(path))
    print(json.dumps({k: d[k] for k in ('kind', 'detail')}, indent=1)[:3000])
    case = d['case']
    case.setdefault('clean', None)
    res = eval_case(case)
    print(json.dumps(res, indent=1, default=repr)[:3000])
    bad = bool(res.get('raised')) and not res.get('same')
    if case.get('readonly') and res.get('raised') != 'NoModificationAllowedErr':
        bad = True
    print('REPRODUCED' if bad else 'not reproduced')
    return 1 if bad else 0
