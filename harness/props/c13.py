"""C13 — the validation verdict depends only on name, value and the profiles; it
only annotates.  Coq: Model/Validate.v over Gen/GenProfRe.v (all compiled
patterns, regenerated), Proofs/ValidateFacts.v, Props/C13.v.  Correspondence:
verdict vectors (known / validate / validateWithProfile) model vs
implementation on (property, value) pairs.  Search: spelling and construction
path invariance, CSS 2.1 keyword/single-value tables, conjunction upwards,
validation on/off leaves content identical."""
import json

from harness import core
from harness.core import s2n

GEN = ['GenLex', 'GenProfRe', 'GenValid']

MANIFEST = dict(
    text='Machine-checked (Coq, closed under the global context) over ALL compiled validation patterns of a fresh registry, regenerated '
         'from profiles.py every run as a shared DAG and matched by the verified-semantics matcher: the verdict (any profile / given '
         'profiles / Property.valid decision) is invariant under ASCII letter case of the value for every name and every value (class '
         'closure decided by computation on the generated class table, lifted to every pattern by a generic lemma); unknown names are never '
         'valid; restricting profiles never changes validity. Agreement with the CSS 2.1 keyword and single-value grammars, independence from '
         'comment / white-space placement and construction path, the conjunction upwards (rule, sheet) and "validation only annotates" are '
         'decided by the search on the implementation; the keyword tables are a trusted transcription of CSS 2.1. Partial.',
    note='Trusted: Coq kernel + vm_compute; translator (CPython re._parser front end, code-point class queries under IGNORECASE); '
         'extraction + driver; Base/Regex.v has the semantics of CPython sre for these patterns (validated by the verdict correspondence); '
         'hand model of validate / validateWithProfile / Property.validate decision; transcribed CSS 2.1 tables in the harness.',
    design='7/C13')

KNOWN_PRED = {}

# CSS 2.1 property -> keyword list (transcribed from the CSS 2.1 property index; 'inherit' is always allowed)
KEYWORDS = {
    'border-collapse': ['collapse', 'separate'],
    'caption-side': ['top', 'bottom'],
    'clear': ['none', 'left', 'right', 'both'],
    'direction': ['ltr', 'rtl'],
    'empty-cells': ['show', 'hide'],
    'float': ['left', 'right', 'none'],
    'font-style': ['normal', 'italic', 'oblique'],
    'font-variant': ['normal', 'small-caps'],
    'list-style-position': ['inside', 'outside'],
    'overflow': ['visible', 'hidden', 'scroll', 'auto'],
    'page-break-inside': ['avoid', 'auto'],
    'position': ['static', 'relative', 'absolute', 'fixed'],
    'table-layout': ['auto', 'fixed'],
    'text-transform': ['capitalize', 'uppercase', 'lowercase', 'none'],
    'unicode-bidi': ['normal', 'embed', 'bidi-override'],
    'visibility': ['visible', 'hidden', 'collapse'],
    'white-space': ['normal', 'pre', 'nowrap', 'pre-wrap', 'pre-line'],
    'page-break-after': ['auto', 'always', 'avoid', 'left', 'right'],
    'page-break-before': ['auto', 'always', 'avoid', 'left', 'right'],
}
ALLWORDS = sorted({k for v in KEYWORDS.values() for k in v} | {'inherit', 'foo', 'red', 'auto'})
LENGTHS_OK = ['0', '1px', '-1px', '+2em', '1.5ex', '.5in', '10cm', '3mm', '12pt', '1pc']
LENGTHS_BAD = ['1', 'px', '1 px', '1pxx', '1e', '1%%', 'red', '#fff', '1p x']
SINGLE = {   # property -> (valid examples, invalid examples) for single length / percentage / number / colour / uri grammars
    'width': (['auto', '10%', 'inherit'] + [v for v in LENGTHS_OK if v[0] not in '+-'], ['red', '1', '10 %', 'none']),
    'min-width': (['0', '1px', '10%', 'inherit'], ['auto', 'red']),
    'letter-spacing': (['normal', '1px', '-1px', 'inherit'], ['10%', 'red', '1']),
    'z-index': (['auto', '1', '-1', '0', 'inherit'], ['1.5', '1px', 'red']),
    'orphans': (['1', '3', 'inherit'], ['1.5', '1px', 'auto']),
    'color': (['red', 'RED', '#fff', '#FFFFFF', 'rgb(1,2,3)', 'rgb(1%,2%,3%)', 'inherit', 'transparent' if False else 'blue'], ['#ff', '#ggg', 'rgb(1,2)', '1px', 'notacolor']),
    'background-image': (['none', 'url(a.png)', 'url("a b.png")', 'inherit'], ['a.png', 'red']),
    'list-style-image': (['none', 'url(x)', 'inherit'], ['x', '1px']),
    'line-height': (['normal', '1', '1.5', '1px', '120%', 'inherit'], ['red', 'auto']),
}


def spellings(rng, value):
    """same value: letter case, white space, comments"""
    out = {value}
    out.add(value.upper())
    out.add(''.join(c.upper() if rng.random() < 0.5 else c for c in value))
    out.add(' ' + value + '  ')
    out.add('/**/' + value + '/* c */')
    out.add(value.replace(',', ' , ').replace('  ', ' '))
    return sorted(out)


def verdicts(name, value):
    """(known, validate, valid, matching) from the registry; value as given"""
    import cssutils
    P = cssutils.profile
    v, m, _ = P.validateWithProfile(name, value)
    return [1 if name in P.knownNames else 0, 1 if P.validate(name, value) else 0, 1 if v else 0, 1 if m else 0]


def prop_valid(name, value, how, validate=True):
    """Property.valid through different construction paths"""
    import cssutils
    if how == 'parsed':
        sheet = cssutils.CSSParser(validate=validate).parseString('a{%s:%s}' % (name, value))
        ps = sheet.cssRules[0].style.getProperties(all=True) if sheet.cssRules.length else []
        return ps[0].valid if ps else None
    if how == 'constructed':
        p = cssutils.css.Property(name, value)
        return p.valid if p.wellformed else None
    if how == 'dom':
        st = cssutils.css.CSSStyleDeclaration()
        st.setProperty(name, value)
        ps = st.getProperties(all=True)
        return ps[0].valid if ps else None
    if how == 'roundtrip':
        sheet = cssutils.parseString('a{%s:%s}' % (name, value))
        sheet2 = cssutils.parseString(sheet.cssText)
        ps = sheet2.cssRules[0].style.getProperties(all=True) if sheet2.cssRules.length else []
        return ps[0].valid if ps else None


def run(ctx):
    import cssutils
    import xml.dom as xml_dom
    from harness import impl
    rng = ctx.rng
    quick = ctx.tier == 'quick'
    impl.reset(raise_exceptions=False)
    impl.fresh_profiles()
    ctx.cov['rule'] = ('(property, value) pairs: every known property x values from its own grammar (keyword tables, single-value examples), '
                       "other properties' values and near misses; x spellings (case, white space, comments) x construction paths; "
                       'distinct = distinct (name, value text); all non-trivial')
    names = sorted(set(cssutils.profile.knownNames))
    pool = sorted(set(ALLWORDS + LENGTHS_OK + LENGTHS_BAD + ['10%', '1', '1.5', '#fff', '#ABCDEF', 'rgb(1,2,3)', 'rgba(1,2,3,.5)', 'url(x.png)',
                                                            '"s"', 'a b', 'a, b', '1px 2px', '1px solid red', 'counter(x)', 'attr(y)', '0', 'none',
                                                            'hsl(1,2%,3%)', 'left top', '1s', '90deg', '1khz', 'bold 12px/1.5 Arial', 'u+0-7f']))
    # ---- correspondence: verdict vectors on name x pool (all names; a sample of the pool per name)
    cases, wants, metas = [], [], []
    for n in names + ['x-unknown', 'colour', '']:
        vals = pool if not quick else rng.sample(pool, 12)
        for v in vals + [v.upper() for v in vals[:4]]:
            try:
                w = verdicts(n, v)
            except Exception as e:
                ctx.violation('raises', {'name': n, 'value': v}, '%s: %s' % (type(e).__name__, e), KNOWN_PRED)
                continue
            ctx.case(('verdict', n, v))
            cases.append([130, len(n)] + s2n(n) + s2n(v))
            wants.append(w)
            metas.append({'name': n, 'value': v})
    if ctx.model.available:
        outs = ctx.model.run(cases, timeout=900)
        agree = 0
        for w, o, m in zip(wants, outs, metas):
            if o == w:
                agree += 1
            else:
                ctx.disagree('verdict[known,validate,valid,matching]', m, w, o)
        ctx.extra['correspondence'] = {'pairs': len(cases), 'agree': agree}
    else:
        ctx.broken.append(('correspondence', 'extracted model not available'))
    # ---- search: CSS 2.1 tables
    for prop, kws in KEYWORDS.items():
        for w in ALLWORDS:
            exp = (w in kws) or w == 'inherit'
            for sp in ([w] if quick and rng.random() < 0.7 else spellings(rng, w)):
                ctx.case(('kw', prop, sp))
                got = prop_valid(prop, sp, 'parsed')
                if got is None:
                    continue
                if bool(got) != exp:
                    ctx.violation('css21-keyword', {'name': prop, 'value': sp}, 'valid=%r, CSS 2.1 says %r' % (got, exp), KNOWN_PRED)
    for prop, (good, bad) in SINGLE.items():
        for v, exp in [(g, True) for g in good] + [(b, False) for b in bad]:
            ctx.case(('single', prop, v))
            got = prop_valid(prop, v, 'parsed')
            if got is None:
                if exp:
                    ctx.violation('css21-single', {'name': prop, 'value': v}, 'declaration not accepted at all', KNOWN_PRED)
                continue
            if bool(got) != exp:
                ctx.violation('css21-single', {'name': prop, 'value': v}, 'valid=%r, grammar says %r' % (got, exp), KNOWN_PRED)
    # ---- search: same verdict for every spelling and construction path, before/after round trip
    for _ in range(150 if quick else 4000):
        n = rng.choice(names)
        v = rng.choice(pool)
        ref = prop_valid(n, v, 'parsed')
        if ref is None:
            continue
        for sp in spellings(rng, v):
            for how in ('parsed', 'constructed', 'dom', 'roundtrip'):
                ctx.case(('path', n, sp, how))
                try:
                    got = prop_valid(n, sp, how)
                except Exception as e:
                    if isinstance(e, __import__('xml.dom').dom.DOMException):
                        continue
                    ctx.violation('raises', {'name': n, 'value': sp, 'how': how}, '%s: %s' % (type(e).__name__, e), KNOWN_PRED)
                    continue
                if got is not None and got != ref:
                    ctx.violation('verdict-depends-on-spelling-or-path', {'name': n, 'value': sp, 'how': how, 'reference_value': v},
                                  'valid=%r but %r for the plain parsed spelling' % (got, ref), KNOWN_PRED)
    # ---- search: number spellings (.5 / 0.5 / 0.50, signs) at the registry's own entry points, and Property.valid under
    # serializer preferences that change how numbers are written (the verdict depends on the value, not on its spelling)
    P = cssutils.profile
    NUMSP = [('0.5', ['.5', '0.5', '0.50', '.50']), ('-0.25', ['-.25', '-0.25', '-.250']), ('1.5', ['1.5', '1.50', '01.5']), ('0.75', ['+.75', '+0.75'])]
    NUMPROPS = [('width', 'px', True), ('line-height', '', True), ('opacity', '', True), ('margin-left', 'em', True), ('font-size', '%', True), ('letter-spacing', 'in', True),
                ('z-index', '', False), ('color', 'px', False), ('top', 'cm', True), ('azimuth', 'deg', True), ('pause-after', 's', True), ('pitch', 'khz', True)]
    for n_, unit, _ in NUMPROPS:
        for canon, sps in NUMSP:
            vs = {}
            for sp in sps:
                v_ = sp + unit
                ctx.case(('numspelling', n_, v_))
                try:
                    vs[v_] = (bool(P.validate(n_, v_)), tuple(P.validateWithProfile(n_, v_)[:2]))
                except Exception as e:
                    ctx.violation('raises', {'name': n_, 'value': v_}, '%s: %s' % (type(e).__name__, e), KNOWN_PRED)
            if len(set(vs.values())) > 1:
                ctx.violation('verdict-depends-on-spelling-or-path', {'name': n_, 'values': sorted(vs), 'how': 'profile.validate'},
                              'validate / validateWithProfile per spelling of one number: %r' % vs, KNOWN_PRED)
            for sp in sps:
                v_ = sp + unit
                ref = prop_valid(n_, v_, 'parsed')
                for prefs in ({'omitLeadingZero': True}, 'minified'):
                    try:
                        if prefs == 'minified':
                            cssutils.ser.prefs.useMinified()
                        else:
                            cssutils.ser.prefs.omitLeadingZero = True
                        got = [prop_valid(n_, v_, how) for how in ('parsed', 'constructed', 'dom')]
                    finally:
                        cssutils.ser.prefs.useDefaults()
                    if any(g is not None and g != ref for g in got):
                        ctx.violation('verdict-depends-on-spelling-or-path', {'name': n_, 'value': v_, 'how': 'serializer preferences %r' % (prefs,)},
                                      'valid=%r under the preference, %r under the defaults' % (got, ref), KNOWN_PRED)
    for n_, v_, exp in [('width', '.5in', True), ('width', '.5%', True), ('line-height', '.5', True), ('margin-top', '-.5em', True), ('letter-spacing', '.1px', True),
                        ('width', '.px', False), ('width', '5.px', False), ('line-height', '.', False)]:
        ctx.case(('single-direct', n_, v_))
        if bool(P.validate(n_, v_)) != exp:
            ctx.violation('css21-single', {'name': n_, 'value': v_, 'how': 'profile.validate'}, 'validate=%r, grammar says %r' % (P.validate(n_, v_), exp), KNOWN_PRED)
    # ---- search: the verdict does not depend on how the NAME is spelled either (case, simple escapes, hex escapes)
    for _ in range(60 if quick else 1500):
        n = rng.choice([x for x in names if len(x) > 2 and x[1] not in '0123456789abcdefABCDEF'])
        v = rng.choice(pool)
        ref = prop_valid(n, v, 'parsed')
        if ref is None:
            continue
        for nsp in (n.upper(), n[0] + '\\' + n[1:], n.capitalize(), '\\%x ' % ord(n[0]) + n[1:], n[:-1] + '\\' + n[-1] if n[-1] not in '0123456789abcdef' else n):
            for how in ('parsed', 'constructed', 'dom'):
                ctx.case(('name-spelling', nsp, v, how))
                try:
                    got = prop_valid(nsp, v, how)
                except Exception as e:
                    if isinstance(e, __import__('xml.dom').dom.DOMException):
                        continue
                    ctx.violation('raises', {'name': nsp, 'value': v, 'how': how}, '%s: %s' % (type(e).__name__, e), KNOWN_PRED)
                    continue
                if got is not None and got != ref:
                    ctx.violation('verdict-depends-on-spelling-or-path', {'name': nsp, 'value': v, 'how': how, 'reference_name': n},
                                  'valid=%r but %r for the plain spelling of the name' % (got, ref), KNOWN_PRED)
    # ---- search: conjunction upwards, font-face context, validation only annotates
    for _ in range(80 if quick else 2000):
        decls = [(rng.choice(names), rng.choice(pool)) for _ in range(rng.randrange(1, 5))]
        text = 'a{%s} b{%s}' % (';'.join('%s:%s' % d for d in decls), '%s:%s' % (rng.choice(names), rng.choice(pool)))
        ctx.case(('conj', text))
        s1 = cssutils.CSSParser(validate=True).parseString(text)
        s0 = cssutils.CSSParser(validate=False).parseString(text)
        if s1.cssText != s0.cssText:
            ctx.violation('validation-changes-content', {'text': text}, '%r vs %r' % (s1.cssText, s0.cssText), KNOWN_PRED)
        for r in s1.cssRules:
            ps = r.style.getProperties(all=True)
            if r.style.valid != all(p.valid for p in ps) or r.valid != r.style.valid:
                ctx.violation('conjunction', {'text': text}, 'rule.valid=%r style.valid=%r declarations %r' % (
                    r.valid, r.style.valid, [p.valid for p in ps]), KNOWN_PRED)
        if s1.valid != all(r.valid for r in s1.cssRules):
            ctx.violation('conjunction-sheet', {'text': text}, 'sheet.valid=%r rules %r' % (s1.valid, [r.valid for r in s1.cssRules]), KNOWN_PRED)
    # blocks that declare a name more than once (fallback idiom, !important): valid iff ALL declarations are
    good_bad = [(p_, g, True) for p_, (gs, bs) in SINGLE.items() for g in gs] + [(p_, b, False) for p_, (gs, bs) in SINGLE.items() for b in bs]
    for _ in range(120 if quick else 3000):
        few = rng.sample(sorted(SINGLE), 2)
        decls = []
        for _k in range(rng.randrange(2, 5)):
            n_, v_, _e = rng.choice([t for t in good_bad if t[0] in few and (t[2] or rng.random() < 0.35)] or good_bad)
            decls.append('%s:%s%s' % (n_, v_, ' !important' if rng.random() < 0.2 else ''))
        text = 'a{%s}' % ';'.join(decls)
        ctx.case(('conj-dup', text))
        s1 = cssutils.parseString(text)
        if not s1.cssRules.length:
            continue
        r = s1.cssRules[0]
        ps = r.style.getProperties(all=True)
        want = all(p.valid for p in ps)
        # the same declarations one per rule: the sheet must get the same verdict
        apart = cssutils.parseString(' '.join('a{%s}' % p.cssText for p in ps))
        if not (r.style.valid == r.valid == s1.valid == want) or apart.valid != want:
            ctx.violation('conjunction', {'text': text}, 'sheet.valid=%r rule.valid=%r style.valid=%r declarations %r, one rule per declaration: sheet.valid=%r' % (
                s1.valid, r.valid, r.style.valid, [p.valid for p in ps], apart.valid), KNOWN_PRED)
    # ... wherever the declarations sit: @media (nested), @page, margin boxes
    def all_props(rules):
        for r_ in rules:
            st_ = getattr(r_, 'style', None)
            if st_ is not None:
                yield from st_.getProperties(all=True)
            if r_.type in (r_.MEDIA_RULE, r_.PAGE_RULE):
                yield from all_props(r_.cssRules)
    for _ in range(80 if quick else 2000):
        ds = []
        for _k in range(rng.randrange(1, 4)):
            n_, v_, _e = rng.choice([t for t in good_bad if t[2] or rng.random() < 0.3])
            ds.append('%s:%s' % (n_, v_))
        d1, d2 = ';'.join(ds[:1]), ';'.join(ds[1:]) or 'color:red'
        text = rng.choice(['@media tv{a{%s} b{%s}}', '@media tv{@media print{a{%s}} b{%s}}', '@page{%s;@top-left{%s}}', '@page :left{%s} c{%s}',
                           'a{%s} @media print{b{%s}}', '@font-face{font-family:x;src:url(y)} @media tv{a{%s;%s}}']) % (d1, d2)
        ctx.case(('conj-nested', text))
        s1 = cssutils.parseString(text)
        props = list(all_props(s1.cssRules))
        want = all(p.valid for p in props)
        if props and s1.valid != want:
            ctx.violation('conjunction-sheet', {'text': text}, 'sheet.valid=%r, declarations %r' % (s1.valid, [(p.name, p.valid) for p in props]), KNOWN_PRED)
        for r in s1.cssRules:
            if r.type in (r.MEDIA_RULE, r.PAGE_RULE):
                ps = list(all_props([r]))
                if getattr(r, 'valid', None) != all(p.valid for p in ps):
                    ctx.violation('conjunction', {'text': text}, 'rule %s .valid=%r, declarations %r' % (r.cssText[:40], getattr(r, 'valid', None), [(p.name, p.valid) for p in ps]), KNOWN_PRED)
    # @font-face: valid iff every declaration is valid and both required descriptors are there - however often
    for _ in range(60 if quick else 1500):
        ds = []
        for _k in range(rng.randrange(0, 6)):
            ds.append(rng.choice(['font-family:x', 'font-family:y', 'src:url(a.eot)', 'src:local(x), url(a.woff) format("woff")', 'src:bogus!', 'font-weight:bold',
                                  'font-style:italic', 'font-weight:bogus', 'unicode-range:u+0-7f', 'x-unknown:1']))
        text = '@font-face{%s} a{left:0}' % ';'.join(ds)
        ctx.case(('fontface-agg', text))
        try:
            sh = cssutils.parseString(text)
            ff = [r for r in sh.cssRules if r.type == r.FONT_FACE_RULE]
            if not ff:
                continue
            ps = ff[0].style.getProperties(all=True)
            names_ = {p_.name for p_ in ps}
            want = all(p_.valid for p_ in ps) and {'font-family', 'src'} <= names_
            got = (ff[0].valid, sh.valid)
            # a second declaration of a descriptor added through the DOM
            ff[0].style.setProperty('src', 'url(b.woff)', replace=False)
            ps2 = ff[0].style.getProperties(all=True)
            want2 = all(p_.valid for p_ in ps2) and 'font-family' in {p_.name for p_ in ps2}
            got2 = ff[0].valid
        except Exception as e:
            ctx.violation('raises', {'text': text}, '%s: %s' % (type(e).__name__, e), KNOWN_PRED)
            continue
        if got != (want, want):
            ctx.violation('conjunction', {'text': text}, '@font-face.valid, sheet.valid = %r; declarations %r' % (got, [(p_.name, p_.valid) for p_ in ps]), KNOWN_PRED)
        elif got2 != want2:
            ctx.violation('conjunction', {'text': text, 'edit': "setProperty('src', 'url(b.woff)', replace=False)"},
                          '@font-face.valid = %r; declarations %r' % (got2, [(p_.name, p_.valid) for p_ in ps2]), KNOWN_PRED)
    # ---- correspondence of Model/ValidAgg.v (entry 131): the tree of verdicts of a parsed sheet, flattened
    def enc_decls(st_):
        ps_ = st_.getProperties(all=True)
        eff_ = {id(p_) for p_ in st_.getProperties()}
        out_ = [len(ps_)]
        for p_ in ps_:
            out_ += [1 if p_.valid else 0, 1 if id(p_) in eff_ else 0, {'font-family': 1, 'src': 2}.get(p_.name, 0)]
        return out_

    def enc_rules(rules):
        out_ = [len(rules)]
        for r_ in rules:
            if r_.type == r_.STYLE_RULE:
                out_ += [0] + enc_decls(r_.style)
            elif r_.type == r_.MARGIN_RULE:
                out_ += [1] + enc_decls(r_.style)
            elif r_.type == r_.FONT_FACE_RULE:
                out_ += [2] + enc_decls(r_.style)
            elif r_.type == r_.MEDIA_RULE:
                out_ += [3] + enc_rules(list(r_.cssRules))
            elif r_.type == r_.PAGE_RULE:
                out_ += [4] + enc_decls(r_.style) + enc_rules(list(r_.cssRules))
            else:
                out_ += [5]
        return out_
    agg_cases, agg_wants, agg_texts = [], [], []
    for _ in range(150 if quick else 4000):
        parts = []
        for _k in range(rng.randrange(1, 5)):
            ds = ';'.join('%s:%s' % rng.choice(good_bad)[:2] for _j in range(rng.randrange(0, 4)))
            parts.append(rng.choice(['a{%s}', '@media tv{b{%s}}', '@media tv{@media print{c{%s}} d{left:0}}', '@page{%s;@top-left{color:red}}',
                                     '@page{margin:0;@top-left{%s}}', '@font-face{font-family:x;src:url(y);%s}', '@font-face{%s}', '/*c*/ e{%s}',
                                     '@x y; f{%s}', '@media tv{/*c*/ @x y; g{%s}}']) % ds)
        text = ' '.join(parts)
        ctx.case(('agg', text))
        try:
            sh = cssutils.parseString(text)
            agg_cases.append([131] + enc_rules(list(sh.cssRules)))
            agg_wants.append([1 if sh.valid else 0])
            agg_texts.append(text)
        except Exception as e:
            ctx.violation('raises', {'text': text}, '%s: %s' % (type(e).__name__, e), KNOWN_PRED)
    if ctx.model.available:
        agree = 0
        for w, o, t_ in zip(agg_wants, ctx.model.run(agg_cases), agg_texts):
            if o == w:
                agree += 1
            else:
                ctx.disagree('sheet.valid from the tree of verdicts', {'text': t_}, w, o)
        ctx.extra['correspondence_aggregation'] = {'sheets': len(agg_cases), 'agree': agree}
    # @font-face context: the verdict of a declaration does not depend on how it came to be in the block
    FF = [('font-weight', 'bolder'), ('font-weight', 'bold'), ('font-style', 'inherit'), ('font-style', 'italic'), ('font-family', 'x, y'),
          ('font-family', 'x'), ('font-stretch', 'wider'), ('font-stretch', 'normal'), ('src', 'url(x.ttf)'), ('src', 'red'),
          ('unicode-range', 'u+0-7f'), ('color', 'red'), ('font-variant', 'small-caps'), ('font-size', '12px'), ('font-weight', 'lighter')]
    for n_, v_ in FF:
        for ctxrule in ('@font-face', 'a'):
            got = {}
            try:
                sh = cssutils.parseString('%s{%s:%s}' % (ctxrule, n_, v_))
                got['parsed'] = sh.cssRules[0].style.getProperties(all=True)[0].valid
                for how in ('name-value', 'object', 'object-from-other-block', 'item', 'style-assign', 'cssText-assign'):
                    sh = cssutils.parseString('%s{}' % ctxrule)
                    r = sh.cssRules[0]
                    if how == 'name-value':
                        r.style.setProperty(n_, v_)
                    elif how == 'object':
                        r.style.setProperty(cssutils.css.Property(n_, v_))
                    elif how == 'object-from-other-block':
                        other = cssutils.parseString('b{%s:%s}' % (n_, v_)).cssRules[0].style
                        r.style.setProperty(other.getProperties(all=True)[0])
                    elif how == 'item':
                        r.style[n_] = v_
                    elif how == 'style-assign':
                        r.style = cssutils.css.CSSStyleDeclaration(cssText='%s:%s' % (n_, v_))
                    else:
                        r.style.cssText = '%s:%s' % (n_, v_)
                    ps = r.style.getProperties(all=True)
                    got[how] = ps[0].valid if ps else None
                    again = cssutils.parseString(sh.cssText)
                    ps2 = again.cssRules[0].style.getProperties(all=True) if again.cssRules.length else []
                    got[how + '+reparse'] = ps2[0].valid if ps2 else None
            except Exception as e:
                ctx.violation('raises', {'name': n_, 'value': v_, 'rule': ctxrule}, '%s: %s' % (type(e).__name__, e), KNOWN_PRED)
                continue
            ctx.case(('ctx-path', ctxrule, n_, v_))
            if len({v for v in got.values() if v is not None}) > 1:
                ctx.violation('verdict-depends-on-spelling-or-path', {'name': n_, 'value': v_, 'rule': ctxrule},
                              'verdicts by construction path: %r' % got, KNOWN_PRED)
    # the verdict follows the ACTIVE profiles: defaultProfiles restricted to a subset
    P = cssutils.profile
    allp = list(P.profiles)
    special = [('opacity', '0.5'), ('text-shadow', '1px 1px red'), ('overflow-x', 'hidden'), ('overflow', 'hidden scroll'), ('overflow', 'auto visible'),
               ('box-sizing', 'border-box'), ('resize', 'both'), ('color', 'rgba(1,2,3,.5)'), ('color', 'red'), ('left', '1px'), ('border-color', 'red blue'),
               ('font-family', 'x, y'), ('src', 'url(x.ttf)'), ('x-unknown', '1'), ('display', 'flex')]
    subsets = [None, [allp[0]], allp[:2], [allp[-1]], [allp[0], allp[-1]]] + [rng.sample(allp, rng.randrange(1, len(allp))) for _ in range(2 if quick else 12)]
    try:
        for dp in subsets:
            P.defaultProfiles = dp
            active = dp or allp
            for n_, v_ in special + [(rng.choice(names), rng.choice(pool)) for _ in range(25 if quick else 400)]:
                ctx.case(('active', tuple(dp or ()), n_, v_))
                try:
                    # a declaration is validated on its normalised value text (e.g. .5in -> 0.5in): the reference too
                    pv_ = cssutils.css.Property(n_, v_).propertyValue
                    vn_ = pv_.cssText if pv_ is not None and pv_.cssText else v_
                    per = {q_: P.validateWithProfile(n_, vn_, profiles=[q_])[:2] == (True, True) for q_ in allp}
                    ref_active = any(per[q_] for q_ in active)
                    ref_any = any(per.values())
                    got = {'validateWithProfile': P.validateWithProfile(n_, vn_)[:2], 'validate': P.validate(n_, vn_),
                           'constructed': cssutils.css.Property(n_, v_).valid}
                    sh = cssutils.parseString('a{%s:%s}' % (n_, v_))
                    ps = sh.cssRules[0].style.getProperties(all=True) if sh.cssRules.length else []
                    if ps:
                        got['parsed'] = ps[0].valid
                        got['rule'] = sh.cssRules[0].valid
                        got['sheet'] = sh.valid
                except xml_dom.DOMException:
                    continue
                except Exception as e:
                    ctx.violation('raises', {'name': n_, 'value': v_, 'defaultProfiles': dp}, '%s: %s' % (type(e).__name__, e), KNOWN_PRED)
                    continue
                want = {'validateWithProfile': (ref_any, ref_active), 'validate': ref_any, 'constructed': ref_active,
                        'parsed': ref_active, 'rule': ref_active, 'sheet': ref_active}
                bad = {k_: (got[k_], want[k_]) for k_ in got if got[k_] != want[k_]}
                if bad:
                    ctx.violation('active-profiles', {'name': n_, 'value': v_, 'defaultProfiles': dp},
                                  '(got, expected) by observation point: %r; profile by profile: %r' % (bad, per), KNOWN_PRED)
    finally:
        P.defaultProfiles = None
    # every context other than @font-face gives a declaration the verdict it has in a style rule
    CTX = ['a{%s}', '@page{%s}', '@page :left{%s}', '@page{@top-left{%s}}', '@media tv{a{%s}}', '@media tv{@media print{a{%s}}}', '@media tv{@page{%s}}']
    for n_, v_ in [('opacity', '0.5'), ('border-top-style', 'solid'), ('border-left-color', 'red'), ('cursor', 'pointer'), ('outline-color', 'red'),
                   ('overflow-x', 'hidden'), ('margin', '1cm'), ('size', 'a4'), ('color', 'red'), ('color', '4'), ('text-shadow', '1px 1px red'),
                   ('x-unknown', '1'), ('box-sizing', 'border-box')] + [(rng.choice(names), rng.choice(pool)) for _ in range(20 if quick else 400)]:
        got = {}

        def first_prop(rules):
            for r_ in rules:
                st_ = getattr(r_, 'style', None)
                if st_ is not None and st_.length:
                    return st_.getProperties(all=True)[0]
                if r_.type in (r_.MEDIA_RULE, r_.PAGE_RULE):
                    p_ = first_prop(r_.cssRules)
                    if p_ is not None:
                        return p_
            return None
        for tmpl in CTX:
            ctx.case(('context', tmpl, n_, v_))
            try:
                sh = cssutils.parseString(tmpl % ('%s:%s' % (n_, v_)))
                p_ = first_prop(sh.cssRules)
                if p_ is not None:
                    got[tmpl] = (p_.valid, sh.valid)
            except Exception as e:
                ctx.violation('raises', {'name': n_, 'value': v_, 'context': tmpl}, '%s: %s' % (type(e).__name__, e), KNOWN_PRED)
        if len(set(got.values())) > 1:
            ctx.violation('verdict-depends-on-spelling-or-path', {'name': n_, 'value': v_, 'family': 'context'},
                          '(declaration valid, sheet valid) by context: %r' % got, KNOWN_PRED)
    for v, exp in (('url(x.ttf)', True), ('red', False)):
        s = cssutils.parseString('@font-face{src:%s} a{src:%s}' % (v, v))
        ctx.case(('fontface', v))
        ff = s.cssRules[0].style.getProperties()[0].valid
        plain = s.cssRules[1].style.getProperties()[0].valid
        if ff != exp:
            ctx.violation('font-face-context', {'value': v}, '@font-face src valid=%r (expected %r)' % (ff, exp), KNOWN_PRED)
    ctx.sample({'name': 'clear', 'value': 'BOTH', 'verdict': verdicts('clear', 'BOTH')})
    ctx.sample({'name': 'color', 'value': '4', 'verdict': verdicts('color', '4')})


def replay(path):
    d = json.load(open(path))
    print(json.dumps(d['case']))
    print(d['detail'])
    return 0
