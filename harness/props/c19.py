"""C19 — URL enumeration / replacement exact; flattening @imports preserves meaning.
Coq: Model/Urls.v (DOM skeleton, getUrls/replaceUrls, urllib.parse + posixpath +
Replacer), Model/Resolve.v (parse-time loading over a virtual file system,
resolveImports), Proofs/UrlsFacts.v, Props/C19.v.
Correspondence: extracted model vs cssutils.getUrls / replaceUrls / Replacer /
resolveImports (and CPython's urlsplit / urljoin / normpath, which the model
re-states) on generated sheets, URL pairs and import trees.
Search: oracles stated with urllib.parse.urljoin and the generator's own
bookkeeping, independent of the Coq model."""
import json
import posixpath
import re
from urllib.parse import urljoin, urlsplit, urlparse, urlunparse

from harness import core
from harness.core import s2n, n2s

GEN = []

MANIFEST = dict(
    text='Machine-checked (Coq, closed under the global context) on a DOM skeleton (rules with nested rules, declaration values '
         'with nested functions): getUrls = import hrefs then every url() leaf in traversal order, each once; replaceUrls applies '
         'the replacer exactly once to each and changes nothing else (erasure frame, composition), identity replacer is a no-op; '
         'for the path algebra (urlsplit/urljoin/posixpath/Replacer re-stated from CPython 3.12 and the repaired Replacer): '
         're-basing commutes with resolution for every plain relative reference under every import href made of path segments; '
         'refuted for same-document references (kept verbatim); the flattened sheet has, class by class (@import / @namespace / '
         'other), the rules of the cascade-order expansion in order; each readable target is fetched once per import edge. '
         'The models are tied to cssutils and to urllib.parse/posixpath by differential runs of the extracted model on generated '
         'sheets, (href, url) pairs and import trees over a virtual file system (0 disagreements required). The serialised output of '
         'csscombine (normal/minified, target encodings) is covered by the urljoin oracle only.',
    note='Trusted: Coq kernel + vm_compute; extraction + driver; hand models of getUrls/replaceUrls/Replacer/resolveImports/'
         'CSSStyleSheet.add and of CPython urlsplit/urlunsplit/urljoin/posixpath.split/join/normpath (stdlib: validated by '
         'correspondence on every run, domain: no brackets, ASCII netloc); the harness projection of the cssutils DOM onto the skeleton; '
         'namespaces are generated with distinct prefixes (no de-duplication path). Fix patches fixes/C19-*.patch are assumed applied.',
    design='7/C19')

MEDIA_TEXT = ['all', 'print', 'screen', 'tv', 'print, tv', 'screen and (min-width: 100px)']
K_COMMENT, K_CHARSET, K_NAMESPACE, K_UNKNOWN = 1, 2, 3, 4
LEAF_STYLE, LEAF_FONTFACE, LEAF_MARGIN = 0, 1, 2
MARGINS = ['@top-left', '@top-center', '@top-right', '@bottom-left', '@bottom-center', '@bottom-right', '@left-top', '@right-middle']
PAGESEL = ['', ':first', ':left', ':right']
PROPS = ['background', 'background-image', 'src', 'content', 'cursor', 'list-style-image', 'x-a', 'border-image', 'filter']
TOKEN = re.compile(r'uu(\d+)uu')


# ------------------------------------------------------------------ trees
# item  = ('url', u) | ('other', n) | ('fn', n, [item])
# rule  = ('other', kind, id, txt) | ('import', href, media, target|None|found-flag)
#       | ('leaf', kind, id, style) | ('page', id, nested, style) | ('media', m, nested)

def enc_str(s):
    return [len(s)] + s2n(s)


def enc_item(it):
    if it[0] == 'other':
        return [0, it[1]]
    if it[0] == 'url':
        return [1] + enc_str(it[1])
    out = [2, it[1], len(it[2])]
    for a in it[2]:
        out += enc_item(a)
    return out


def enc_style(st):
    out = [len(st)]
    for v in st:
        out.append(len(v))
        for it in v:
            out += enc_item(it)
    return out


def enc_rule(r, shallow=False):
    k = r[0]
    if k == 'other':
        return [0, r[1], r[2]] + enc_str(r[3])
    if k == 'import':
        t = r[3]
        if shallow:
            return [1] + enc_str(r[1]) + [r[2], 1 if t else 0]
        if t is None or t is False:
            return [1] + enc_str(r[1]) + [r[2], 0]
        return [1] + enc_str(r[1]) + [r[2], 1] + enc_sheet(t)
    if k == 'leaf':
        return [2, r[1], r[2]] + enc_style(r[3])
    if k == 'page':
        return [3, r[1]] + enc_sheet(r[2]) + enc_style(r[3])
    return [4, r[1]] + enc_sheet(r[2])


def enc_sheet(sh, shallow=False):
    out = [len(sh)]
    for r in sh:
        out += enc_rule(r, shallow)
    return out


def css_string(s):
    return '"' + s.replace('\\', '\\\\').replace('"', '\\"') + '"'


SAFE_UNQUOTED = re.compile(r"[A-Za-z0-9./:?#%~@=&+_\-;,!*$]+\Z")


def render_url(u, rng):
    if SAFE_UNQUOTED.match(u) and rng.random() < 0.6:
        return 'url(%s)' % u
    return 'url(%s)' % css_string(u)


def render_item(it, rng):
    if it[0] == 'other':
        return ('"\xe9%d"' % it[1]) if it[1] >= 5000 else '%dpx' % it[1]
    if it[0] == 'url':
        return render_url(it[1], rng)
    if it[1] % 4 == 0 and len(it[2]) == 1:
        # a var() reference with a fallback: its url() is a url() of the sheet like any other
        return 'var(v%d, %s)' % (it[1], render_item(it[2][0], rng))
    sep = rng.choice([', ', ' '])
    return 'f%d(%s)' % (it[1], sep.join(render_item(a, rng) for a in it[2]))


def render_style(st, rng):
    return '; '.join('%s: %s' % (rng.choice(PROPS), ' '.join(render_item(i, rng) for i in v)) for v in st)


def render_rule(r, rng):
    k = r[0]
    if k == 'other':
        if r[1] == K_COMMENT:
            return r[3]
        if r[1] == K_CHARSET:
            return '@charset "%s";' % r[3]
        if r[1] == K_NAMESPACE:
            return '@namespace p%d "u%d";' % (r[2], r[2])
        return '@x%d y;' % r[2]
    if k == 'import':
        m = '' if (r[2] == 0 and rng.random() < 0.7) else ' ' + MEDIA_TEXT[r[2]]
        if SAFE_UNQUOTED.match(r[1]) and rng.random() < 0.4:
            return '@import url(%s)%s;' % (r[1], m)
        return '@import %s%s;' % (css_string(r[1]), m)
    if k == 'leaf':
        if r[1] == LEAF_STYLE:
            return 's%d { %s }' % (r[2], render_style(r[3], rng))
        if r[1] == LEAF_FONTFACE:
            return '@font-face { %s }' % render_style(r[3], rng)
        return '%s { %s }' % (MARGINS[r[2]], render_style(r[3], rng))
    if k == 'page':
        inner = ' '.join(render_rule(x, rng) for x in r[2])
        return '@page %s { %s %s }' % (PAGESEL[r[1]], inner, render_style(r[3], rng))
    return '@media %s { %s }' % (MEDIA_TEXT[r[1]], ' '.join(render_rule(x, rng) for x in r[2]))


def render_sheet(sh, rng):
    return '\n'.join(render_rule(r, rng) for r in sh)


# the generator's own bookkeeping of what getUrls has to produce
def doc_item_urls(it):
    if it[0] == 'url':
        return [it[1]]
    if it[0] == 'fn':
        return [u for a in it[2] for u in doc_item_urls(a)]
    return []


def doc_rule_urls(r):
    if r[0] == 'leaf':
        return [u for v in r[3] for i in v for u in doc_item_urls(i)]
    if r[0] == 'page':
        return [u for x in r[2] for u in doc_rule_urls(x)] + [u for v in r[3] for i in v for u in doc_item_urls(i)]
    if r[0] == 'media':
        return [u for x in r[1 + 1] for u in doc_rule_urls(x)]
    return []


def doc_urls(sh):
    return [r[1] for r in sh if r[0] == 'import'] + [u for r in sh for u in doc_rule_urls(r)]


def map_item(f, it):
    if it[0] == 'url':
        return ('url', f(it[1]))
    if it[0] == 'fn':
        return ('fn', it[1], [map_item(f, a) for a in it[2]])
    return it


def map_rule(f, r):
    if r[0] == 'leaf':
        return ('leaf', r[1], r[2], [[map_item(f, i) for i in v] for v in r[3]])
    if r[0] == 'page':
        return ('page', r[1], [map_rule(f, x) for x in r[2]], [[map_item(f, i) for i in v] for v in r[3]])
    if r[0] == 'media':
        return ('media', r[1], [map_rule(f, x) for x in r[2]])
    return r


# ------------------------------------------------------- DOM -> skeleton
_media_ids = {}


def media_id(text):
    import cssutils
    if not _media_ids:
        for i, t in enumerate(MEDIA_TEXT):
            _media_ids[cssutils.stylesheets.MediaList(t).mediaText] = i
    return _media_ids.get(text, 99)


def proj_values(values):
    import cssutils
    out = []
    for v in values:
        if isinstance(v, cssutils.css.URIValue):
            out.append(('url', v.uri))
        elif isinstance(v, cssutils.css.CSSVariable):
            n = int(re.sub(r'\D', '', v.name) or 0)
            out.append(('fn', n, proj_values([i.value for i in v.seq if isinstance(i.value, cssutils.css.Value)])))
        elif isinstance(v, cssutils.css.CSSFunction) and type(v) is cssutils.css.CSSFunction:
            name = v.seq[0].value
            n = int(re.sub(r'\D', '', name) or 0)
            out.append(('fn', n, proj_values([i.value for i in v.seq if isinstance(i.value, cssutils.css.Value)])))
        else:
            out.append(('other', int(re.sub(r'\D', '', v.cssText) or 0)))
    return out


def proj_style(style):
    return [proj_values(p.propertyValue) for p in style.getProperties(all=True)]


def proj_rule(r):
    T = r.type
    if T == r.COMMENT:
        return ('other', K_COMMENT, 0, r.cssText)
    if T == r.CHARSET_RULE:
        return ('other', K_CHARSET, 0, r.encoding)
    if T == r.NAMESPACE_RULE:
        return ('other', K_NAMESPACE, int(r.prefix[1:] or 0), '')
    if T == r.UNKNOWN_RULE:
        return ('other', K_UNKNOWN, int(re.sub(r'\D', '', r.atkeyword) or 0), '')
    if T == r.IMPORT_RULE:
        return ('import', r.href, media_id(r.media.mediaText), bool(r.hrefFound))
    if T == r.STYLE_RULE:
        return ('leaf', LEAF_STYLE, int(re.sub(r'\D', '', r.selectorText) or 0), proj_style(r.style))
    if T == r.FONT_FACE_RULE:
        return ('leaf', LEAF_FONTFACE, 0, proj_style(r.style))
    if T == r.MARGIN_RULE:
        return ('leaf', LEAF_MARGIN, MARGINS.index(r.margin), proj_style(r.style))
    if T == r.PAGE_RULE:
        return ('page', PAGESEL.index(r.selectorText), [proj_rule(x) for x in r.cssRules], proj_style(r.style))
    if T == r.MEDIA_RULE:
        return ('media', media_id(r.media.mediaText), [proj_rule(x) for x in r.cssRules])
    return ('other', 98, 0, r.cssText)


def proj_sheet(sheet):
    return [proj_rule(r) for r in sheet.cssRules]


# ----------------------------------------------------------- generators
class Gen:
    def __init__(self, rng):
        self.rng = rng
        self.n = 0
        self.origin = {}      # token -> (location, url)

    def fresh(self):
        self.n += 1
        return self.n

    URL_FORMS = [
        'uu%duu.png', 'img/uu%duu.png', '../uu%duu.png', '../../x/uu%duu.png', './uu%duu.png', 'a/./b/../uu%duu.png',
        '../../../../../uu%duu.png', '/abs/uu%duu.png', '//cdn/uu%duu.png', 'http://x/y/uu%duu.png', 'HTTP://h/uu%duu',
        'data:image/png;base64,uu%duu', 'uu%duu.png?v=1', 'uu%duu.png#f', 'uu%duu.png?a/b=../c#d/e?f', 'dir/uu%duu/',
        'a%%20b/uu%duu.png', 'uu%duu;p=1.png', "uu%duu's.png", 'uu%duu/.', 'y/..#uu%duu', 'x/y/../..?uu%duu', 'x/y/../../#uu%duu', 'a:b/uu%duu',
        './a:uu%duu', 'uu%duu//x.png', 'mailto:uu%duu@x', '..uu%duu', '.uu%duu/...', 'uu%duu,1!$&*+=~@.png', '..//uu%duu',
        '?uu%duu', '#uu%duu', 'sub/../uu%duu.png', 'x/y/z/../../../../uu%duu', '/uu%duu', '/../uu%duu', '//h/uu%duu?q#f',
        'uu%duu.svg#a:b/c', 'uu%duu?x:y', 'uu%duu;a/b;c',
    ]

    def url(self, loc=None):
        k = self.fresh()
        u = self.rng.choice(self.URL_FORMS) % k
        self.origin[k] = (loc, u)
        return u

    def item(self, loc, depth=0):
        r = self.rng.random()
        if r < 0.45:
            return ('url', self.url(loc))
        if r < 0.6 and depth < 2:
            return ('fn', self.fresh(), [self.item(loc, depth + 1) for _ in range(self.rng.randrange(0, 4))])
        if r < 0.65:
            return ('other', 5000 + self.fresh())
        return ('other', self.fresh())

    def style(self, loc, lo=1):
        return [[self.item(loc) for _ in range(self.rng.randrange(1, 4))] for _ in range(self.rng.randrange(lo, 4))]

    def comment(self):
        return ('other', K_COMMENT, 0, '/*c%d*/' % self.fresh())

    def body_rule(self, loc, nested=False):
        r = self.rng.random()
        if r < 0.5:
            return ('leaf', LEAF_STYLE, self.fresh(), self.style(loc))
        if r < 0.6:
            return self.comment()
        if r < 0.72:
            margins = sorted(self.rng.sample(range(len(MARGINS)), self.rng.randrange(0, 3)))
            return ('page', self.rng.randrange(len(PAGESEL)),
                    [('leaf', LEAF_MARGIN, m, self.style(loc)) for m in margins], self.style(loc))
        if nested:
            return ('leaf', LEAF_STYLE, self.fresh(), self.style(loc))
        if r < 0.82:
            return ('leaf', LEAF_FONTFACE, 0, self.style(loc))
        if r < 0.88:
            return ('other', K_UNKNOWN, self.fresh(), '')
        return ('media', self.rng.randrange(1, len(MEDIA_TEXT)),
                [('leaf', LEAF_STYLE, self.fresh(), self.style(loc))]
                + [self.body_rule(loc, True) for _ in range(self.rng.randrange(0, 3))])


def gen_flat_sheet(g):
    """a single sheet for the getUrls / replaceUrls part"""
    rng = g.rng
    sh = []
    if rng.random() < 0.2:
        sh.append(('other', K_CHARSET, 0, 'utf-8'))
    if rng.random() < 0.3:
        sh.append(g.comment())
    for _ in range(rng.choice([0, 0, 1, 2, 3])):
        sh.append(('import', g.url(), rng.randrange(len(MEDIA_TEXT)), None))
        if rng.random() < 0.2:
            sh.append(g.comment())
    if rng.random() < 0.3:
        sh.append(('other', K_NAMESPACE, g.fresh(), ''))
    for _ in range(rng.randrange(0, 6)):
        sh.append(g.body_rule(None))
    return sh


HREF_PARTS = ['sub', 'a.css', '..', '.', 'x', 'deep', 'a%20b', 'b;p', "c'd", 'e:f', '~g', '']
URL_PARTS = ['img.png', 'sub', '..', '.', 'x', 'a%20b.png', 'b;p', "c'd", 'e:f', '', 'f,g', '...', '..h', '%', 'i=j&k']
SOUP = 'ab./:?#;%~@ '


def gen_ref(rng, parts, sheetlike):
    """a URL reference put together from parts (covers every branch of urlsplit)"""
    r = rng.random()
    if r < 0.06:
        return ''.join(rng.choice(SOUP) for _ in range(rng.randrange(0, 9)))
    scheme = rng.choice(['', '', '', '', '', '', 'http:', 'HTTPS:', 'file:', 'data:', 'mailto:', 'x-y:', 'ftp:', 'svn+ssh:', 'tel:', '1a:', ':'])
    netloc = rng.choice(['', '', '', '', '//h', '//h:80', '//u@h', '//', '//other'])
    segs = [rng.choice(parts) for _ in range(rng.randrange(0, 5))]
    if sheetlike and rng.random() < 0.8:
        segs.append(rng.choice(['a.css', 'b.css', 'c.d.css']))
    path = '/'.join(segs)
    if rng.random() < 0.2 or (netloc and path and rng.random() < 0.9):
        path = '/' + path
    q = rng.choice(['', '', '', '?', '?v=1', '?a/b', '?x?y', '?../z', '?a:b'])
    f = rng.choice(['', '', '', '#', '#f', '#a/b', '#x#y', '#?q', '#../z'])
    return scheme + netloc + path + q + f


BASES = ['http://h/d/e/m.css', 'http://h/m.css', 'file:///d/m.css', 'https://h:8080/d/e/', 'http://h', 'http://h/d/e/m.css?q=1#f',
         'http://h/d;p/e/m.css;x', 'd/m.css', '/d/m.css', '//h/d/m.css', 'ftp://h/a/b', 'svn+ssh://h/a/b/c', 'mailto:x@y', 'http://h/a/../b/./c.css', '']


EMPTY_PARAMS = re.compile(r';(?=$|[?#])')


def norm_url(x):
    """drop empty delimiters ('?', '#', ';' with nothing behind): equivalent by RFC 3986 6.2.3 / urlunparse"""
    return urlunparse(urlparse(x))


def sheet_like(href):
    """an import href that names a file: hierarchical, last path segment a name"""
    try:
        s = urlsplit(href)
    except ValueError:
        return False
    last = s.path.rsplit('/', 1)[-1]
    if s.scheme and not (s.netloc or s.path.startswith('/')):
        return False          # 'http:a/b': urljoin resolves it like a relative reference (RFC 1808 leftover)
    if '//' in s.path:
        return False          # empty path segments: posixpath.normpath drops them, urljoin keeps some
    return s.scheme in ('', 'http', 'https', 'file', 'ftp') and last not in ('', '.', '..') and bool(s.path)


def plain_ref(u):
    """the class of references for which re-basing has to commute with resolution: hierarchical
    references with a path (or an authority); references to the sheet itself ('', '#f', '?q') are
    kept verbatim by design and not asserted"""
    try:
        s = urlsplit(u)
    except ValueError:
        return False
    if re.search(r'(^|/)\.{1,2};', s.path):
        return False          # '.;x': a dot segment for schemes with parameters, a name for the others (urlparse)
    return not s.scheme and bool(s.path or s.netloc) and not s.path.startswith('//')


# ------------------------------------------------------------ part A: URLs
def urls_part(ctx, n):
    import cssutils
    rng = ctx.rng
    cases, impl_out = [], []
    pinned = 'pathname2url' in (cssutils.Replacer.__call__.__code__.co_names)
    ctx.extra['replacer_variant'] = 'pinned' if pinned else 'repaired'
    op_repl = 195 if pinned else 192
    for _ in range(n):
        href = gen_ref(rng, HREF_PARTS, True)
        u = gen_ref(rng, URL_PARTS, False)
        if '[' in href + u or ']' in href + u:
            continue
        case = {'href': href, 'url': u}
        ctx.case(('repl', href, u))
        try:
            got = cssutils.Replacer(href)(u)
        except Exception as e:
            ctx.violation('replacer-raises', case, '%s: %s' % (type(e).__name__, e), KNOWN_PRED)
            continue
        cases.append(([op_repl] + enc_str(href) + enc_str(u), ('replacer', case, got)))
        # oracle: an absolute URL is kept; otherwise re-basing commutes with resolution, from any combined-sheet location
        try:
            if urlsplit(u).scheme and got != u:
                ctx.violation('absolute-kept', case, 'absolute %r rewritten to %r' % (u, got), KNOWN_PRED)
        except ValueError:
            pass
        if sheet_like(href) and plain_ref(u) and all(ord(c) > 32 for c in href + u) and not EMPTY_PARAMS.search(u):
            for B in ('http://h/d/e/m.css', 'file:///m.css', 'https://h:8080/a/b/c/d/e/f/g.css'):
                lhs = norm_url(urljoin(B, got))
                rhs = norm_url(urljoin(urljoin(B, href), u))
                if lhs != rhs:
                    ctx.violation('rebase', dict(case, base=B, rewritten=got),
                                  'from %s: rewritten %r resolves to %s, original resolved to %s' % (B, got, lhs, rhs), KNOWN_PRED)
                    break
        # the stdlib functions the model re-states
        B = rng.choice(BASES)
        for b, x in ((B, u), (B, href)):
            cases.append(([193] + enc_str(b) + enc_str(x), ('urljoin', {'base': b, 'url': x}, urljoin(b, x))))
        s = urlsplit(u)
        cases.append(([194] + s2n(u), ('urlsplit', {'url': u}, None, [s.scheme, s.netloc, s.path, s.query, s.fragment])))
        p = '/'.join(rng.choice(URL_PARTS + ['', '']) for _ in range(rng.randrange(0, 6)))
        cases.append(([196] + s2n(p), ('normpath', {'path': p}, posixpath.normpath(p))))
    if ctx.model.available:
        outs = ctx.model.run([c[0] for c in cases])
        agree = 0
        for (_, meta), o in zip(cases, outs):
            if meta[0] == 'urlsplit':
                want = [x for part in meta[3] for x in enc_str(part)]
            else:
                want = s2n(meta[2])
            if o == want or (o is None and want == []) or (o == [] and want == []):
                agree += 1
            else:
                ctx.disagree(meta[0], meta[1], meta[2] if meta[0] != 'urlsplit' else meta[3], n2s(o) if o else o)
        ctx.extra['correspondence_urls'] = {'cases': len(cases), 'agree': agree}
    else:
        ctx.broken.append(('correspondence', 'extracted model not available'))


# ------------------------------------------- part B: getUrls / replaceUrls
def install_stub():
    """no network: the library's default fetcher is replaced by a recording stub"""
    import cssutils.util
    log = []

    def stub(url):
        log.append(url)
        return None
    cssutils.util._defaultFetcher = stub
    return log


def erase(sh):
    return [map_rule(lambda u: '', r) if r[0] != 'import' else ('import', '', r[2], r[3]) for r in sh]


def geturls_part(ctx, n):
    import cssutils
    from harness import impl
    rng = ctx.rng
    model_cases = []
    for k in range(n):
        impl.reset()
        install_stub()
        g = Gen(rng)
        tree = gen_flat_sheet(g)
        text = render_sheet(tree, rng)
        case = {'css': text}
        ctx.case(('sheet', text))
        if k == 0:
            ctx.sample(case)
        try:
            sheet = cssutils.parseString(text, href='http://h/d/m.css')
            before = list(cssutils.getUrls(sheet))
        except Exception as e:
            ctx.violation('geturls-raises', case, '%s: %s' % (type(e).__name__, e), KNOWN_PRED)
            continue
        want = doc_urls(tree)
        if before != want:
            ctx.violation('geturls', case, 'getUrls gave %r, the sheet has (imports, then document order) %r' % (before, want), KNOWN_PRED)
            continue
        p0 = proj_sheet(sheet)
        text0 = sheet.cssText
        # identity replacer
        calls = []
        cssutils.replaceUrls(sheet, lambda u: (calls.append(u), u)[1])
        if sorted(calls) != sorted(before):
            ctx.violation('replace-calls', case, 'replacer called with %r for urls %r' % (calls, before), KNOWN_PRED)
        if sheet.cssText != text0 or proj_sheet(sheet) != p0 or list(cssutils.getUrls(sheet)) != before:
            ctx.violation('identity-noop', case, 'identity replacer changed the sheet', KNOWN_PRED)
            continue
        code = rng.choice([1, 2])
        ign = rng.random() < 0.3
        href = gen_ref(rng, HREF_PARTS, True).replace('[', '').replace(']', '')
        f = (lambda u: 'X/' + u) if code == 1 else cssutils.Replacer(href)
        calls = []
        try:
            cssutils.replaceUrls(sheet, lambda u: (calls.append(u), f(u))[1], ignoreImportRules=ign)
        except Exception as e:
            ctx.violation('replace-raises', dict(case, href=href, code=code), '%s: %s' % (type(e).__name__, e), KNOWN_PRED)
            continue
        after = list(cssutils.getUrls(sheet))
        nimp = sum(1 for r in tree if r[0] == 'import')
        exp = (before[:nimp] if ign else [f(u) for u in before[:nimp]]) + [f(u) for u in before[nimp:]]
        c2 = dict(case, href=href, code=code, ignoreImportRules=ign)
        if sorted(calls) != sorted(before[nimp:] if ign else before):
            ctx.violation('replace-calls', c2, 'replacer called with %r for urls %r' % (calls, before), KNOWN_PRED)
        if after != exp:
            ctx.violation('replace-exact', c2, 'after replaceUrls getUrls gives %r, expected %r' % (after, exp), KNOWN_PRED)
        p1 = proj_sheet(sheet)
        if erase(p1) != erase(p0):
            ctx.violation('replace-frame', c2, 'replaceUrls changed something that is not a URL', KNOWN_PRED)
        # correspondence: the model on the generated tree
        model_cases.append(([190] + enc_sheet(tree), ('get_urls', case, [x for u in before for x in enc_str(u)], len(before))))
        model_cases.append(([191, code, 1 if ign else 0] + enc_str(href) + enc_sheet(tree),
                            ('replace_urls', c2, enc_sheet([r if r[0] != 'import' else ('import', r[1], r[2], None) for r in p1]), None)))
    if ctx.model.available:
        outs = ctx.model.run([c[0] for c in model_cases])
        agree = 0
        for (_, meta), o in zip(model_cases, outs):
            want = ([meta[3]] + meta[2]) if meta[0] == 'get_urls' else meta[2]
            if o == want:
                agree += 1
            else:
                ctx.disagree(meta[0], meta[1], want[:60], (o or [])[:60])
        ctx.extra['correspondence_sheets'] = {'cases': len(model_cases), 'agree': agree}


# ------------------------------------------------------ part C: flattening
PREFIXES = ['http://h', 'https://h:8080', 'file://']
DIRS = ['/d/e/', '/d/e/sub/', '/d/e/sub/deep/', '/d/', '/d/sib/', '/', '/d/e/t/', '/d/e/a%20b/', '/q/r/s/t/']


class Tree:
    """a virtual file system with one root sheet and its import graph"""

    def __init__(self, rng, cyclic=False):
        self.rng = rng
        self.g = Gen(rng)
        self.prefix = rng.choice(PREFIXES)
        self.files = {}        # location -> tree (source form: imports carry no target)
        self.level = {}
        self.order = []
        self.cyclic = cyclic
        self.root = self.prefix + '/d/e/m.css'
        self.make(self.root, 0)

    def new_loc(self):
        k = self.g.fresh()
        if self.rng.random() < 0.12 and self.prefix != 'file://':
            return 'http://other/y/f%d.css' % k
        return self.prefix + self.rng.choice(DIRS) + 'f%d.css' % k

    def href_for(self, src, dst):
        rng = self.rng
        s, d = urlsplit(src), urlsplit(dst)
        cands = [dst]
        if (s.scheme, s.netloc) == (d.scheme, d.netloc):
            rel = posixpath.relpath(d.path, posixpath.dirname(s.path))
            cands += [rel, rel, rel, './' + rel, d.path, 'zz/../' + rel]
            if s.scheme != 'file':
                cands.append('//' + d.netloc + d.path)
        elif s.scheme == d.scheme and s.scheme != 'file':
            cands.append('//' + d.netloc + d.path)
        h = rng.choice(cands)
        return h if urljoin(src, h) == dst else dst

    def make(self, loc, level):
        rng = self.rng
        self.level[loc] = level
        self.order.append(loc)
        sh = []
        if rng.random() < 0.15:
            sh.append(('other', K_CHARSET, 0, 'utf-8'))
        if rng.random() < 0.25:
            sh.append(self.g.comment())
        nimp = 0 if level >= 4 else rng.choice([0, 1, 1, 2, 2, 3]) if level < 3 else rng.choice([0, 0, 1])
        if level == 0:
            nimp = max(nimp, 1)
        for _ in range(nimp):
            r = rng.random()
            media = rng.choice([0, 0, 0, 1, 2, 4, 5])
            if r < 0.12:
                k = self.g.fresh()
                href = rng.choice(['missing%d.css', 'sub/missing%d.css', '../missing%d.css', '/missing%d.css', 'http://other/missing%d.css']) % k
                if self.prefix == 'file://' and href.startswith('http'):
                    href = 'missing%d.css' % k
            else:
                deeper = [l for l in self.order if self.level[l] > level]
                back = [l for l in self.order if self.level[l] <= level]
                if self.cyclic and rng.random() < 0.35:
                    dst = rng.choice(back)
                elif deeper and r < 0.3:
                    dst = rng.choice(deeper)
                else:
                    dst = self.new_loc()
                    self.make(dst, level + 1)
                href = self.href_for(loc, dst)
            sh.append(('import', href, media, None))
            if rng.random() < 0.15:
                sh.append(self.g.comment())
        if rng.random() < 0.15:
            sh.append(('other', K_NAMESPACE, self.g.fresh(), ''))
        simple = rng.random() < 0.45      # wrappable: comments and style rules only
        for _ in range(rng.randrange(0, 4)):
            if simple:
                sh.append(self.g.comment() if rng.random() < 0.2 else ('leaf', LEAF_STYLE, self.g.fresh(), self.g.style(loc)))
            else:
                sh.append(self.g.body_rule(loc))
        for r in sh:
            self.tag(r, loc)
        self.files[loc] = sh

    def tag(self, r, loc):
        for u in doc_rule_urls(r):
            m = TOKEN.search(u)
            if m:
                self.g.origin[int(m.group(1))] = (loc, u)

    def texts(self, strip_comments=False):
        out = {}
        for loc, sh in self.files.items():
            out[loc] = render_sheet(sh, self.rng)
        return out


def strip_comments(sh):
    out = []
    for r in sh:
        if r[0] == 'other' and r[1] == K_COMMENT and not r[3].startswith('/* START @import'):
            continue
        if r[0] == 'media':
            r = ('media', r[1], strip_comments(r[2]))
        out.append(r)
    return out


def oracle_expand(files, loc, anc, unres):
    """independent re-statement of the flattening rule on the source trees: returns
    (entries, edges) where entries are ('rule', key) / ('media', m, [entries]) / ('kept', absolute target, media)
    in cascade order and edges the absolute targets that have to be fetched (readable ones)"""
    entries, edges = [], []
    for r in files[loc]:
        if r[0] == 'other' and r[1] in (K_CHARSET, K_COMMENT):
            continue
        if r[0] != 'import':
            entries.append(('rule', rule_key(r)))
            continue
        full = urljoin(loc, r[1])
        if full in anc:
            entries.append(('kept', full, r[2]))
            unres.append(r[1])
            continue
        edges.append(full)
        if full not in files:
            entries.append(('kept', full, r[2]))
            unres.append(r[1])
            continue
        sub, e2 = oracle_expand(files, full, anc + [full], unres)
        edges += e2
        if r[2] == 0:
            entries += sub
        elif all(e[0] == 'rule' and e[1][0] == 'style' for e in sub):
            entries.append(('media', r[2], sub))
        else:
            entries.append(('kept', full, r[2]))
    return entries, edges


def rule_key(r):
    if r[0] == 'leaf':
        return ('style' if r[1] == LEAF_STYLE else 'leaf%d' % r[1], r[2], tuple(TOKEN.findall(' '.join(doc_rule_urls(r)))))
    if r[0] == 'page':
        return ('page', r[1], tuple(TOKEN.findall(' '.join(doc_rule_urls(r)))))
    if r[0] == 'media':
        return ('mediarule', r[1], tuple(rule_key(x) for x in r[2] if not (x[0] == 'other' and x[1] == K_COMMENT)))
    return ('other', r[1], r[2])


def classes(entries):
    """class-wise order: kept imports, namespaces, the rest (CSSStyleSheet.add keeps the order inside a class)"""
    kept = [e for e in entries if e[0] == 'kept']
    ns = []
    for e in entries:       # a namespace declared again (a sheet imported twice) is not repeated
        if e[0] == 'rule' and e[1][0] == 'other' and e[1][1] == K_NAMESPACE and e not in ns:
            ns.append(e)
    rest = [e for e in entries if e[0] != 'kept' and e not in ns]
    return kept, ns, rest


def flatten_case(ctx, t, texts, minify, case, model_cases):
    import cssutils
    import cssutils.script
    from harness import impl
    impl.reset()
    dlog = install_stub()
    log = []

    def fetch(url):
        log.append(url)
        if url in texts:
            return None, texts[url]
        return None
    try:
        parser = cssutils.CSSParser(fetcher=fetch, parseComments=not minify)
        sheet = parser.parseString(texts[t.root], href=t.root)
        parselog = list(log)
        combined = cssutils.resolveImports(sheet)
        proj = proj_sheet(combined)
    except Exception as e:
        ctx.violation('flatten-raises', case, '%s: %s' % (type(e).__name__, e), KNOWN_PRED)
        return
    # parseComments=False holds for the text given to the parser; imported sheets are parsed with comments
    files = t.files if not minify else {k: (strip_comments(v) if k == t.root else v) for k, v in t.files.items()}
    unres = []
    want, edges = oracle_expand(files, t.root, [t.root], unres)
    got = entries_of_combined(proj, t.root)
    wk, wn, wr = classes(want)
    gk, gn, gr = classes(got)
    if gr != wr or gn != wn:
        ctx.violation('cascade', case, 'combined sheet has %r, the cascade-order expansion is %r' % (gr[:12] + gn, wr[:12] + wn), KNOWN_PRED)
    if [(e[2]) for e in gk] != [(e[2]) for e in wk] or len(gk) != len(wk):
        ctx.violation('kept-imports', case, 'kept @import rules %r, expected %r' % (gk, wk), KNOWN_PRED)
    elif gk != wk:
        hrefs = [r[1] for r in proj if r[0] == 'import']
        bad = [(a, b, h) for a, b, h in zip(gk, wk, hrefs) if a != b]
        src = [[r[1], urljoin(loc, r[1])] for loc, sh in files.items() for r in sh if r[0] == 'import']
        ctx.violation('kept-import-rebase', dict(case, bad=[[a[1], b[1], h] for a, b, h in bad], root=t.root, source_imports=src),
                      'a kept @import resolves to %s from the combined sheet, to %s from its own sheet' % (bad[0][0][1], bad[0][1][1]), KNOWN_PRED)
    url_oracle(ctx, t, [u for r in proj for u in doc_rule_urls(r)], case, 'rebase-flatten')
    # each target once per import edge while parsing, nothing at all while flattening
    from collections import Counter
    cw, cg = Counter(edges), Counter(parselog)
    if cw != cg:
        over = sorted(u for u in cg if cg[u] > cw.get(u, 0))
        under = sorted(u for u in cw if cg.get(u, 0) < cw[u])
        ctx.violation('fetch-once', dict(case, over=over, under=under),
                      'fetched more often than once per import edge: %r; less often: %r' % (over, under), KNOWN_PRED)
    later = log[len(parselog):] + dlog
    if later:
        unresolved = sorted(set(urljoin(L, h) for L in files for h in unres))
        ctx.violation('refetch', dict(case, refetched=later, import_refs=unresolved),
                      'resolveImports fetched again: %r' % later, KNOWN_PRED)
    # correspondence
    model_cases.append(([197] + enc_str(t.root) + [len(files)] + [x for loc in files for x in enc_str(loc) + enc_sheet(files[loc])]
                        + enc_sheet(files[t.root]),
                        (case, [len(parselog)] + [x for u in parselog for x in enc_str(u)] + enc_sheet(proj, shallow=True))))
    return proj


def entries_of_combined(proj, root):
    out = []
    for r in proj:
        if r[0] == 'other' and r[1] in (K_CHARSET, K_COMMENT):
            continue
        if r[0] == 'import':
            out.append(('kept', urljoin(root, r[1]), r[2]))
        elif r[0] == 'media':
            keys = [('rule', rule_key(x)) for x in r[2] if x[0] != 'other']
            out.append(('media?', r[1], keys, ('rule', rule_key(r))))
        else:
            out.append(('rule', rule_key(r)))
    # a media block is a wrapper exactly when the expansion says so; decide by content keys later
    return [normalise_media(e) for e in out]


_source_media_keys = set()


def normalise_media(e):
    if e[0] != 'media?':
        return e
    if e[3][1] in _source_media_keys:
        return e[3]
    return ('media', e[1], e[2])


def url_oracle(ctx, t, urls, case, kind):
    """from the combined sheet's location every url() resolves to what it resolved to from its own sheet"""
    for new in urls:
        m = TOKEN.search(new)
        if not m:
            ctx.violation(kind, dict(case, rewritten=new), 'a url() of unknown origin: %r' % new, KNOWN_PRED)
            continue
        loc, orig = t.g.origin[int(m.group(1))]
        if not plain_ref(orig):
            if new != orig and urljoin(t.root, new) != urljoin(loc, orig):
                ctx.violation(kind, dict(case, original=orig, sheet=loc, rewritten=new), 'same-document reference rewritten to %r' % new, KNOWN_PRED)
            continue
        lhs, rhs = norm_url(urljoin(t.root, new)), norm_url(urljoin(loc, orig))
        if lhs != rhs:
            ctx.violation(kind, dict(case, original=orig, sheet=loc, rewritten=new, root=t.root),
                          'url(%s) of %s became url(%s): resolves to %s, resolved to %s' % (orig, loc, new, lhs, rhs), KNOWN_PRED)


def combine_case(ctx, t, texts, minify, enc, case, proj_flat):
    """cssutils.script.csscombine: the serialised result, parsed again, holds the same rules with URLs that still resolve"""
    import cssutils
    import cssutils.script
    import cssutils.util
    from harness import impl
    impl.reset()

    def fetch(url):
        if url in texts:
            return None, texts[url]
        return None
    cssutils.util._defaultFetcher = fetch
    try:
        out = cssutils.script.csscombine(cssText=texts[t.root], href=t.root, minify=minify, targetencoding=enc)
        text = out.decode(enc or 'utf-8')
        install_stub()
        again = cssutils.CSSParser(parseComments=False).parseString(text, href=t.root)
        proj = proj_sheet(again)
    except Exception as e:
        install_stub()
        ctx.violation('combine-raises', dict(case, minify=minify, encoding=enc), '%s: %s' % (type(e).__name__, e), KNOWN_PRED)
        return
    finally:
        if type(cssutils.ser) is not cssutils.serialize.CSSSerializer:
            cssutils.ser = cssutils.serialize.CSSSerializer()
    c2 = dict(case, minify=minify, encoding=enc)
    url_oracle(ctx, t, [u for r in proj for u in doc_rule_urls(r)], c2, 'rebase-combine')
    if proj_flat is not None:
        a = [r for r in strip_all_comments(proj) if not (r[0] == 'other' and r[1] == K_CHARSET)]
        b = [r for r in strip_all_comments(proj_flat) if not (r[0] == 'other' and r[1] == K_CHARSET)]
        a = [('import', r[1], r[2], None) if r[0] == 'import' else r for r in a]
        b = [('import', r[1], r[2], None) if r[0] == 'import' else r for r in b]
        if minify:      # prefs.useMinified(): keepUsedNamespaceRulesOnly, keepUnknownAtRules = False
            a = [r for r in a if not (r[0] == 'other' and r[1] in (K_NAMESPACE, K_UNKNOWN))]
            b = [r for r in b if not (r[0] == 'other' and r[1] in (K_NAMESPACE, K_UNKNOWN))]
        # an empty @media block (wrapper of a sheet without rules) is not written
        a = [r for r in a if not (r[0] == 'media' and not r[2])]
        b = [r for r in b if not (r[0] == 'media' and not r[2])]
        if a != b:
            seen_ns, late = False, []
            for r in proj_flat:
                seen_ns = seen_ns or (r[0] == 'other' and r[1] == K_NAMESPACE)
                if r[0] == 'import' and seen_ns:
                    late.append(r[1])
            c2['imports_after_namespace'] = late
            c2['same_without_them'] = a == [r for r in b if not (r[0] == 'import' and r[1] in late)]
            ctx.violation('combine-differs', c2, 'csscombine output parsed again differs from resolveImports: %r vs %r' % (a[:6], b[:6]), KNOWN_PRED)


def strip_all_comments(sh):
    out = []
    for r in sh:
        if r[0] == 'other' and r[1] == K_COMMENT:
            continue
        if r[0] == 'media':
            r = ('media', r[1], strip_all_comments(r[2]))
        if r[0] == 'page':
            r = ('page', r[1], strip_all_comments(r[2]), r[3])
        out.append(r)
    return out


def flatten_part(ctx, n, ncombine):
    rng = ctx.rng
    model_cases = []
    for k in range(n):
        t = Tree(rng)
        texts = t.texts()
        minify = rng.random() < 0.3
        case = {'root': t.root, 'files': texts, 'minify': minify}
        ctx.case(('tree', tuple(sorted(texts.items())), minify))
        if k == 0:
            ctx.sample({'root': t.root, 'files': {u: x[:200] for u, x in texts.items()}})
        _source_media_keys.clear()
        for sh in t.files.values():
            for r in sh:
                if r[0] == 'media':
                    _source_media_keys.add(rule_key(r))
        proj = flatten_case(ctx, t, texts, minify, case, model_cases)
        if k < ncombine:
            combine_case(ctx, t, texts, rng.random() < 0.5, rng.choice([None, 'utf-8', 'ascii', 'iso-8859-1', 'utf-16']), case,
                         proj if not minify else None)
    return model_cases


def run_flatten_model(ctx, model_cases, label):
    if not ctx.model.available:
        return
    outs = ctx.model.run([c[0] for c in model_cases])
    agree = 0
    for (_, (case, want)), o in zip(model_cases, outs):
        if o == want:
            agree += 1
        else:
            o = o or []
            i = next((j for j, (a, b) in enumerate(zip(want, o)) if a != b), min(len(want), len(o)))
            ctx.disagree(label, {'root': case['root'], 'files': case['files'], 'minify': case.get('minify'), 'first_difference': i,
                                 'lengths': [len(want), len(o)]}, want[max(0, i - 30):i + 50], o[max(0, i - 30):i + 50])
    ctx.extra['correspondence_' + label] = {'cases': len(model_cases), 'agree': agree}


# --------------------------------------------------------- part D: cycles
def cycle_worker(case):
    """run in a worker process: parse + flatten a cyclic import graph"""
    import cssutils
    from harness import impl
    impl.reset()
    install_stub()
    texts, root = case['files'], case['root']

    def fetch(url):
        if url in texts:
            return None, texts[url]
        return None
    sheet = cssutils.CSSParser(fetcher=fetch).parseString(texts[root], href=root)
    combined = cssutils.resolveImports(sheet)
    return len(combined.cssRules)


def cycles_part(ctx, n):
    from harness import impl
    rng = ctx.rng
    trees = [Tree(rng, cyclic=True) for _ in range(n)]
    # the three canonical shapes first
    fixed = [
        {'root': 'http://h/m.css', 'files': {'http://h/m.css': '@import "m.css"; s1 { x-a: url(uu1uu.png) }'}},
        {'root': 'http://h/m.css', 'files': {'http://h/m.css': '@import "a/a.css"; s1 { x-a: 1px }',
                                             'http://h/a/a.css': '@import "../m.css" print; s2 { x-a: url(uu1uu.png) }'}},
        {'root': 'http://h/m.css', 'files': {'http://h/m.css': '@import "a.css"; s1 { x-a: 1px }',
                                             'http://h/a.css': '@import "b.css"; s2 { x-a: 1px }',
                                             'http://h/b.css': '@import "./a.css"; @import "/m.css" tv; s3 { x-a: 1px }'}},
    ]
    cases = fixed + [{'root': t.root, 'files': t.texts()} for t in trees]
    res = impl.Pool('harness.props.c19.cycle_worker', nproc=8).map(cases, lambda c: 20.0)
    ok = []
    for i, (c, r) in enumerate(zip(cases, res)):
        ctx.case(('cycle', tuple(sorted(c['files'].items()))))
        if r[0] != 'ok':
            ctx.violation('cycle', c, 'flattening a cyclic import graph: %s %s' % (r[0], r[1]), KNOWN_PRED)
        elif i >= len(fixed):
            ok.append(trees[i - len(fixed)])
    # the survivors also go through the oracles and the model
    model_cases = []
    for t in ok:
        texts = t.texts()
        case = {'root': t.root, 'files': texts, 'minify': False}
        _source_media_keys.clear()
        for sh in t.files.values():
            for r in sh:
                if r[0] == 'media':
                    _source_media_keys.add(rule_key(r))
        flatten_case(ctx, t, texts, False, case, model_cases)
    ctx.extra['cyclic_graphs'] = len(cases)
    return model_cases


# ------------------------------------------------------------------ known
def _refetch_of_unresolved(kind, case, detail):
    """resolveImports re-adds an @import it could not resolve; CSSStyleSheet.insertRule then tries to load it
    again, relative to the new parent and through the library's default fetcher"""
    return kind == 'refetch' and all(u in case['import_refs'] for u in case['refetched'])


def _kept_import_nested(kind, case, detail):
    """an @import kept inside an imported sheet of another directory keeps its relative href"""
    return kind == 'kept-import-rebase' and all([h, want] in case['source_imports'] for got, want, h in case['bad'])


def _import_after_namespace(kind, case, detail):
    """CSSStyleSheet.add puts @namespace in front of a leading comment, hence in front of an @import added behind
    that comment (C09): the serialised sheet has @import after @namespace, which no parser accepts"""
    return kind == 'combine-differs' and bool(case.get('imports_after_namespace')) and case.get('same_without_them') is True


KNOWN_PRED = {
    'C19-kept-import-after-namespace': _import_after_namespace,
    'C19-unresolved-import-refetched': _refetch_of_unresolved,
    'C19-kept-import-not-rebased': _kept_import_nested,
}


def media_edit_part(ctx):
    """the media of an @import rule changed through the DOM after the parse (rule.media = ..., rule.media.mediaText = ...):
    flattening wraps the imported rules in the media the rule has THEN.  Search only."""
    import cssutils
    from harness import impl
    files = {'http://h/a.css': '@import "b.css" screen; @import "c.css"; a{left:0}', 'http://h/b.css': 'b{top:0}', 'http://h/c.css': 'c{right:0}'}
    for edit_b in (None, 'print', 'all', 'tv, print'):
        for edit_c in (None, 'print', 'all'):
            for how in ('assign', 'mediaText'):
                impl.reset()
                install_stub()
                case = {'family': 'import-media-edit', 'b.css': edit_b, 'c.css': edit_c, 'how': how}
                ctx.case(('media-edit', edit_b, edit_c, how))
                try:
                    sheet = cssutils.CSSParser(fetcher=lambda url: (None, files[url]) if url in files else None).parseString(files['http://h/a.css'], href='http://h/a.css')
                    imps = [r for r in sheet.cssRules if r.type == r.IMPORT_RULE]
                    for r, e in zip(imps, (edit_b, edit_c)):
                        if e is not None:
                            if how == 'assign':
                                r.media = e
                            else:
                                r.media.mediaText = e
                    want = {name: cssutils.stylesheets.MediaList(r.media.mediaText).mediaText for name, r in zip('bc', imps)}
                    flat = cssutils.resolveImports(sheet)
                    got = {}
                    for r in flat.cssRules:
                        if r.type == r.STYLE_RULE and r.selectorText in 'bc':
                            got[r.selectorText] = 'all'
                        elif r.type == r.MEDIA_RULE:
                            for x in r.cssRules:
                                if x.type == x.STYLE_RULE and x.selectorText in 'bc':
                                    got[x.selectorText] = r.media.mediaText
                except Exception as e:  # noqa
                    ctx.violation('flatten-raises', case, '%s: %s' % (type(e).__name__, e), KNOWN_PRED)
                    continue
                if got != want:
                    ctx.violation('cascade', case, 'imported rules apply to %r, their @import rules say %r' % (got, want), KNOWN_PRED)
    install_stub()


def combine_namespace_part(ctx, n):
    """csscombine (normal and minified) over sheets whose namespaces are used at the top level, only inside @media and
    only inside nested @media: the output, parsed again, holds every style rule of the combined sheet with the same
    (namespace URI, name) pairs and declarations.  Search only."""
    import cssutils
    import cssutils.script
    import cssutils.util
    from harness import impl
    rng = ctx.rng
    SVG = 'http://www.w3.org/2000/svg'

    def walk(rules, med):
        for r in rules:
            if r.type == r.STYLE_RULE:
                yield (med, tuple(tuple(i.value for i in sel.seq if isinstance(i.value, tuple)) for sel in r.selectorList), r.style.cssText)
            elif r.type == r.MEDIA_RULE:
                yield from walk(r.cssRules, med + (r.media.mediaText,))
    for _ in range(n):
        impl.reset()
        body = rng.choice(['svg|a{left:0}', '@media print{svg|a{left:0}}', '@media print{@media tv{svg|a{left:0}}}',
                           '@media print{b{top:0} c:not(svg|a){left:0}}'])
        extra = rng.choice(['', 'k{background:url(i/k.png)}', '@namespace x "http://x";'])
        root = 'http://h/css/main.css'
        texts = {root: '@import "q/p.css"%s; t{background:url(t.png)}' % rng.choice(['', ' screen']),
                 'http://h/css/q/p.css': '@namespace svg "%s"; %s %s' % (SVG, extra if extra.startswith('@') else '', body + ' ' + ('' if extra.startswith('@') else extra))}
        if rng.random() < 0.5:
            # the namespace is declared and used in the root sheet itself
            texts = {root: '@namespace svg "%s"; %s t{background:url(t.png)}' % (SVG, body)}
        outs = {}
        case = {'files': texts, 'family': 'combine-namespace'}
        ctx.case(('combine-ns', json.dumps(texts, sort_keys=True)))
        try:
            for minify in (False, True):
                cssutils.util._defaultFetcher = lambda url: (None, texts[url]) if url in texts else None
                out = cssutils.script.csscombine(cssText=texts[root], href=root, minify=minify)
                install_stub()
                outs[minify] = sorted(walk(cssutils.parseString(out, href=root).cssRules, ()), key=repr)
        except Exception as e:  # noqa
            install_stub()
            ctx.violation('combine-raises', case, '%s: %s' % (type(e).__name__, e), KNOWN_PRED)
            continue
        finally:
            if type(cssutils.ser) is not cssutils.serialize.CSSSerializer:
                cssutils.ser = cssutils.serialize.CSSSerializer()
        names = {p_[1] for r in outs[False] for sel in r[1] for p_ in sel}
        uses_svg = [r for r in outs[False] if any(p_[0] == SVG for sel in r[1] for p_ in sel)]
        kept_import = '@import' in texts[root] and not uses_svg and 'a' not in names
        if outs[True] != outs[False] or (not kept_import and not uses_svg):
            ctx.violation('combine-differs', dict(case, normal=repr(outs[False])[:600], minified=repr(outs[True])[:600]),
                          'style rules read back from the normal and the minified output differ, or the namespaced rule is missing', KNOWN_PRED)


def run(ctx):
    quick = ctx.tier == 'quick'
    ctx.cov['rule'] = ('(href, url) pairs assembled from scheme/authority/segment/query/fragment parts; sheets with url() in imports, style, '
                       '@font-face, @page + margin rules, @media, nested functions; import trees over a virtual file system (depth <= 4, '
                       'parent/sibling/child directories, other host, absolute / scheme-relative / root-relative hrefs, media on edges, missing '
                       'targets, non-wrappable targets, cyclic graphs); distinct = distinct generated text; all non-trivial')
    urls_part(ctx, 8000 if quick else 120000)
    geturls_part(ctx, 700 if quick else 9000)
    mc = flatten_part(ctx, 600 if quick else 9000, 250 if quick else 3500)
    run_flatten_model(ctx, mc, 'flatten')
    combine_namespace_part(ctx, 40 if quick else 600)
    media_edit_part(ctx)
    mc2 = cycles_part(ctx, 100 if quick else 1200)
    run_flatten_model(ctx, mc2, 'flatten_cyclic')


def replay(path):
    d = json.load(open(path))
    print(json.dumps(d, indent=1)[:6000])
    return 0
