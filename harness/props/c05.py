"""C05 — tokenizer: total, lossless, position-accurate, grammar-faithful.
Coq: Model/Tokenizer.v (+Gen/GenLex.v regenerated), Proofs/TokenizerFacts.v,
Props/C05.v.  Correspondence: extracted model vs Tokenizer.tokenize.  Search:
tiling / position / value / render / EOF oracles on the implementation."""
import json
import re

from harness import core, gen_text as G
from harness.core import s2n, n2s

GEN = ['GenLex']

MANIFEST = dict(
        text='Machine-checked (Coq, closed under the global context): for every text over Unicode code points the tokenizer model '
             'is total (no production list can get stuck: generated productions non-nullable and first-character cover by vm_compute), '
             'its spans tile the input, positions are the LF-counting advance over preceding spans (leading BOM zero-width), values are '
             'the span resp. its one-pass escape decoding, full-sheet mode ends in exactly one EOF. The lexical tables, regexes and literal sets are '
             'regenerated from cssproductions.py/tokenize2.py/helper.py on every run; the loop model is tied to Tokenizer.tokenize by '
             'differential runs of the extracted model. The recover-known-token-sequences clause (T5) and error-message positions are covered by the oracle search only.',
        note='Trusted: Coq kernel + vm_compute; translator/regex2coq.py with CPython re._parser as front end and per-class code-point queries; '
             'ExtrOcamlBasic extraction + 40-line OCaml driver; hand model of the tokenize loop (validated by correspondence on every run, not verified); '
             'independent reference escape decoder in the oracle.',
        design='7/C05')


DECODING = ('DIMENSION', 'IDENT', 'STRING', 'URI', 'HASH', 'COMMENT', 'FUNCTION', 'INVALID', 'UNICODE-RANGE')


def ref_decode(span, kind):
    """independent left-to-right CSS escape decoder: hex escapes become the
    character, backslash-newline disappears inside strings, every other
    escape pair is kept as written (that is how cssutils stores them)"""
    out = []
    i, n = 0, len(span)
    while i < n:
        c = span[i]
        if c != '\\' or i + 1 >= n:
            out.append(c)
            i += 1
            continue
        d = span[i + 1]
        if d in '0123456789abcdefABCDEF':
            j = i + 1
            while j < n and j < i + 7 and span[j] in '0123456789abcdefABCDEF':
                j += 1
            num = int(span[i + 1:j], 16)
            k = j
            if span[k:k + 2] == '\r\n':
                k += 2
            elif k < n and span[k] in '\t\r\n\f ':
                k += 1
            out.append(chr(num) if num <= 0x10FFFF else span[i:k])
            i = k
        elif kind in ('STRING', 'INVALID') and d in '\n\r\f':
            i += 3 if span[i + 1:i + 3] == '\r\n' else 2
        else:
            out.append(c + d)
            i += 2
    return ''.join(out)


def offset_of(text, line, col):
    """offset of (line, col) when lines are counted by LF"""
    pos = 0
    for _ in range(line - 1):
        pos = text.index('\n', pos) + 1
    return pos + col - 1


def has_escaped_backslash_before_hex(text):
    return re.search(r'\\\\[0-9a-fA-F]', text) is not None


def starts_with_bom(text):
    return text.startswith('\xfe\xff') or text.startswith('\xef\xbb\xbf')


KNOWN_PRED = {
    # value of a token whose source has an escaped backslash directly followed by a hex digit
    'C05-escaped-backslash-hex': lambda kind, case, detail: kind in ('value', 'render') and has_escaped_backslash_before_hex(case['text']),
}


def impl_tokens(text, full, doc):
    from harness import impl
    return impl.tokenize(text, full, doc)


def gen_cases(ctx, n_struct, n_soup, n_trunc):
    rng = ctx.rng
    cases = []
    for _ in range(n_struct):
        toks = [G.gen_token(rng) for _ in range(rng.randrange(1, 7))]
        text, exp = G.render_tokens(rng, toks)
        cases.append(('struct', text, exp))
    for _ in range(n_soup):
        cases.append(('soup', G.gen_soup(rng), None))
    for _ in range(n_trunc):
        cases.append(('trunc', G.gen_truncation(rng), None))
    return cases


def first_char_sweep(tier):
    """every code-point class as first character of a token"""
    cps = list(range(0, 0x180)) + [0x2028, 0x2029, 0xFEFF, 0xFFFD, 0xD800, 0xDFFF, 0xFFFF, 0x10000, 0x10FFFF, 0x212A, 0x130]
    if tier == 'thorough':
        cps += list(range(0x180, 0x3000, 7)) + list(range(0x3000, 0x110000, 257))
    out = []
    for c in cps:
        for tail in ('', 'a', '(', ' x'):
            out.append(('first', chr(c) + tail, None))
    return out


def escape_sweep(tier):
    """code points written as hex escapes (1-6 digits, upper/lower case, with and without terminator) in every token
    type that decodes them: the boundaries of the code-point range in particular"""
    cps = [1, 0x1f, 0x20, 0x7f, 0x80, 0xff, 0x100, 0xd7ff, 0xd800, 0xdfff, 0xe000, 0xfffd, 0xfffe, 0xffff, 0x10000, 0xfffff, 0x100000, 0x10fffd, 0x10fffe,
           0x10ffff, 0x110000, 0x110001, 0x1fffff, 0xffffff, 0xabcdef]
    if tier == 'thorough':
        cps += list(range(0x10ff00, 0x110100)) + [2 ** k for k in range(24)] + [2 ** k - 1 for k in range(1, 25)]
    out = []
    for c in cps:
        for e in ('\\%x ' % c, '\\%X' % c, '\\%06x' % c if c <= 0xffffff else '\\%x' % c):
            for tmpl in ('a%sb', '%s', '#x%s', '"s%st"', 'url(u%sv)', '1p%sx', 'f%s(', '@k%s', '.c%s{d:e}', "'%s'", 'U+%s'):
                out.append(('escape', tmpl % e, None))
    return out


def check_oracles(ctx, text, toks_full, toks_plain, expected):
    """property oracles on the implementation's own output"""
    case = {'text': text}
    # exactly one EOF, last (full mode)
    eofs = [i for i, t in enumerate(toks_full) if t[0] == 'EOF']
    if eofs != [len(toks_full) - 1]:
        ctx.violation('eof', case, 'EOF positions %r in %d tokens' % (eofs, len(toks_full)), KNOWN_PRED)
    if any(t[0] == 'EOF' for t in toks_plain):
        ctx.violation('eof', case, 'EOF in non-full mode', KNOWN_PRED)
    # tiling + positions + values (non-full mode: nothing is completed)
    # a leading BOM token is zero-width for column counting (pinned by the
    # repository's own tests): later tokens on line 1 are shifted by its length
    bomlen = len(toks_plain[0][1]) if toks_plain and toks_plain[0][0] == 'BOM' else 0
    try:
        offs = [offset_of(text, t[2], t[3]) + (bomlen if (i > 0 and t[2] == 1) else 0)
                for i, t in enumerate(toks_plain)]
    except ValueError:
        ctx.violation('position', case, 'a token names a line that does not exist', KNOWN_PRED)
        return
    offs.append(len(text))
    if toks_plain and offs[0] != 0:
        ctx.violation('tiling', case, 'first token does not start at offset 0 but %d' % offs[0], KNOWN_PRED)
        return
    for i, t in enumerate(toks_plain):
        a, b = offs[i], offs[i + 1]
        if not a < b:
            ctx.violation('position', case, 'token %d %r: offsets not increasing (%d, %d)' % (i, t, a, b), KNOWN_PRED)
            return
        span = text[a:b]
        if t[0] in DECODING:
            want = ref_decode(span, t[0])
            if want != t[1]:
                k = 'value'
                # decide whether the span itself is wrong (tiling/position) or only the decoding
                ctx.violation(k, case, 'token %d %s: value %r, span %r decodes to %r' % (i, t[0], t[1], span, want), KNOWN_PRED)
                return
        elif t[1] != span:
            ctx.violation('tiling', case, 'token %d %s: value %r but span %r' % (i, t[0], t[1], span), KNOWN_PRED)
            return
    # full mode: same tokens up to the completion point
    if expected is not None:
        got = [(t[0], t[1]) for t in toks_plain]
        if got != expected:
            ctx.violation('render', case, 'expected %r got %r' % (expected[:12], got[:12]), KNOWN_PRED)


def completion_oracle(ctx, text, toks_full, toks_plain):
    """full-sheet mode closes an unterminated comment, string or url( and
    otherwise yields the same tokens"""
    case = {'text': text}
    body_f = [(t[0], t[1]) for t in toks_full[:-1]]
    body_p = [(t[0], t[1]) for t in toks_plain]
    if body_f == body_p:
        return
    # find first difference; everything before must agree
    i = 0
    while i < min(len(body_f), len(body_p)) and body_f[i] == body_p[i]:
        i += 1
    tail = body_f[i:]
    if len(tail) != 1 or tail[0][0] not in ('COMMENT', 'STRING', 'URI'):
        ctx.violation('completion', case, 'full-sheet tokens differ from plain tokens at %d: %r vs %r' % (
            i, body_f[i:i + 3], body_p[i:i + 3]), KNOWN_PRED)


def tokenize_case(text):
    from harness import impl
    return len(impl.tokenize(text, True, True))


PUMP = ['/*' + '*' * 60, '"' + 'a' * 60, "'" + 'b c' * 30 + '\n', 'url(' + 'a' * 80, 'url("' + 'x' * 60, '-' * 80, '\\' * 60,
        '1' * 80 + '.', '@' + 'a-' * 50, '#' + 'z' * 90, 'u+' + '?' * 40, '<!-' * 40, 'a' + '\\41 ' * 40]


def run(ctx):
    from harness import impl
    quick = ctx.tier == 'quick'
    # termination in practice: pumping families in worker processes with a time limit; a hang is a violation
    # and the in-process part below is skipped (it would hang as well)
    pool = impl.Pool('harness.props.c05.tokenize_case', nproc=8)
    pumps = PUMP + [p * 3 for p in PUMP]
    res = pool.map(pumps, lambda t: 5.0)
    slow = [t for t, r in zip(pumps, res) if r[0] != 'ok']
    for t in slow[:3]:
        ctx.violation('time', {'text': t}, 'tokenizing %d characters did not finish within 5 s' % len(t), KNOWN_PRED)
    for t in pumps:
        ctx.case(('pump', t))
    if slow:
        return
    cases = gen_cases(ctx, 1500 if quick else 40000, 1500 if quick else 40000, 600 if quick else 8000)
    cases += first_char_sweep(ctx.tier)
    cases += escape_sweep(ctx.tier)
    corpus = core.VERIF + '/corpus/C05.json'
    try:
        for t in json.load(open(corpus)):
            cases.insert(0, ('corpus', t, None))
    except OSError:
        pass
    ctx.cov['rule'] = ('texts: token sequences with known types/values joined by unambiguous separators (struct), '
                       'character/fragment soup (soup), truncations of sheets (trunc), every code-point class as first '
                       'character (first); distinct = distinct texts; non-trivial = at least 2 tokens')
    # implementation
    impl_out = {}
    model_cases, keys = [], []
    kinds = {}
    for kind, text, exp in cases:
        kinds[kind] = kinds.get(kind, 0) + 1
        try:
            tf = impl_tokens(text, True, True)
            tp = impl_tokens(text, False, True)
            tn = impl_tokens(text, True, False)
        except Exception as e:  # totality
            ctx.violation('total', {'text': text}, 'tokenize raised %s: %s' % (type(e).__name__, e), KNOWN_PRED)
            continue
        ctx.case(text, nontrivial=len(tp) >= 2)
        check_oracles(ctx, text, tf, tp, exp)
        completion_oracle(ctx, text, tf, tp)
        for (full, doc, toks) in ((1, 1, tf), (0, 1, tp), (1, 0, tn)):
            model_cases.append([1, full, doc] + s2n(text))
            keys.append((text, full, doc, toks))
    # an unterminated url( at the end of a full sheet is completed to one URI token however the keyword is spelled
    for head in ('url(', 'URL(', 'u\\rl(', '\\75 rl(', '\\75rl(', 'ur\\6c (', '\\000075\\000072\\00006c(', 'U\\52 L(', '\\55\\52\\4c('):
        for body in ('a', '"a', ' a.png', "'x y", '', '  "', 'a\\)b'):
            for pre in ('', 'b{c:', '@import '):
                text = pre + head + body
                ctx.case(text)
                try:
                    tf = impl_tokens(text, True, True)
                    closed = impl_tokens(text + ('"' if body.strip().startswith('"') else "'" if body.strip().startswith("'") else '') + ')', False, True)
                except Exception as e:
                    ctx.violation('total', {'text': text}, 'tokenize raised %s: %s' % (type(e).__name__, e), KNOWN_PRED)
                    continue
                last = tf[-2] if len(tf) >= 2 else None
                if closed and closed[-1][0] == 'URI' and (last is None or last[0] != 'URI'):
                    ctx.violation('completion', {'text': text, 'family': 'open-url'}, 'closed by hand it is the URI %r; at the end of a full sheet the tokens are %r' % (
                        closed[-1][1], [t[:2] for t in tf[-4:]]), KNOWN_PRED)
                for (full, doc, toks) in ((1, 1, tf),):
                    model_cases.append([1, full, doc] + s2n(text))
                    keys.append((text, full, doc, toks))
    # reports in raising mode: an exception carries the position of ITS token (and the [l:c: v] suffix), or none
    import xml.dom
    import cssutils
    from harness import impl

    def report(fn):
        try:
            fn()
        except xml.dom.DOMException as e:
            import re as _re
            m_ = _re.search(r'\[(\d+):(\d+): ', str(e))
            return (type(e).__name__, getattr(e, 'line', None), getattr(e, 'col', None), (int(m_.group(1)), int(m_.group(2))) if m_ else None)
        return None
    SEQ = [lambda: cssutils.parseString('a{}').__setattr__('cssText', '\n\n   @import x;'),            # positioned: line 3
           lambda: cssutils.css.Selector().__setattr__('selectorText', ''),                              # token-less
           lambda: cssutils.css.CSSStyleRule().__setattr__('selectorText', 'a,\n  ,b'),                 # positioned: line 2
           lambda: cssutils.stylesheets.MediaList().__setattr__('mediaText', '/*c*/'),                   # token-less
           lambda: cssutils.css.CSSCharsetRule().__setattr__('encoding', 'no-such-enc'),                 # token-less
           lambda: cssutils.css.CSSStyleDeclaration().__setattr__('cssText', 'a: 1;\n\n\n  b: }')]  # positioned: line 4
    import itertools
    for order in list(itertools.permutations(range(len(SEQ)), 3))[:(40 if quick else 120)]:
        impl.reset()
        got = [report(SEQ[i]) for i in order]
        ctx.case(('report-positions', order))
        for i, g in zip(order, got):
            if g is None:
                continue
            name, line, col, suffix = g
            if (suffix is None and (line is not None or col is not None)) or (suffix is not None and (line, col) != suffix):
                ctx.violation('position', {'family': 'report-positions', 'order': list(order), 'report': i},
                              '%s carries line/col %r/%r, its message says %r' % (name, line, col, suffix), KNOWN_PRED)
    ctx.sample({'text': cases[len(cases) // 2][1], 'tokens': [list(t) for t in impl_tokens(cases[len(cases) // 2][1], True, True)][:8]})
    ctx.sample({'text': cases[3][1]})
    ctx.extra['input_distribution'] = kinds
    # correspondence
    if ctx.model.available:
        outs = ctx.model.run(model_cases)
        agree = 0
        for (text, full, doc, toks), o in zip(keys, outs):
            want = [0]
            for t in toks:
                want += [impl.TOKCODE[t[0]], t[2], t[3], len(t[1])] + s2n(t[1])
            if o == want:
                agree += 1
            else:
                ctx.disagree('tokenizer', {'text': text, 'full': full, 'doc': doc}, want[:60], (o or [])[:60])
        ctx.extra['correspondence'] = {'cases': len(keys), 'agree': agree}
    else:
        ctx.broken.append(('correspondence', 'extracted model not available'))


def replay(path):
    from harness import impl
    d = json.load(open(path))
    text = d['case']['text']
    print('text = %r' % text)
    for full in (True, False):
        print('full=%s:' % full, impl.tokenize(text, full, True))
    print(d.get('detail'))
    return 0
