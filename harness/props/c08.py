"""C08 — sheet/import encoding precedence; serialised bytes decodable and lossless.
Coq: Gen/GenEncoding.v (the _readUrl ladder and the _setHref hand-over, translated
from their ASTs on every run), Model/Encoding.v, Proofs/EncodingFacts.v,
Props/C08.v.
Correspondence: (a) every row of the _readUrl table, (b) import trees of depth
<= 3 through parseString(text) / parseString(bytes) / parseUrl with recording
fetchers, (c) histories of `sheet.encoding = ...`, (d) escapecss output and the
token stream of the escaped text -- all against the extracted model.
Search (independent of the model): the documented precedence stated directly;
cssText is bytes decodable in sheet.encoding; decode + reparse gives the same
DOM projection for every text x target encoding."""
import codecs
import json
import re

from harness import core
from harness.core import s2n

GEN = ['GenEncoding', 'GenLex']

MANIFEST = dict(
    text='Machine-checked (Coq, closed under the global context): the if-chain translated from _readUrl equals the five-step precedence '
         '(override, HTTP, BOM/@charset, referring sheet, UTF-8) with the reported enctype for every input; over import trees of any shape and '
         'depth an override is the encoding of every loaded sheet (induction on the tree); without override every loaded sheet has the first of '
         '(HTTP, BOM/@charset, referring sheet, UTF-8), its imports see its reported encoding as the referring one, and sheets without '
         'information of their own inherit unchanged to any depth; sheet.encoding mirrors the charset rule and set_encoding creates / updates / '
         'deletes rule 0 keeping "at most one, only first" along any history; for every set of encodable code points and every backslash-free '
         'text the tokenizer\'s own escape decoding (regenerated unicodesub / cleanstring regexes, CPS matcher) of the escapecss output is the '
         'original text, i.e. the token value in every escape-decoded kind (IDENT, STRING, URI, COMMENT, ...) is unchanged; the escaped text of an '
         'ASCII-transparent codec contains only encodable characters. Refuted and pinned: at-keyword values (not decoded) and characters that are '
         'themselves backslash-escaped in the source. The ladder and the enctype hand-over are regenerated from the ASTs of _readUrl / _setHref '
         'on every run; _resolveImport, _setCssTextWithEncodingOverride, parseString / parseUrl and _setEncoding are hand models tied by '
         'differential runs of the extracted model on every table row, on import trees of depth <= 3 and on operation histories; byte-level '
         'facts (what decodes under which codec) are inputs of the model and measured by the search only.',
    note='Trusted: Coq kernel + vm_compute; translator/gen_encoding.py (statement-level translation of two if-chains, the rest of _readUrl / _setHref '
         'pinned by source text); ExtrOcamlBasic extraction + OCaml driver; the hand models named above (validated by correspondence, not '
         'verified); stdlib codecs and the css codec as black boxes (which bytes decode under which name, round trip of encodable characters, '
         'ASCII transparency = Section variable `encodable` with hypothesis `ascii_transparent`); hand-transcribed CSS escape syntax '
         'decode_escapes (proved to invert escapecss, compared with unicodesub by the extracted model); that the lexer finds the same token '
         'boundaries in the escaped text is checked by correspondence and the reparse oracle, not proved. The model is the behaviour repaired by '
         'fixes/C08-parseurl-detected-encoding-not-override.patch.',
    design='7/C08')

# encoding names <-> model numbers (0 and 1 are fixed by the model)
ENC_NAMES = ['utf-8', 'utf-8-sig', 'ascii', 'latin-1', 'utf-16', 'cp1251', 'utf-32']
EID = {n: i for i, n in enumerate(ENC_NAMES)}
E4 = ['ascii', 'latin-1', 'utf-8', 'utf-16']          # the four mutually distinguishable encodings
ASCII_COMPAT = ['ascii', 'latin-1', 'utf-8', 'cp1251']
BOMS = ['utf-8-sig', 'utf-16', 'utf-32']
MARK = {'ascii': 'e', 'latin-1': '\xe9', 'utf-8': '\xe9€', 'cp1251': 'й', 'utf-16': '\xe9€', 'utf-32': '\xe9€',
        'utf-8-sig': '\xe9€'}
BASE = 'http://h.example/'


def canon(name):
    """encoding names up to the BOM-eating alias"""
    return 'utf-8' if name == 'utf-8-sig' else name


def optn(name):
    return 0 if not name else EID[name] + 1


# ------------------------------------------------------------------ contents

def make_text(node):
    """the text of a sheet: optional charset rule, its imports, one marked style rule"""
    t = ''
    if node['kind'][0] == 'charset':
        t += '@charset "%s";' % node['kind'][1]
    for k in node.get('kids', []):
        t += '@import "%s.css";' % k['label']
    t += '%s{font-family:"%s"}' % (node['label'], MARK[node['payload']])
    return t


def make_content(node):
    """what the fetcher serves for this node: str or bytes"""
    t = make_text(node)
    if node['is_text']:
        return ('\ufeff' + t) if node['kind'][0] == 'bom' else t
    p = node['payload']
    if node['kind'][0] == 'bom':
        b = node['kind'][1]
        if b == 'utf-8-sig':
            return codecs.BOM_UTF8 + t.encode(raw_codec(p))
        if b == 'utf-16':
            if p == 'utf-16' and node.get('be'):
                return codecs.BOM_UTF16_BE + t.encode('utf-16-be')
            return codecs.BOM_UTF16_LE + t.encode(raw_codec(p))
        return codecs.BOM_UTF32_LE + t.encode(raw_codec(p))
    return t.encode(raw_codec(p))


def raw_codec(p):
    return {'utf-16': 'utf-16-le', 'utf-32': 'utf-32-le', 'utf-8-sig': 'utf-8'}.get(p, p)


def decodable(content):
    if isinstance(content, str):
        return []
    out = []
    for n in ENC_NAMES:
        try:
            content.decode(n)
            out.append(EID[n])
        except UnicodeDecodeError:
            pass
    return out


def enc_content(node, content):
    k = node['kind']
    tag = {'bom': 1, 'charset': 2, 'neither': 0}[k[0]]
    dec = decodable(content)
    return [1 if node['is_text'] else 0, tag, EID[k[1]] if tag else 0, len(dec)] + dec


def fetch_result(node, content):
    if node['fetch'] == 'none':
        return None
    if node['fetch'] == 'nocontent':
        return (node['http'], None)
    return (node['http'], content)


def enc_fetch(node, content):
    if node['fetch'] == 'none':
        return [0]
    if node['fetch'] == 'nocontent':
        return [1, optn(node['http'])]
    return [2, optn(node['http'])] + enc_content(node, content)


def enc_tree(node, contents):
    out = enc_fetch(node, contents[node['label']])
    kids = node.get('kids', [])
    out.append(len(kids))
    for k in kids:
        out += enc_tree(k, contents)
    return out


def explicit(node):
    k = node['kind']
    if k[0] == 'charset':
        return k[1]
    if k[0] == 'bom' and not node['is_text']:
        return k[1]
    return None


def strip_charset(t):
    return re.sub(r'^@charset "[^"]*";', '', t)


# ------------------------------------------------------------------ (a) the _readUrl table

def gen_rows(ctx, quick):
    """every row of override x transport x content kind x parent x bytes/text x fetcher result"""
    kinds = [('neither',)] + [('bom', b) for b in BOMS] + [('charset', c) for c in ASCII_COMPAT]
    rows = []
    n = 0
    for ov in [None] + E4:
        for http in [None, ''] + E4:
            for kind in kinds:
                for par in [None] + E4:
                    for is_text in (False, True):
                        for fetch in ('data', 'none', 'nocontent'):
                            if fetch != 'data' and (kind != ('neither',) or is_text):
                                continue
                            # consistent payload, and one lying payload
                            if kind[0] == 'bom':
                                pays = [kind[1], 'latin-1']
                            elif kind[0] == 'charset':
                                pays = [kind[1], 'utf-8' if kind[1] != 'utf-8' else 'latin-1']
                            else:
                                # the encoding the precedence picks, and another one
                                want = ov or http or par or 'utf-8'
                                pays = [want if want in ASCII_COMPAT else 'utf-8', 'latin-1' if want != 'latin-1' else 'utf-8']
                            for pay in (pays if fetch == 'data' and not is_text else pays[:1]):
                                n += 1
                                rows.append({'ov': ov, 'http': http, 'kind': list(kind), 'par': par, 'is_text': is_text,
                                             'fetch': fetch, 'payload': pay, 'label': 'n', 'be': n % 2 == 0})
    return rows


def run_rows(ctx, rows):
    from cssutils.util import _readUrl
    from harness import impl
    model_in, got = [], []
    for row in rows:
        impl.reset()
        content = make_content(row)
        res = fetch_result(row, content)
        calls = []

        def fetcher(url, res=res, calls=calls):
            calls.append(url)
            return res
        case = {k: row[k] for k in ('ov', 'http', 'kind', 'par', 'is_text', 'fetch', 'payload')}
        case['content'] = impl.jsonable(content)
        ctx.case(('row', json.dumps(case, sort_keys=True)))
        try:
            enc, ety, text = _readUrl(BASE + 'n.css', fetcher=fetcher, overrideEncoding=row['ov'], parentEncoding=row['par'])
        except Exception as e:
            ctx.violation('readurl-raises', case, '%s: %s' % (type(e).__name__, e), KNOWN_PRED)
            model_in.append(None)
            got.append(None)
            continue
        if calls != [BASE + 'n.css']:
            ctx.violation('fetch-calls', case, 'fetcher called with %r' % (calls,), KNOWN_PRED)
        # ---- oracle: the documented precedence, stated directly
        if row['fetch'] != 'data':
            exp = (None, None, None)
        else:
            if row['ov']:
                e_enc, e_ty = row['ov'], 0
            elif row['http']:
                e_enc, e_ty = row['http'], 1
            elif explicit(row):
                e_enc, e_ty = explicit(row), 2
            elif row['par']:
                e_enc, e_ty = row['par'], 4
            else:
                e_enc, e_ty = 'utf-8', 5
            if isinstance(content, str):
                e_text = content
            else:
                try:
                    e_text = content.decode(e_enc)
                except UnicodeDecodeError:
                    e_text = None
            exp = (e_enc, e_ty, e_text)
        same_text = (text is None) == (exp[2] is None) and (text is None or strip_charset(text) == strip_charset(exp[2]))
        if (enc, ety) != exp[:2] or not same_text:
            ctx.violation('ladder-precedence', case, 'got (%r, %r, %r), the documented precedence gives (%r, %r, %r)' % (
                enc, ety, text, exp[0], exp[1], exp[2]), KNOWN_PRED)
        model_in.append([80, optn(row['ov']), optn(row['par'])] + enc_fetch(row, content))
        got.append([optn(enc), 0 if ety is None else ety + 1, 0 if text is None else 1])
    return model_in, got


# ------------------------------------------------------------------ (b) import trees

def gen_node(rng, label, depth, maxdepth, consistent_bias=0.8):
    fetch = rng.choices(['data', 'none', 'nocontent'], [14, 1, 1])[0]
    http = rng.choices([None, ''] + E4, [8, 1, 2, 2, 2, 2])[0]
    is_text = rng.random() < 0.3
    r = rng.random()
    if r < 0.45:
        kind = ['neither']
    elif r < 0.75:
        kind = ['charset', rng.choice(ASCII_COMPAT)]
    else:
        kind = ['bom', rng.choice(BOMS)]
    if kind[0] == 'bom':
        payload = kind[1] if rng.random() < consistent_bias else 'latin-1'
    elif kind[0] == 'charset':
        payload = kind[1] if rng.random() < consistent_bias else rng.choice(ASCII_COMPAT)
    else:
        payload = rng.choice(ASCII_COMPAT)
    node = {'label': label, 'fetch': fetch, 'http': http, 'is_text': is_text, 'kind': kind, 'payload': payload,
            'be': rng.random() < 0.3, 'kids': []}
    if depth < maxdepth:
        nk = rng.choices([0, 1, 2], [2, 6, 2])[0]
        for i in range(nk):
            node['kids'].append(gen_node(rng, '%s%d' % (label, i), depth + 1, maxdepth, consistent_bias))
    return node


def all_nodes(node):
    yield node
    for k in node.get('kids', []):
        yield from all_nodes(k)


def marker_of(sheet):
    """the font-family string of the last style rule (what the bytes were decoded to)"""
    val = None
    for r in sheet.cssRules:
        if r.type == r.STYLE_RULE:
            v = r.style.getPropertyValue('font-family')
            if v:
                val = v
    return val


def observe(sheet, loaded):
    kids = []
    for r in sheet.cssRules:
        if r.type == r.IMPORT_RULE:
            kids.append(observe(r.styleSheet, bool(r.hrefFound)))
    cs = [(i, r.encoding) for i, r in enumerate(sheet.cssRules) if r.type == r.CHARSET_RULE]
    return {'loaded': loaded, 'encoding': sheet.encoding, 'marker': marker_of(sheet), 'kids': kids,
            'href': sheet.href, 'charsets': cs}


def keeps_structure(node, content, encname):
    """does decoding with `encname` keep the @import skeleton of this sheet?"""
    if isinstance(content, str):
        # a text that starts with U+FEFF: the tokenizer does not take it as a BOM (C05's business), the
        # rules after it are not the ones that were written
        return not content.startswith('\ufeff')
    try:
        t = content.decode(encname)
    except (UnicodeDecodeError, LookupError):
        return False
    if t.startswith('\ufeff'):
        return False      # as for text: a BOM that the codec left in the text is not skipped by the tokenizer
    t = strip_charset(t)
    want = strip_charset(make_text(node))
    cut = want.index('{font-family')
    return t[:cut] == want[:cut]


def run_tree(ctx, case):
    """case: mode, ov, root (node; for mode 0 only kind/kids matter).  Returns (model input, comparison) or None"""
    import cssutils
    from harness import impl
    impl.reset()
    mode, ov, root = case['mode'], case['ov'], case['root']
    contents = {n['label']: make_content(n) for n in all_nodes(root)}
    bynode = {n['label']: n for n in all_nodes(root)}
    calls = []

    def fetcher(url):
        calls.append(url)
        lab = url[len(BASE):-4] if url.startswith(BASE) and url.endswith('.css') else None
        if lab not in bynode:
            return None
        return fetch_result(bynode[lab], contents[lab])
    parser = cssutils.CSSParser(fetcher=fetcher)
    jcase = {'mode': mode, 'ov': ov, 'root': root}
    raised = None
    sheet = None
    try:
        if mode == 0:
            sheet = parser.parseString(make_text(root), encoding=ov, href=BASE + root['label'] + '.css')
        elif mode == 1:
            sheet = parser.parseString(contents[root['label']], encoding=ov, href=BASE + root['label'] + '.css')
        else:
            sheet = parser.parseUrl(BASE + root['label'] + '.css', encoding=ov)
    except UnicodeDecodeError as e:
        raised = e
    except Exception as e:
        ctx.violation('parse-raises', jcase, '%s: %s' % (type(e).__name__, e), KNOWN_PRED)
        return None
    if raised is not None and mode != 1:
        ctx.violation('parse-raises', jcase, 'UnicodeDecodeError outside parseString(bytes): %s' % raised, KNOWN_PRED)
        return None
    obs = observe(sheet, True) if sheet is not None else None
    if mode == 2 and sheet is None:
        exp = ov or root['http'] or explicit(root) or 'utf-8'
        c0 = contents[root['label']]
        if root['fetch'] == 'data' and (root['is_text'] or EID[exp] in decodable(c0)):
            ctx.violation('import-not-loaded', jcase, 'parseUrl returned None although the sheet was served and decodes as %s' % exp, KNOWN_PRED)

    # ---- model input
    if mode == 0:
        rule0 = root['kind'][1] if root['kind'][0] == 'charset' else None
        m = [81, 0, optn(ov), optn(rule0), len(root['kids'])]
        for k in root['kids']:
            m += enc_tree(k, contents)
    elif mode == 1:
        m = [81, 1, optn(ov)] + enc_content(root, contents[root['label']]) + [len(root['kids'])]
        for k in root['kids']:
            m += enc_tree(k, contents)
    else:
        m = [81, 2, optn(ov)] + enc_tree(root, contents)

    # ---- oracle: the documented precedence, stated directly on the observed tree
    if obs is not None:
        def check(node, o, parent_enc, is_root):
            content = contents[node['label']]
            # the reported encoding is the charset rule (first and only), utf-8 if there is none
            if o['charsets'] != ([(0, o['encoding'])] if o['charsets'] else []) or (not o['charsets'] and o['encoding'] != 'utf-8'):
                ctx.violation('encoding-mirrors-charset', jcase, 'sheet %s reports %r, charset rules (index, encoding): %r' % (
                    node['label'], o['encoding'], o['charsets']), KNOWN_PRED)
            if is_root and mode == 0:
                exp = ov or (node['kind'][1] if node['kind'][0] == 'charset' else None) or 'utf-8'
                used = None
            elif is_root and mode == 1:
                used = ov or explicit(node) or 'utf-8'
                exp = ov or (canon(used) if node['kind'][0] == 'charset' else None) or 'utf-8'
            else:
                used = exp = ov or node['http'] or explicit(node) or parent_enc or 'utf-8'
            if not o['loaded']:
                # must be justified: nothing served, or the bytes do not decode in the chosen encoding
                ok = node['fetch'] != 'data' or (not node['is_text'] and EID[exp] not in decodable(content))
                if not ok:
                    ctx.violation('import-not-loaded', jcase, 'sheet %s was served and decodes as %s but was not loaded' % (node['label'], exp), KNOWN_PRED)
                if o['encoding'] != 'utf-8' or o['kids']:
                    ctx.violation('unloaded-not-empty', jcase, 'unloaded sheet %s reports %r' % (node['label'], o), KNOWN_PRED)
                return
            if node['fetch'] != 'data' and not (is_root and mode != 2):
                ctx.violation('loaded-from-nothing', jcase, 'sheet %s loaded although nothing was served' % node['label'], KNOWN_PRED)
                return
            if canon(o['encoding']) != canon(exp):
                ctx.violation('tree-precedence', jcase, 'sheet %s reports encoding %r, the documented precedence gives %r' % (
                    node['label'], o['encoding'], exp), KNOWN_PRED)
                return
            if used is not None and isinstance(content, bytes):
                try:
                    t = content.decode(used)
                except UnicodeDecodeError:
                    ctx.violation('loaded-undecodable', jcase, 'sheet %s loaded although its bytes do not decode as %s' % (node['label'], used), KNOWN_PRED)
                    return
                mm = re.search(r'font-family:"([^"\\\x00-\x1f]*)"\}$', t)
                if mm and keeps_structure(node, content, used) and o['marker'] != '"%s"' % mm.group(1):
                    ctx.violation('decoded-content', jcase, 'sheet %s: content %r, decoding the served bytes as %s gives %r' % (
                        node['label'], o['marker'], used, mm.group(1)), KNOWN_PRED)
            if used is not None and not keeps_structure(node, content, used):
                return
            if len(o['kids']) != len(node['kids']):
                ctx.violation('import-count', jcase, 'sheet %s has %d import rules, served text has %d' % (
                    node['label'], len(o['kids']), len(node['kids'])), KNOWN_PRED)
                return
            for k, ok_ in zip(node['kids'], o['kids']):
                check(k, ok_, o['encoding'], False)
        check(root, obs, None, True)
        # a sheet that was not loaded must not have had its imports fetched; every URL asked belongs to the tree
        for u in calls:
            if not (u.startswith(BASE) and u[len(BASE):-4] in bynode):
                ctx.violation('fetch-calls', jcase, 'unexpected fetch %r' % u, KNOWN_PRED)

    return m, obs, raised is not None, (root, contents)


def compare_tree(model_out, obs, raised, root, contents, case):
    """walk model output and observation together; returns None if equal else a description"""
    if model_out is None:
        return 'model gave no output'
    if model_out == [0]:
        return None if (obs is None) else 'model: raises/None, implementation returned a sheet'
    if model_out[:1] != [1]:
        return 'model output %r' % model_out[:8]
    if obs is None:
        return 'implementation %s, model returned a sheet' % ('raised' if raised else 'returned None')
    pos = [1]
    mode = case['mode']

    def skip():
        ld, e, ty, nk = model_out[pos[0]:pos[0] + 4]
        pos[0] += 4
        for _ in range(nk):
            skip()

    def walk(o, node, top):
        if pos[0] + 4 > len(model_out):
            return 'model output too short'
        ld, e, ty, nk = model_out[pos[0]:pos[0] + 4]
        pos[0] += 4
        if (ld, e) != (1 if o['loaded'] else 0, EID.get(o['encoding'], 99)):
            return 'sheet %s: implementation (loaded=%s, %s), model (loaded=%s, %s)' % (
                node['label'], o['loaded'], o['encoding'], ld, ENC_NAMES[e] if e < len(ENC_NAMES) else e)
        garbled = False
        if o['loaded'] and not (top and mode == 0):
            garbled = not keeps_structure(node, contents[node['label']], o['encoding'])
            if top and mode == 1:
                garbled = not keeps_structure(node, contents[node['label']], case['ov'] or explicit(node) or 'utf-8')
        if garbled or len(o['kids']) != nk:
            if garbled:
                for _ in range(nk):
                    skip()
                return None
            return 'sheet %s: %d imports observed, model has %d' % (node['label'], len(o['kids']), nk)
        for ok_, k in zip(o['kids'], node['kids']):
            r = walk(ok_, k, False)
            if r:
                return r
        return None
    r = walk(obs, root, True)
    if r is None and pos[0] != len(model_out):
        return 'model output has trailing data'
    return r


def gen_tree_cases(ctx, quick):
    rng = ctx.rng
    cases = []
    # exhaustive chains of depth 3 over a small per-node alphabet
    alpha = []
    for http in (None, 'latin-1'):
        for kind, pay, is_text in ((['neither'], 'ascii', False), (['charset', 'utf-8'], 'utf-8', False),
                                   (['bom', 'utf-16'], 'utf-16', False), (['charset', 'cp1251'], 'cp1251', True)):
            alpha.append((http, kind, pay, is_text))
    depth3 = [(a, b, c) for a in alpha for b in alpha for c in alpha]
    if quick:
        depth3 = rng.sample(depth3, 160)
    for (a, b, c) in depth3:
        for ov in (None, 'ascii') if not quick else (rng.choice([None, None, 'ascii']),):
            for rootcs in (None, 'latin-1') if not quick else (rng.choice([None, 'latin-1']),):
                chain = None
                for i, (http, kind, pay, is_text) in reversed(list(enumerate((a, b, c)))):
                    chain = {'label': 'c' * (i + 1), 'fetch': 'data', 'http': http, 'is_text': is_text, 'kind': list(kind),
                             'payload': pay, 'be': False, 'kids': [chain] if chain else []}
                root = {'label': 'root', 'fetch': 'data', 'http': None, 'is_text': True,
                        'kind': ['charset', rootcs] if rootcs else ['neither'], 'payload': 'ascii', 'be': False, 'kids': [chain]}
                cases.append({'mode': 0, 'ov': ov, 'root': root})
                cases.append({'mode': 2, 'ov': ov, 'root': chain})
    # random trees, all three entry points
    for _ in range(1500 if quick else 12000):
        mode = rng.choice([0, 0, 1, 2, 2])
        ov = rng.choices([None] + E4, [6, 1, 1, 1, 1])[0]
        root = gen_node(rng, 'r', 0, 3, consistent_bias=0.85)
        if mode == 0:
            root['is_text'] = True
            root['fetch'] = 'data'
            if root['kind'][0] == 'bom':
                root['kind'] = ['neither']
        elif mode == 1:
            root['is_text'] = False
            root['fetch'] = 'data'
            if rng.random() < 0.8 and root['kind'][0] != 'bom':
                root['payload'] = root['kind'][1] if root['kind'][0] == 'charset' else (
                    ov if ov in ASCII_COMPAT else rng.choice(['ascii', 'utf-8']))
        cases.append({'mode': mode, 'ov': ov, 'root': root})
    return cases


# ------------------------------------------------------------------ (c) sheet.encoding histories

SHEET_PARTS = ['/*c*/', '@import "x.css";', '@namespace p "u";', 'a{left:0}', '@media print{a{left:0}}', '@page{margin:0}',
               '@font-face{font-family:x}', '@x y;']


def run_sheet_history(ctx, rng):
    import cssutils
    from harness import impl
    impl.reset()
    cs = rng.choice([None, None] + E4 + ['cp1251'])
    parts = sorted(rng.sample(SHEET_PARTS, rng.randrange(0, 5)), key=SHEET_PARTS.index)
    text = ('@charset "%s";' % cs if cs else '') + ''.join(parts)
    ops = [rng.choice([None] + E4 + ['cp1251', 'utf-8-sig']) for _ in range(rng.randrange(1, 7))]
    case = {'text': text, 'ops': ops}
    ctx.case(('sheet', text, tuple(ops)))
    sheet = _parse(text)

    def rules():
        out = []
        for r in sheet.cssRules:
            out += [1, EID[r.encoding]] if r.type == r.CHARSET_RULE else [0, r.type + 10]
        return out

    def snap():
        return [EID[sheet.encoding], len(sheet.cssRules)] + rules()
    m = [82, len(sheet.cssRules)] + rules()
    got = snap()
    for op in ops:
        before = [r for r in sheet.cssRules if r.type != r.CHARSET_RULE]
        try:
            sheet.encoding = op
        except Exception as e:
            ctx.violation('set-encoding-raises', case, 'sheet.encoding = %r: %s: %s' % (op, type(e).__name__, e), KNOWN_PRED)
            return None
        # ---- oracle: reported encoding == charset rule (utf-8 if none); the rule is first and unique; nothing else moved
        cr = [r for r in sheet.cssRules if r.type == r.CHARSET_RULE]
        want = op if op else 'utf-8'
        after = [r for r in sheet.cssRules if r.type != r.CHARSET_RULE]
        if sheet.encoding != want or len(cr) != (1 if op else 0) or (cr and (sheet.cssRules[0] is not cr[0] or cr[0].encoding != op)) \
                or len(before) != len(after) or any(x is not y for x, y in zip(before, after)):
            ctx.violation('encoding-mirrors-charset', case, 'after sheet.encoding = %r: encoding %r, rules %r' % (
                op, sheet.encoding, [r.cssText[:30] for r in sheet.cssRules]), KNOWN_PRED)
        m.append(optn(op))
        got += snap()
    return m, got, case


# ------------------------------------------------------------------ (d) serialisation

WORD_CHARS = ['a', 'b', 'f', 'Z', '1', '0', '-', '_', '\xe4', '\xe9', '\xff', 'Ā', 'й', '€', '中', '\xa0',
              '\U0001f600', '￿', '\U0010ffff', '\x80']
TARGETS_QUICK = ['ascii', 'latin-1', 'utf-8', 'utf-16', 'cp1251', 'utf-8-sig', 'koi8-r', 'iso-8859-15', 'utf-16-le', 'utf-32', 'cp1252', 'mac-roman']
TARGETS_MORE = ['utf-16-be', 'utf-32-be', 'iso-8859-2', 'iso-8859-5', 'iso-8859-7', 'cp437', 'cp850', 'cp1250', 'cp1253', 'cp1255',
                'cp1256', 'cp866', 'gbk', 'gb18030', 'big5', 'euc-jp', 'euc-kr', 'shift_jis', 'iso2022_jp', 'tis-620', 'utf-7',
                'cp037', 'hz', 'ptcp154', 'latin-1', 'us-ascii']


def gen_word(rng, start=True, surrogates=False, escapes=False):
    n = rng.randrange(1, 5)
    w = ''
    for i in range(n):
        # lone surrogates: only high ones (a high one followed by a low one is a pair for UTF-16 based codecs)
        c = rng.choice(WORD_CHARS + (['\ud800', '\udbff'] if surrogates else []))
        if i == 0 and start and c in '10-':
            c = 'a'
        if escapes and ord(c) > 127 and rng.random() < 0.3:
            c = '\\' + c          # a non-ASCII character written as a "simple escape"
        w += c
    return w


def gen_sheet_text(rng, with_atkeyword, surrogates=False, escapes=False):
    """a sheet with non-ASCII words in identifier, string, url and comment positions"""
    W = lambda start=True: gen_word(rng, start, surrogates, escapes)  # noqa: E731
    parts = []
    if rng.random() < 0.3:
        parts.append('@import "%s.css" %s;' % (W(), rng.choice(['', 'print', W()])))
    if rng.random() < 0.2:
        parts.append('@import url(%s.css);' % W())
    if rng.random() < 0.2:
        parts.append('@namespace %s "%s";' % (rng.choice(['', W()]), W()))
    body = []
    for _ in range(rng.randrange(1, 5)):
        r = rng.random()
        decls = []
        for _ in range(rng.randrange(1, 4)):
            d = rng.choice([
                lambda: 'font-family:%s' % W(),
                lambda: 'font-family:"%s %s"' % (W(False), W(False)),
                lambda: "content:'%s'" % W(False),
                lambda: 'background:url(%s)' % W(),
                lambda: 'background:url("%s")' % W(False),
                lambda: 'width:1%s' % W(),
                lambda: 'x-%s:%s' % (W(False), W()),
                lambda: 'color:%s /*%s*/' % (W(), W(False)),
                lambda: 'a:%s(1)' % W(),
                lambda: 'quotes:"%s" "%s"' % (W(False), W(False)),
            ])()
            decls.append(d)
        sel = rng.choice([
            lambda: W(), lambda: '.%s' % W(), lambda: '#%s' % W(), lambda: '%s %s' % (W(), W()), lambda: '%s>%s' % (W(), W()),
            lambda: '[%s="%s"]' % (W(), W(False)), lambda: 'a:lang(%s)' % W(), lambda: '%s,%s' % (W(), W()), lambda: '*.%s' % W(),
        ])()
        rule = '%s{%s}' % (sel, ';'.join(decls))
        if r < 0.15:
            rule = '@media %s{%s}' % (rng.choice(['print', 'screen', W()]), rule)
        elif r < 0.22:
            rule = '@page :%s{margin:0;%s}' % (rng.choice(['first', 'left']), decls[0])
        elif r < 0.28:
            rule = '@font-face{font-family:%s;src:url(%s)}' % (W(), W())
        elif r < 0.36:
            rule = '/*%s*/' % W(False)
        elif r < 0.42 and with_atkeyword:
            rule = '@%s %s;' % (W(), W())
        body.append(rule)
    return ''.join(parts) + ''.join(body)


def _parse(text):
    """parseString with a fetcher that serves nothing (no file system / network access for @import)"""
    import cssutils
    return cssutils.CSSParser(fetcher=lambda url: None).parseString(text)


AUTODETECT_OK = {'ascii', 'latin-1', 'utf-8', 'utf-8-sig', 'utf-16', 'utf-32', 'cp1251', 'cp1252', 'koi8-r', 'iso-8859-15',
                 'mac-roman', 'iso-8859-2', 'iso-8859-5', 'iso-8859-7', 'cp437', 'cp850', 'cp1250', 'cp1253', 'cp1255', 'cp1256',
                 'cp866', 'us-ascii'}


def _media(ml):
    return (ml.mediaText, tuple(ml.item(i) for i in range(ml.length)))


def proj_rule(r):
    """impl.proj_rule, except that media lists are projected through item() (iterating a MediaList
    yields seq items, impl.proj_media expects media queries)"""
    from harness import impl
    if r.type == r.IMPORT_RULE:
        return ('import', r.href, _media(r.media), r.name, r.hreftype)
    if r.type == r.MEDIA_RULE:
        return ('media', _media(r.media), r.name, tuple(proj_rule(x) for x in r.cssRules))
    return impl.proj_rule(r)


def proj_sheet(sheet):
    return tuple(proj_rule(r) for r in sheet.cssRules)


def cant_encode(s, target):
    try:
        s.encode(target)
        return False
    except UnicodeEncodeError:
        return True


def escaped_unencodable(text, target):
    """positions of characters the target cannot encode that are preceded by an odd run of backslashes"""
    out, i, n = [], 0, len(text)
    while i < n:
        if text[i] == '\\':
            j = i
            while j < n and text[j] == '\\':
                j += 1
            if (j - i) % 2 == 1 and j < n and cant_encode(text[j], target):
                out.append(j - 1)
            i = j + 1
        else:
            i += 1
    return out


def _rt_equal(text, target):
    from harness import impl
    try:
        impl.reset()
        sh = _parse(text)
        sh.encoding = target
        p1 = proj_sheet(sh)
        b = sh.cssText
        impl.reset()
        return proj_sheet(_parse(b.decode(sh.encoding))) == p1
    except Exception:
        return False


def without_unknown(proj):
    return tuple(r for r in proj if r[0] != 'unknown')


def run_serial(ctx, text, target):
    """the serialisation clause on one (text, target)"""
    import cssutils
    from harness import impl
    impl.reset()
    case = {'text': text, 'target': target}
    ctx.case(('serial', text, target))
    try:
        sheet = _parse(text)
        base = _parse(text)
    except Exception:  # not this property's clause (C01)
        ctx.count('serial-skipped-parse-raises')
        return
    # baseline: the same sheet must survive an all-encodable round trip, else the case says nothing about encodings
    try:
        base.encoding = 'utf-8'
        p0 = proj_sheet(base)
        b0 = base.cssText
        impl.reset()
        p0r = proj_sheet(_parse(b0.decode('utf-8')))
    except Exception:
        ctx.count('serial-skipped-baseline-raises')
        return
    if p0 != p0r:
        ctx.count('serial-skipped-baseline-unstable')
        return
    impl.reset()
    try:
        sheet.encoding = target
        p1 = proj_sheet(sheet)
        b = sheet.cssText
    except Exception as e:
        ctx.violation('serialise-raises', case, '%s: %s' % (type(e).__name__, e), KNOWN_PRED)
        return
    if not isinstance(b, bytes):
        ctx.violation('serialise-not-bytes', case, repr(type(b)), KNOWN_PRED)
        return
    if sheet.encoding != target.lower() or not sheet.cssRules or sheet.cssRules[0].type != sheet.cssRules[0].CHARSET_RULE:
        ctx.violation('encoding-mirrors-charset', case, 'after sheet.encoding = %r: %r' % (target, sheet.encoding), KNOWN_PRED)
        return
    try:
        t = b.decode(sheet.encoding)
    except Exception as e:
        ctx.violation('bytes-not-decodable', case, '%r does not decode as %s: %s' % (b[:80], sheet.encoding, e), KNOWN_PRED)
        return
    impl.reset()
    try:
        s2 = _parse(t)
        p2 = proj_sheet(s2)
        if target.lower() in AUTODETECT_OK:
            impl.reset()
            s3 = _parse(b)      # bytes in: the codec has to find the encoding itself
            p3 = proj_sheet(s3)
        else:
            p3 = None           # the property speaks of decoding in sheet.encoding only
    except Exception as e:
        ctx.violation('reparse-raises', case, '%s: %s' % (type(e).__name__, e), KNOWN_PRED)
        return
    if target.lower() in AUTODETECT_OK:
        p3 = tuple(('charset', canon(r[1])) if r[0] == 'charset' else r for r in p3)
        p1c = tuple(('charset', canon(r[1])) if r[0] == 'charset' else r for r in p1)
    else:
        p3 = p1c = p1
    if p1 != p2 or p1c != p3:
        which, px = ('decoded text', p2) if p1 != p2 else ('bytes', p3)
        case2 = dict(case)
        atk = re.findall(r'@([^ \t\r\n\f;{}"\'()/]*)', text)
        case2['atkw_unencodable'] = any(cant_encode(a, target) for a in atk)
        case2['same_without_unknown'] = without_unknown(p1) == without_unknown(px)
        pos = escaped_unencodable(text, target)
        case2['escaped_unencodable'] = bool(pos)
        if pos:
            # the same text with each such (backslash, character) pair replaced by an ASCII letter
            t2 = ''.join('' if i in pos else ('x' if i - 1 in pos else ch) for i, ch in enumerate(text))
            case2['ok_without_those_escapes'] = _rt_equal(t2, target)
        d1 = [r for r in p1 if r not in px][:2]
        d2 = [r for r in px if r not in p1][:2]
        ctx.violation('reparse-differs', case2, 'reparse of the %s differs: %r vs %r (serialised %r)' % (which, d1, d2, b[:200]), KNOWN_PRED)
        return
    # never dropped: every character of the serialisation that the target cannot encode is there as an escape
    # (as often as it occurs in the all-encodable serialisation of the same sheet)
    ser = b0.decode('utf-8')
    for ch in set(ser):
        if ord(ch) > 127 and cant_encode(ch, target):
            n_esc = t.upper().count('\\%X ' % ord(ch))
            if n_esc != ser.count(ch):
                ctx.violation('char-dropped', case, 'U+%04X is not encodable in %s, occurs %d times, escaped %d times in %r' % (
                    ord(ch), target, ser.count(ch), n_esc, t[:200]), KNOWN_PRED)
                return
    return t


def tok_flat(toks):
    from harness import impl
    out = []
    for name, value, line, col in toks:
        out += [impl.TOKCODE[name], line, col, len(value)] + s2n(value)
    return out


LIMITS = {'ascii': 128, 'latin-1': 256, 'utf-8': 0x110000}


def run_escape_corr(ctx, texts):
    """escapecss (through the codec) and the token stream of the escaped text vs the model"""
    from harness import impl
    m, want, cases = [], [], []
    for text in texts:
        for name, limit in LIMITS.items():
            esc = text.encode(name, 'escapecss').decode(name)
            m.append([83, limit] + s2n(text))
            want.append(s2n(esc))
            cases.append({'text': text, 'codec': name, 'what': 'escapecss'})
            impl.reset()
            try:
                toks = impl.tokenize(esc, full=True, doc=True)
            except Exception:
                continue
            m.append([84, limit] + s2n(text))
            want.append([0] + tok_flat(toks))
            cases.append({'text': text, 'codec': name, 'what': 'tokens of the escaped text'})
    return m, want, cases


def ref_decode(span):
    """independent CSS escape decoder (hex escapes only)"""
    out, i, n = [], 0, len(span)
    hexd = '0123456789abcdefABCDEF'
    while i < n:
        c = span[i]
        if c != '\\' or i + 1 >= n:
            out.append(c)
            i += 1
        elif span[i + 1] in hexd:
            j = i + 1
            while j < n and j < i + 7 and span[j] in hexd:
                j += 1
            k = j + 2 if span[j:j + 2] == '\r\n' else (j + 1 if j < n and span[j] in '\t\r\n\f ' else j)
            num = int(span[i + 1:j], 16)
            out.append(chr(num) if num <= 0x10FFFF else span[i:k])
            i = k
        else:
            out.append(span[i:i + 2])
            i += 2
    return ''.join(out)


# ------------------------------------------------------------------ known findings

KNOWN_PRED = {
    # a character the target cannot encode inside an unknown at-keyword: escaped on output, the tokenizer does
    # not decode escapes in ATKEYWORD values, so the reparsed keyword keeps the escape text
    'C08-atkeyword-escape': lambda kind, case, detail: (
        kind == 'reparse-differs' and case.get('atkw_unencodable') is True and case.get('same_without_unknown') is True),
    # a character the target cannot encode that is itself backslash-escaped in the source (value keeps the
    # backslash): the handler writes backslash + hex after that backslash, which reads back as an escaped
    # backslash followed by plain hex digits
    'C08-escaped-char-lost': lambda kind, case, detail: (
        kind == 'reparse-differs' and case.get('escaped_unencodable') is True
        and case.get('ok_without_those_escapes') is True),
}


# ------------------------------------------------------------------ run

def run_repoint(ctx, rng):
    """(e) a sheet loaded with an encoding equal to its own @charset, then its encoding attribute is changed, then one of
    its @import rules is pointed at another file without encoding information: that file is decoded with, and reports,
    the referring sheet's CURRENT encoding (the parent step of the precedence), not one remembered from parse time"""
    import cssutils
    from harness import impl
    impl.reset()
    old = rng.choice(['iso-8859-1', 'utf-8', 'cp1252', 'iso-8859-15'])
    new = rng.choice([None, 'utf-8', 'cp1252', 'iso-8859-15', 'iso-8859-1'])
    nested = rng.random() < 0.5
    how = rng.choice(['http', 'charset-only'])
    word = rng.choice(['\xe9', '\xe4\xf6', '\u20ac' if (new or 'utf-8') in ('utf-8', 'cp1252', 'iso-8859-15') and old in ('utf-8', 'cp1252', 'iso-8859-15') else '\xe9'])
    cur = new or 'utf-8'
    files = {
        'ref.css': ('@charset "%s";@import "a.css";r{content:"%s"}' % (old, word)).encode(old),
        'a.css': ('a{content:"%s"}' % word).encode(old),
        'b.css': ('b{content:"%s"}' % word).encode(cur),
        'top.css': b'@import "ref.css";',
    }
    case = {'old': old, 'new': new, 'nested': nested, 'how': how, 'word': word}
    ctx.case(('repoint', json.dumps(case, sort_keys=True)))

    def fetcher(url):
        name = url.rsplit('/', 1)[-1]
        if name not in files:
            return None
        return ((old if (how == 'http' and name == 'ref.css') else None), files[name])
    try:
        p = cssutils.CSSParser(fetcher=fetcher)
        top = p.parseUrl('http://h/top.css' if nested else 'http://h/ref.css')
        ref = top.cssRules[0].styleSheet if nested else top
        if ref is None or ref.encoding != old:
            return
        ref.encoding = new
        rule = [r for r in ref.cssRules if r.type == r.IMPORT_RULE][0]
        rule.href = 'b.css'
        imp = rule.styleSheet
        srs = [r for r in imp.cssRules if r.type == r.STYLE_RULE] if imp is not None else []
        val = srs[0].style.getPropertyValue('content') if srs else None
        enc = imp.encoding if imp is not None else None
    except Exception as e:
        ctx.violation('repoint-raises', case, '%s: %s' % (type(e).__name__, e), KNOWN_PRED)
        return
    if enc != cur or val != '"%s"' % word:
        ctx.violation('repoint-parent-encoding', case, 'imported sheet reports %r and content %r; the referring sheet now has %r (content %r expected)' % (
            enc, val, cur, '"%s"' % word), KNOWN_PRED)


def run_codec_names(ctx):
    """every Python codec name as target encoding (encoding attribute, @charset in text; raising and non-raising log):
    a name that is accepted gives bytes that decode with it to a text that reparses to the same rules; a refused name
    leaves the encoding as it was"""
    import cssutils
    import encodings.aliases
    import xml.dom
    from harness import impl
    names = sorted(set(encodings.aliases.aliases.values()) | {'idna', 'punycode', 'rot13', 'hex', 'base64', 'zlib', 'bz2', 'uu', 'quopri', 'undefined',
                                                              'unicode_escape', 'raw_unicode_escape', 'utf-8-sig', 'mbcs', 'oem', 'nope'})
    for name in names:
        for how in ('attribute', 'attribute-nonraising', 'charset-text'):
            impl.reset()
            case = {'family': 'codec-names', 'encoding': name, 'how': how}
            ctx.case(('codec', name, how))
            try:
                if how == 'charset-text':
                    sheet = cssutils.parseString('@charset "%s"; a{content:"x"}' % name)
                else:
                    sheet = cssutils.parseString('a{content:"x"}')
                    cssutils.log.raiseExceptions = how == 'attribute'
                    try:
                        sheet.encoding = name
                    except xml.dom.DOMException:
                        pass
                    finally:
                        cssutils.log.raiseExceptions = True
                enc = sheet.encoding
                data = sheet.cssText
                text = data.decode(enc)
                again = cssutils.parseString(text)
                if [r.cssText for r in again.cssRules if r.type == r.STYLE_RULE] != [r.cssText for r in sheet.cssRules if r.type == r.STYLE_RULE]:
                    ctx.violation('codec-name-lossy', case, 'reported encoding %r: %r decodes to %r' % (enc, data[:80], text[:80]), KNOWN_PRED)
            except Exception as e:  # noqa
                cssutils.log.raiseExceptions = True
                ctx.violation('codec-name-raises', case, '%s: %s' % (type(e).__name__, str(e)[:160]), KNOWN_PRED)


def run_unencodable(ctx):
    """text no encoding can hold as such (lone surrogates from escapes) and text the chosen encoding cannot hold: the
    sheet serialises under every reported encoding, with or without an @charset rule, and reads back equal"""
    import cssutils
    from harness import impl
    for body in ('a{content:"\\D800 x"}', '.\\DFFF {a:b}', 'a{content:"\\DBFF\\DC00 "}', '/*\\D800*/ a{b:"\u4e2d"}', 'a{b:url(\\D9AB.png)}'):
        for enc in (None, 'utf-8', 'ascii', 'iso-8859-1', 'utf-16', 'koi8-r'):
            for how in ('charset-rule', 'attribute', 'none'):
                impl.reset()
                case = {'family': 'unencodable', 'text': body, 'encoding': enc, 'how': how}
                ctx.case(('unencodable', body, enc, how))
                try:
                    if how == 'charset-rule' and enc:
                        sheet = cssutils.parseString('@charset "%s";' % enc + body)
                    else:
                        sheet = cssutils.parseString(body)
                        if how == 'attribute':
                            sheet.encoding = enc
                    data = sheet.cssText
                    again = cssutils.parseString(data)
                    a = [r.cssText for r in sheet.cssRules if r.type == r.STYLE_RULE]
                    b = [r.cssText for r in again.cssRules if r.type == r.STYLE_RULE]
                except Exception as e:  # noqa
                    ctx.violation('codec-name-raises', case, '%s: %s' % (type(e).__name__, str(e)[:160]), KNOWN_PRED)
                    continue
                if a != b:
                    ctx.violation('codec-name-lossy', case, 'rules %r read back as %r (bytes %r)' % (a, b, data[:80]), KNOWN_PRED)


def run_import_spellings(ctx):
    """an @import added through the DOM as text: however the at-keyword is spelled the imported sheet is decoded as at
    parse time (with the referring sheet's encoding when it has no encoding information of its own)"""
    import cssutils
    from harness import impl
    body = 'i{content:"\xe9\xfc"}'.encode('utf-8')        # valid UTF-8 and valid in every single-byte encoding
    for penc in ('iso-8859-1', 'iso-8859-15', 'koi8-r', 'cp1252', 'utf-8'):
        ref = None
        for spelling in ('@import', '@IMPORT', '@Import', '@i\\mport', ' @import', '/*c*/@import', '\\40 import', '@\\69 mport'):
            for via in ('parse', 'insertRule', 'add'):
                impl.reset()
                case = {'family': 'import-spellings', 'parent_encoding': penc, 'spelling': spelling, 'via': via}
                ctx.case(('import-spelling', penc, spelling, via))
                try:
                    p = cssutils.CSSParser(fetcher=lambda url: (None, body))
                    if via == 'parse':
                        sheet = p.parseString(('@charset "%s"; %s "imp.css"; a{left:0}' % (penc, spelling)).encode(penc), href='http://h/a.css')
                    else:
                        sheet = p.parseString(('@charset "%s"; a{left:0}' % penc).encode(penc), href='http://h/a.css')
                        getattr(sheet, via)('%s "imp.css";' % spelling, *((1,) if via == 'insertRule' else ()))
                    imps = [r for r in sheet.cssRules if r.type == r.IMPORT_RULE]
                    if not imps:
                        continue        # this spelling is no @import rule at all
                    st = imps[0].styleSheet
                    got = (st.encoding, [r.cssText for r in st.cssRules])
                except __import__('xml.dom').dom.DOMException:
                    continue            # e.g. comment + rule: not one rule
                except Exception as e:  # noqa
                    ctx.violation('import-spelling-raises', case, '%s: %s' % (type(e).__name__, str(e)[:160]), KNOWN_PRED)
                    continue
                if ref is None:
                    ref = (got, dict(case))
                elif got != ref[0]:
                    ctx.violation('import-spelling', case, 'imported sheet (encoding, rules) %r; with %r it is %r' % (got, ref[1], ref[0]), KNOWN_PRED)


def run_import_bodies(ctx):
    """the encoding an imported sheet reports follows the precedence (override, transport, its own BOM/@charset, the
    referring sheet, utf-8) whatever the body is: a rule, a comment, blanks or nothing at all; a fetched empty sheet is a
    found sheet, at every depth of an import chain"""
    import cssutils
    from harness import impl
    bodies = [b'i{left:0}', b'/*c*/', b' ', b'\n', b'']
    for penc in ('iso-8859-15', 'koi8-r', 'utf-8', None):
        for http in (None, 'cp1252'):
            for override in (None, 'iso-8859-5'):
                for depth in (1, 3):
                    ref = None
                    for body in bodies:
                        impl.reset()
                        case = {'family': 'import-bodies', 'parent_encoding': penc, 'transport': http, 'override': override, 'depth': depth, 'body': list(body)}
                        ctx.case(('import-body', penc, http, override, depth, body))

                        def fetcher(url, body=body, depth=depth, http=http):
                            k = int(url.rsplit('/', 1)[-1].split('.')[0][1:])
                            if k < depth:
                                return (http, ('@import "n%d.css";' % (k + 1)).encode('ascii'))
                            return (http, body)
                        try:
                            p = cssutils.CSSParser(fetcher=fetcher)
                            head = ('@charset "%s"; ' % penc) if penc else ''
                            sheet = p.parseString((head + '@import "n1.css"; a{left:0}').encode(penc or 'utf-8'), href='http://h/a.css', encoding=override)
                            chain = []
                            cur = sheet
                            for _k in range(depth):
                                imp = [r for r in cur.cssRules if r.type == r.IMPORT_RULE][0]
                                chain.append((imp.hrefFound, imp.styleSheet.encoding if imp.styleSheet is not None else None))
                                cur = imp.styleSheet
                        except Exception as e:  # noqa
                            ctx.violation('import-spelling-raises', case, '%s: %s' % (type(e).__name__, str(e)[:160]), KNOWN_PRED)
                            continue
                        if ref is None:
                            ref = (chain, dict(case))
                        elif chain != ref[0]:
                            ctx.violation('import-body', case, '(found, encoding) along the import chain %r; with body %r it is %r' % (chain, bytes(ref[1]['body']), ref[0]), KNOWN_PRED)


def run(ctx):
    quick = ctx.tier == 'quick'
    rng = ctx.rng
    run_codec_names(ctx)
    run_unencodable(ctx)
    run_import_spellings(ctx)
    run_import_bodies(ctx)
    for _ in range(60 if quick else 1500):
        run_repoint(ctx, rng)
    ctx.cov['rule'] = ('(a) all rows override{none,4} x transport{none,"",4} x content{neither, BOM x3, @charset x4} x parent{none,4} x bytes/text '
                       'x fetcher result{data, None, (None,None)/(cs,None)} with a consistent and a lying payload; (b) import trees of depth <= 3 '
                       '(exhaustive chains over an 8-letter per-node alphabet in the thorough tier, sampled in quick; random branching trees) through '
                       'parseString(text), parseString(bytes), parseUrl; (c) sheet.encoding histories; (d) generated sheets with non-ASCII words in '
                       'ident/string/url/comment/at-keyword positions x target encodings; distinct = distinct canonical case')
    have_model = ctx.model.available
    if not have_model:
        ctx.broken.append(('correspondence', 'extracted model not available'))

    # (a)
    rows = gen_rows(ctx, quick)
    m_in, got = run_rows(ctx, rows)
    ctx.sample({'readurl_row': {k: rows[0][k] for k in ('ov', 'http', 'kind', 'par', 'is_text', 'fetch')}})
    if have_model:
        idx = [i for i, x in enumerate(m_in) if x is not None]
        outs = ctx.model.run([m_in[i] for i in idx])
        agree = 0
        for i, o in zip(idx, outs):
            if o == got[i]:
                agree += 1
            else:
                ctx.disagree('read_url', {k: rows[i][k] for k in ('ov', 'http', 'kind', 'par', 'is_text', 'fetch', 'payload')}, got[i], o)
        ctx.extra['correspondence_readurl'] = {'rows': len(idx), 'agree': agree}

    # (b)
    cases = gen_tree_cases(ctx, quick)
    m_in, info = [], []
    for case in cases:
        ctx.case(('tree', json.dumps(case, sort_keys=True)))
        r = run_tree(ctx, case)
        if r is None:
            continue
        m, obs, raised, (root, contents) = r
        m_in.append(m)
        info.append((case, obs, raised, root, contents))
    if cases:
        ctx.sample({'tree_case': cases[-1]})
    if have_model:
        outs = ctx.model.run(m_in)
        agree = 0
        for (case, obs, raised, root, contents), o in zip(info, outs):
            d = compare_tree(o, obs, raised, root, contents, case)
            if d is None:
                agree += 1
            else:
                ctx.disagree('resolve_tree', case, d, (o or [])[:40])
        ctx.extra['correspondence_trees'] = {'trees': len(info), 'agree': agree}

    # (c)
    m_in, wants, cs = [], [], []
    for _ in range(300 if quick else 5000):
        r = run_sheet_history(ctx, rng)
        if r is None:
            continue
        m_in.append(r[0])
        wants.append(r[1])
        cs.append(r[2])
    if have_model:
        outs = ctx.model.run(m_in)
        agree = 0
        for w, o, c in zip(wants, outs, cs):
            if w == o:
                agree += 1
            else:
                ctx.disagree('set_encoding', c, w[:30], (o or [])[:30])
        ctx.extra['correspondence_set_encoding'] = {'histories': len(cs), 'agree': agree}

    # (d)
    targets = TARGETS_QUICK if quick else TARGETS_QUICK + TARGETS_MORE
    ntexts = 260 if quick else 1500
    texts = [gen_sheet_text(rng, with_atkeyword=(i % 4 == 0), surrogates=(not quick and i % 7 == 0), escapes=(i % 10 == 5))
             for i in range(ntexts)]
    # the characters of every position, one at a time (all WORD_CHARS in each syntactic position)
    for ch in WORD_CHARS[8:]:
        texts.append('%sa{x-%s:%s "%s" url(%s) 1%s;background:url("%s")}/*%s*/.%s,#%s{a:%s(1)}' % ((ch,) * 11))
    ctx.sample({'serial_text': texts[0]})
    escaped = []
    for i, text in enumerate(texts):
        ts = targets if (not quick or i >= ntexts) else rng.sample(targets, 4)
        for target in ts:
            t = run_serial(ctx, text, target)
            if t is not None and target == 'ascii':
                escaped.append(text)
    ctx.sample({'known_class': '@f\xe4 x; with sheet.encoding = "ascii"'})
    run_serial(ctx, '@f\xe4 x;a{left:0}', 'ascii')
    run_serial(ctx, 'a{font-family:\\\xe4}', 'ascii')
    if have_model:
        # serialiser-level texts: what the serialiser hands to encode()
        import cssutils
        from harness import impl
        sers = []
        for text in texts[:120 if quick else 1200]:
            impl.reset()
            try:
                sers.append(_parse(text).cssText.decode('utf-8'))
            except Exception:
                pass
        sers = [s for s in sers if s and '\\' not in s and not any(0xD800 <= ord(c) <= 0xDFFF for c in s)]
        m_in, wants, cs = run_escape_corr(ctx, sers)
        outs = ctx.model.run(m_in)
        agree = 0
        for w, o, c in zip(wants, outs, cs):
            if w == o:
                agree += 1
            else:
                ctx.disagree('escapecss', c, w[:60], (o or [])[:60])
        ctx.extra['correspondence_escapecss'] = {'cases': len(cs), 'agree': agree}
        # hand-transcribed escape syntax == tokenizer's unicodesub == independent Python decoder
        pool = list('\\\\\\\\aAfF09gz \t\n"') + ['\xe4', '\U0001f600', '\r\n', '\\E4 ', '\\10FFFF', '\\110000', '\\0']
        strs = [''.join(rng.choice(pool) for _ in range(rng.randrange(1, 14))) for _ in range(600 if quick else 6000)]
        outs = ctx.model.run([[85] + s2n(s) for s in strs])
        agree = 0
        for s, o in zip(strs, outs):
            if o is not None and 1114112 in o:
                k = o.index(1114112)
                if o[:k] == o[k + 1:] == s2n(ref_decode(s)):
                    agree += 1
                    continue
            ctx.disagree('decode_escapes', {'text': s}, s2n(ref_decode(s)), o)
        ctx.extra['correspondence_decode_escapes'] = {'cases': len(strs), 'agree': agree}


def replay(path):
    """re-run the recorded case on the implementation and print what is observed"""
    d = json.load(open(path))
    print(json.dumps({k: d[k] for k in ('property', 'kind', 'detail') if k in d}, indent=1)[:3000])
    case = d.get('case') or {}
    ctx = core.Ctx('C08', 'quick', 0)
    if 'text' in case and 'target' in case:
        run_serial(ctx, case['text'], case['target'])
    elif 'root' in case:
        run_tree(ctx, case)
    elif 'kind' in case and 'fetch' in case:
        row = dict(case, label='n', be=False, kids=[])
        run_rows(ctx, [row])
    elif 'ops' in case:
        print('sheet history: %r' % case)
    for v in ctx.violations:
        print('reproduced: %s: %s' % (v['kind'], v['detail'][:600]))
    if not ctx.violations and not ctx.known_hits:
        print('not reproduced on this tree')
    for k, n in ctx.known_hits.items():
        print('reproduced known finding %s' % k)
    return 1 if ctx.violations else 0
