"""C01 — parsing any input returns a DOM: never raises, never hangs; the result
serialises, and the serialisation parses and serialises again.
Coq: tokenizer totality (Proofs/TokenizerFacts.v), bracket-aware slicing and
the statement / declaration loops (Model/Slice.v, Model/Blocks.v,
Proofs/SliceFacts.v, Proofs/BlocksFacts.v), Props/C01.v.
Search: worker pool with per-case time limits over malformed and nested
inputs, all parser options, byte inputs, fetchers incl. cyclic imports."""
import json
import time

from harness import core, gen_text as G

GEN = ['GenLex']

MANIFEST = dict(
    text='Machine-checked (Coq, closed under the global context): the tokenizer model is total for every text (no stuck state, '
         'at most |text|+1 iterations); bracket-aware slicing (_tokensupto2, all modes) always returns a prefix of its input, stops '
         'at EOF and consumes at least one token; hence the sheet-level statement loop and the declaration loop of the model '
         'terminate after at most #tokens callbacks and never read past EOF. What the proof does not carry: the ~40 semantic '
         'callbacks of the rule/selector/value parsers (any Python exception inside them) and wall-clock time - those are '
         'searched on the implementation with a worker pool, per-case time limits scaled by input size, nesting sweeps to depth '
         '100, all parser options, byte inputs with BOM/@charset and fetchers serving acyclic and cyclic @import graphs. Partial.',
    note='Trusted: Coq kernel + vm_compute; translator for lexical tables; extraction + driver; hand models of the tokenizer loop, '
         '_tokensupto2 and the two dispatch loops (validated by correspondence on every run); the crash/hang search is exploration.',
    design='7/C01')

OPTS = [(True, True), (True, False), (False, True), (False, False)]


def time_limit(case):
    n = len(case['input']) if not isinstance(case['input'], dict) else 200
    return 1.5 + 4e-6 * n * n + 0.002 * n


def nested(rng, depth):
    k = rng.randrange(12)
    if k == 8:      # var() fallbacks nested in fallbacks (defined, undefined, mixed)
        return '@variables{v0:1px} a{x:' + ''.join('var(v%d, ' % (i % 2) for i in range(depth)) + '1px' + ')' * depth + '}'
    if k == 9:
        return 'a{x:' + 'var(v, ' * depth + 'red' + ')' * depth + '; y: ' + 'var(w,' * min(depth, 30) + ')' * min(depth, 30) + '}'
    if k == 10:     # functions of every kind nested in one another
        fs = ['rgb(', 'url(', 'var(a,', 'calc(', 'f(', 'attr(', 'hsl(1,', 'counter(']
        return 'a{x:' + ''.join(fs[i % len(fs)] if fs[i % len(fs)] != 'url(' else 'g(' for i in range(depth)) + '1' + ')' * depth + '}'
    if k == 11:
        return 'a{x:' + 'f(1, ' * depth + '2' + ')' * depth + ' ' + 'g(' * depth + ')' * depth + '}'
    if k == 0:
        return 'a{' * depth + 'b:c' + '}' * depth
    if k == 1:
        return 'a{x:' + 'f(' * depth + '1' + ')' * depth + '}'
    if k == 2:
        return 'a{x:' + '(' * depth + '1' + ')' * depth + '}'
    if k == 3:
        return '@media screen{' * depth + 'a{b:c}' + '}' * depth
    if k == 4:
        return 'a:not(' * depth + 'b' + ')' * depth + '{c:d}'
    if k == 5:
        return 'a' + '[' * depth + 'b' + ']' * depth + '{c:d}'
    if k == 6:
        return 'a{x:calc(' + '(1+' * depth + '1' + ')' * depth + ')}'
    if k == 7 and depth % 2:
        return 'a{x:' + 'calc(' * depth + '1' + ')' * depth + '}'
    return '@x ' + '{' * depth + '}' * depth


def pumping(rng, n):
    k = rng.randrange(6)
    if k == 0:
        return '/*' + '*' * n
    if k == 1:
        return 'a{b:"' + '\\' * n
    if k == 2:
        return 'url(' + 'a' * n
    if k == 3:
        return '-' * n + 'a{b:c}'
    if k == 4:
        return 'a{b:' + '1' * n + '.' + '}'
    return '/*' + '*/' * 0 + ('*' * (n // 2)) + ('/*' * (n // 4))


def parse_case(case):
    """worker: run one case through the public entry points; returns outcome dict"""
    import cssutils
    from harness import impl
    impl.reset(raise_exceptions=True)
    kind = case['kind']
    inp = case['input']
    pc, val = case.get('opts', (True, True))
    out = {'stage': None}
    t0 = time.perf_counter()
    try:
        out['stage'] = 'parse'
        if kind == 'style':
            obj = cssutils.CSSParser(parseComments=pc, validate=val).parseStyle(inp)
        elif kind == 'fetch':
            files = inp['files']
            mode = inp['mode']

            def fetcher(url):
                name = url.rsplit('/', 1)[-1]
                if name not in files:
                    return None if mode == 0 else (None, None)
                data = files[name]
                if inp.get('http') and name != inp['root']:
                    return (inp['http'], data.encode('utf-8'))
                return (None, data.encode('utf-8')) if mode != 2 else ('utf-8', data.encode('utf-8'))
            p = cssutils.CSSParser(parseComments=pc, validate=val, fetcher=fetcher)
            obj = p.parseString(files[inp['root']], href='http://h/' + inp['root'])
        else:
            data = inp.encode('latin-1') if kind == 'bytes' else inp
            if kind == 'bytes':
                # the property's domain: byte strings decodable under the encoding that applies (BOM / @charset / default);
                # a declared name may be unknown or no text encoding at all (hex, rot13, zlib: any exception type)
                import codecs
                try:
                    codecs.getdecoder('css')(data)
                except Exception as e:  # noqa
                    out['undecodable'] = type(e).__name__
            obj = cssutils.CSSParser(parseComments=pc, validate=val).parseString(data)
        out['t_parse'] = time.perf_counter() - t0
        if cssutils.log.raiseExceptions is not True:
            out['mode_leak'] = True
        out['stage'] = 'serialise'
        t1 = time.perf_counter()
        text = obj.cssText
        out['t_ser'] = time.perf_counter() - t1
        out['stage'] = 'reparse'
        if kind == 'style':
            obj2 = cssutils.parseStyle(text)
        else:
            over = None
            if isinstance(text, bytes):
                # the serialisation of a sheet whose @charset names an encoding that is not ASCII compatible
                # (cp037, utf-16-le...) does not describe itself: outside "decodable under the encoding that
                # applies" unless the reader is told the encoding, as a transport would
                import codecs
                try:
                    codecs.getdecoder('css')(text)
                except UnicodeDecodeError:
                    over = obj.encoding
                    out['reparse_override'] = over
            obj2 = cssutils.parseString(text, encoding=over)
        out['stage'] = 'reserialise'
        obj2.cssText
        out['stage'] = 'done'
    except BaseException as e:  # noqa
        out['exc'] = '%s: %s' % (type(e).__name__, str(e)[:160])
    out['t'] = time.perf_counter() - t0
    return out


def gen_cases(ctx):
    rng = ctx.rng
    quick = ctx.tier == 'quick'
    cases = []
    n_soup, n_trunc, n_nest, n_bytes, n_fetch = (1500, 400, 120, 200, 60) if quick else (60000, 8000, 1500, 6000, 1500)

    def opts():
        return OPTS[rng.randrange(4)]
    for _ in range(n_soup):
        s = G.gen_soup(rng, maxlen=rng.choice([6, 12, 24, 40]))
        cases.append({'kind': rng.choice(['sheet', 'sheet', 'style']), 'input': s, 'opts': opts(), 'family': 'soup'})
    for _ in range(n_trunc):
        cases.append({'kind': 'sheet', 'input': G.gen_truncation(rng), 'opts': opts(), 'family': 'trunc'})
    for s in G.SHEETS:
        for pre in ('', 'a{x:', '@media all{', 'a{', '@page{', '@font-face{'):
            for frag in G.FRAGMENTS:
                if rng.random() < (0.12 if quick else 1.0):
                    cases.append({'kind': 'sheet', 'input': pre + frag, 'opts': opts(), 'family': 'state-x-token'})
                if rng.random() < (0.04 if quick else 0.5):
                    # the same fragment closed properly, so that it reaches the DOM and the serializer
                    cases.append({'kind': 'sheet', 'input': pre + frag + ';' + ('}' if '{' in pre else '') + ' z{y:x}',
                                  'opts': opts(), 'family': 'state-x-token-closed'})
    depths = [1, 2, 3, 5, 8, 12, 16, 20, 30, 50, 80, 100]
    for _ in range(n_nest):
        d = rng.choice(depths if not quick else depths[:9] + [50, 100])
        cases.append({'kind': 'sheet', 'input': nested(rng, d), 'opts': opts(), 'family': 'nest', 'depth': d})
    for n in ([20, 40, 80, 160, 400] if quick else [20, 40, 80, 160, 400, 1000, 3000]):
        for _ in range(6):
            cases.append({'kind': 'sheet', 'input': pumping(rng, n), 'opts': opts(), 'family': 'pump'})
    # long but flat: many terms / declarations / selectors / rules / media (no nesting at all)
    for n in ([300, 2500] if quick else [300, 1200, 2500, 6000]):
        for flat in ('a{b: ' + ' '.join(['1'] * n) + '}', 'a{box-shadow: ' + ','.join(['1px 1px #fff'] * n) + '}', 'a{' + ';'.join(['b:c'] * n) + '}',
                     ','.join(['a'] * n) + '{b:c}', ' '.join(['a'] * n) + '{b:c}', 'a{b:c}' * n, '@media ' + ','.join(['tv'] * n) + '{a{b:c}}',
                     'a{b:f(' + ','.join(['1'] * n) + ')}', 'a' + '.c' * n + '{b:c}', '@import "x.css" ' + ' and '.join(['(color)'] * n) + ';',
                     'a{b:' + '/'.join(['1'] * n) + '}', '/*c*/' * n, 'a{color:hsl(0,' + '9' * min(n, 300) + '%,' + '9' * min(n, 300) + '%)}'):
            cases.append({'kind': 'sheet', 'input': flat, 'opts': opts(), 'family': 'flat-long'})
    for _ in range(n_bytes):
        body = G.gen_soup(rng, 16)
        pre = rng.choice(['', '\xef\xbb\xbf', '\xff\xfe', '\xfe\xff', '@charset "utf-8";', '@charset "ascii";',
                          '@charset "latin-1";', '\xef\xbb\xbf@charset "utf-8";'])
        b = (pre + body)
        b = ''.join(c if ord(c) < 256 else '?' for c in b)
        cases.append({'kind': 'bytes', 'input': b, 'opts': opts(), 'family': 'bytes'})
    for _ in range(n_fetch):
        names = ['a.css', 'b.css', 'c.css']
        files = {}
        for nm in names:
            imps = ''.join('@import "%s";' % rng.choice(names + ['missing.css']) for _ in range(rng.randrange(0, 3)))
            files[nm] = imps + G.gen_soup(rng, 8)
        cases.append({'kind': 'fetch', 'input': {'files': files, 'root': 'a.css', 'mode': rng.randrange(3)},
                      'opts': opts(), 'family': 'fetch'})
    # imported sheets whose applicable encoding is a codec of every kind Python registers (text, bytes-to-bytes,
    # text-to-text, unknown): named by @charset in the content or by the charset the fetcher reports
    for codec in ('rot13', 'zlib', 'quopri', 'hex', 'base64', 'bz2', 'uu', 'idna', 'punycode', 'undefined', 'nope', 'utf-7', 'unicode_escape',
                  'raw_unicode_escape', 'utf-16', 'utf-32', 'cp037', 'mbcs'):
        for where in ('charset', 'http', 'nested'):
            files = {'a.css': '@import "b.css"; a{left:0}', 'b.css': ('@charset "%s";' % codec if where != 'http' else '') + ('@import "c.css";' if where == 'nested' else '') + 'b{top:0}',
                     'c.css': 'c{right:0}'}
            cases.append({'kind': 'fetch', 'input': {'files': files, 'root': 'a.css', 'mode': 1, 'http': codec if where == 'http' else None},
                          'opts': opts(), 'family': 'fetch-codec'})
    # a text sheet naming every codec Python registers (and the css codec itself) in its @charset rule:
    # the rule is kept or refused, and either way the sheet serialises and the result parses again
    import encodings.aliases
    names = sorted(set(encodings.aliases.aliases.values()) | {'css', 'CSS', 'utf-8-sig', 'idna', 'punycode', 'unicode_escape', 'raw_unicode_escape', 'undefined', 'nope'})
    for codec in names:
        cases.append({'kind': 'sheet', 'input': '@charset "%s"; a{content:"\\e9  \xe9 \u20ac"}' % codec, 'opts': opts(), 'family': 'charset-names'})
        cases.append({'kind': 'fetch', 'input': {'files': {'a.css': '@import "b.css"; a{left:0}', 'b.css': 'b{top:0}'}, 'root': 'a.css', 'mode': 1, 'http': codec},
                      'opts': opts(), 'family': 'fetch-codec'})
    return cases


KNOWN_PRED = {}


def run(ctx):
    from harness import impl
    cases = gen_cases(ctx)
    try:
        for t in json.load(open(core.VERIF + '/corpus/C01.json')):
            cases.insert(0, t)
    except OSError:
        pass
    ctx.cov['rule'] = ('inputs: character/fragment soup, truncations of sheets, parser-state x token-kind products, nesting sweeps '
                       '(blocks, functions, parentheses, :not, [], calc) to depth 100, pumping families, byte inputs with BOM/@charset, '
                       'import graphs (acyclic/cyclic/missing) x fetcher result kinds; x 4 parser option settings; distinct by (kind, input, opts); '
                       'non-trivial = non-empty input')
    pool = impl.Pool('harness.props.c01.parse_case', nproc=14)
    res = pool.map(cases, time_limit)
    fam = {}
    slow = []
    for case, r in zip(cases, res):
        fam[case['family']] = fam.get(case['family'], 0) + 1
        key = (case['kind'], json.dumps(case['input'], sort_keys=True), tuple(case.get('opts', ())))
        ctx.case(key, nontrivial=bool(case['input']))
        cj = {k: (list(v) if isinstance(v, tuple) else v) for k, v in case.items()}
        if r[0] == 'timeout':
            slow.append(cj)
            continue
        if r[0] != 'ok':
            ctx.violation('worker-' + r[0], cj, r[1], KNOWN_PRED)
            continue
        o = r[1]
        if 'exc' in o and case['kind'] == 'bytes' and o['stage'] == 'parse' and o.get('undecodable') and o['exc'].startswith(o['undecodable']):
            # out of the property's domain: a byte string that is not decodable under the encoding that applies
            ctx.count('undecodable_bytes')
            continue
        if 'exc' in o:
            exc = o['exc'].split(':')[0]
            ctx.violation('raises-%s-%s' % (o['stage'], exc), cj, 'stage %s: %s' % (o['stage'], o['exc']), KNOWN_PRED)
        if o.get('mode_leak'):
            ctx.count('mode_leak_seen')
    # re-measure slow cases (twice more, double limit, all in one parallel map) before reporting a hang /
    # super-polynomial time; when there are many, the 48 shortest inputs stand for all
    ctx.extra['slow_first_pass'] = len(slow)
    slow.sort(key=lambda c: len(json.dumps(c['input'])))
    slow = slow[:48]
    again = pool.map([dict(cj, opts=tuple(cj.get('opts', (True, True)))) for cj in slow for _ in range(2)], lambda c: 2 * time_limit(c))
    for k, cj in enumerate(slow):
        if all(a[0] == 'timeout' for a in again[2 * k:2 * k + 2]):
            ctx.violation('time-%s' % cj['family'], cj, 'no result within %.1fs (limit scales with n^2), 3 attempts' % (2 * time_limit(cj)), KNOWN_PRED)
    ctx.extra['input_distribution'] = fam
    # tie of Model/Slice.v + Model/Blocks.v: the implementation's slicing trace on malformed texts
    from harness import slicing
    # only texts the pool handled quickly: this step runs in-process and must not hang on a tree with a time defect
    fast = {id(c) for c, r in zip(cases, res) if r[0] == 'ok' and 'exc' not in r[1] and r[1].get('t', 9) < 0.5}
    texts = [c['input'] for c in cases if id(c) in fast and c['kind'] in ('sheet', 'style')
             and c['family'] in ('soup', 'trunc', 'state-x-token')]
    agree = slicing.correspondence(ctx, texts[:250 if ctx.tier == 'quick' else 5000])
    ctx.extra['correspondence'] = {'slicing_checks_agree_total': agree}
    ctx.sample({k: v for k, v in cases[len(cases) // 3].items()})
    ctx.sample({k: v for k, v in cases[-1].items()})


def replay(path):
    d = json.load(open(path))
    case = d['case']
    case['opts'] = tuple(case.get('opts', (True, True)))
    print(json.dumps(case)[:500])
    print(parse_case(case))
    return 0
