"""C09 — a stylesheet stays structurally valid under any sequence of DOM edits.
Coq: Model/Sheet.v, Proofs/SheetFacts.v, Props/C09.v.
Correspondence: operation histories run in lock-step on CSSStyleSheet /
CSSMediaRule / CSSPageRule and on the extracted model; after every operation
the rule lists (identity + kind), the raw parent links, the result index /
exception class and the newly detached objects are compared.
Search (independent of the model): the structural validity stated by the
property is evaluated on the implementation after every operation through
the public API, and the serialisation is reparsed and must keep every rule."""
import json

from harness import core

GEN = []

MANIFEST = dict(
    text='Machine-checked (Coq, closed under the global context): the structural invariant wf_sheet (at most one @charset and only '
         'first; @import < @namespace/@variables < style/@media/@page/@font-face with comments and unknown rules anywhere behind '
         '@charset; @media/@page lists hold only allowed kinds; every listed rule names its container, every detached object names '
         'none) is preserved by every modelled edit, accepted or rejected (insertRule at any index incl. invalid ones, add, '
         'deleteRule with negative indexes, insertRule/add/deleteRule on @media/@page, encoding=, namespaces[p]=u), hence holds '
         'after every finite history from the empty sheet; a sheet whose kinds satisfy the ordering is kept in full by the '
         'parse-time level machine. The model follows insertRule branch by branch and is tied to the implementation by lock-step '
         'histories (rule identity, kinds, raw parent links, results); the search evaluates the invariant and a reparse on the '
         'implementation after every operation.',
    note='Trusted: Coq kernel + vm_compute; extraction + driver; hand model of insertRule/deleteRule/_cleanNamespaces/_setEncoding/'
         '_Namespaces.__setitem__/CSSRuleRules validated by correspondence (not translated); the model is of the tree with '
         'fixes/C09-*.patch applied; selectors never use a namespace (the in-use refusal of deleteRule and del namespaces[p] are '
         'C15); replacing cssText of the sheet / of a rule and style/property parents are covered by the search only.',
    design='7/C09')

KINDS = ['charset', 'import', 'namespace', 'variables', 'media', 'page', 'font-face', 'style', 'comment', 'unknown', 'margin']
KC = {k: i for i, k in enumerate(KINDS)}
PFX = ['', 'a', 'b', 'c']
URI = [None, 'u1', 'u2', 'u3']
EXN = {'DOM:IndexSizeErr': 1, 'DOM:HierarchyRequestErr': 2, 'DOM:NoModificationAllowedErr': 3, 'DOM:NamespaceErr': 4,
       'DOM:SyntaxErr': 5}
OFF = 1000

TEXTS = {
    'charset': '@charset "utf-8";', 'import': '@import "x.css";', 'variables': '@variables { x: 1 }',
    'media': '@media screen {}', 'page': '@page :first { margin: 0 }',
    'font-face': '@font-face { font-family: x }', 'style': 'a { left: 0 }', 'comment': '/*c*/', 'unknown': '@x y;',
}


def _types():
    import cssutils
    R = cssutils.css.CSSRule
    return {R.CHARSET_RULE: 'charset', R.IMPORT_RULE: 'import', R.NAMESPACE_RULE: 'namespace', R.VARIABLES_RULE: 'variables',
            R.MEDIA_RULE: 'media', R.PAGE_RULE: 'page', R.FONT_FACE_RULE: 'font-face', R.STYLE_RULE: 'style',
            R.COMMENT: 'comment', R.UNKNOWN_RULE: 'unknown', R.MARGIN_RULE: 'margin'}


def make_rule(kind, p=0, u=1):
    import cssutils
    C = cssutils.css
    if kind == 'charset':
        return C.CSSCharsetRule(encoding='utf-8')
    if kind == 'import':
        return C.CSSImportRule(href='x.css')
    if kind == 'namespace':
        return C.CSSNamespaceRule(namespaceURI=URI[u], prefix=PFX[p])
    if kind == 'variables':
        return C.CSSVariablesRule(variables=C.CSSVariablesDeclaration(cssText='x: 1'))
    if kind == 'media':
        return C.CSSMediaRule(mediaText='screen')
    if kind == 'page':
        return C.CSSPageRule(selectorText=':first', style='margin: 0')
    if kind == 'font-face':
        return C.CSSFontFaceRule(style='font-family: x')
    if kind == 'style':
        return C.CSSStyleRule(selectorText='a', style='left: 0; top: 0')
    if kind == 'comment':
        return C.CSSComment('/*c*/')
    if kind == 'unknown':
        return C.CSSUnknownRule('@x y;')
    if kind == 'margin':
        return C.MarginRule(margin='@top-left', style='left: 0')
    raise ValueError(kind)


def rule_text(kind, p, u):
    if kind == 'namespace':
        return '@namespace %s"%s";' % (PFX[p] + ' ' if PFX[p] else '', URI[u])
    return TEXTS[kind]


# ---------------------------------------------------------------- generation

MEDIA_TEXTS = ['@media print { b { top: 0 } /*c*/ @page { margin: 0 } }', '@media tv {}',
               '@media print { @media tv { c { left: 0 } } @x y; }', '@media print { a { left: 0 } @import "x.css"; }']
PAGE_TEXTS = ['@page :left { margin: 1px; @top-left { left: 0 } }', '@page { margin: 0 }',
              '@page :right { @bottom-center { top: 0 } @top-left { left: 0 } }']


def gen_text_op(rng, conts):
    if conts and rng.random() < 0.5:
        cid, ck, n = rng.choice(conts)
        return ('rtext', cid, rng.choice(MEDIA_TEXTS if ck == 'media' else PAGE_TEXTS))
    ks = [rng.choice(KINDS[:10]) for _ in range(rng.randrange(0, 7))]
    if rng.random() < 0.6:
        ks.sort(key=lambda k: {'charset': 0, 'import': 1, 'namespace': 2, 'variables': 3}.get(k, 4))
    text = ''
    for j, k in enumerate(ks):
        text += ('@namespace p%d "v%d";' % (j, j)) if k == 'namespace' else TEXTS[k].replace('{}', '{ a { left: 0 } }')
        text += '\n'
    return ('stext', text)


def gen_op(rng, nsheet, conts, depth_kinds, text_ops=False):
    """one random operation; nsheet = current sheet length, conts = [(cid, kind, length)]"""
    if text_ops and rng.random() < 0.12:
        return gen_text_op(rng, conts)
    r = rng.random()
    kind = rng.choice(KINDS[:10]) if rng.random() < 0.93 else 'margin'
    p, u = rng.randrange(1, 4), rng.randrange(1, 4)      # never the default namespace: see notes (in-use refusal, C15)

    def idx(n, allow_none=True):
        c = rng.random()
        if allow_none and c < 0.15:
            return None
        if c < 0.85:
            return rng.randrange(0, n + 1)
        return rng.choice([-1, -2, n + 1, n + 2, -n - 1, -n, n])
    if conts and r < 0.22:
        cid, ck, n = rng.choice(conts)
        k2 = rng.choice(depth_kinds) if rng.random() < 0.8 else kind
        return ('rins', k2, cid, idx(n), rng.random() < 0.3)
    if conts and r < 0.28:
        cid, ck, n = rng.choice(conts)
        return ('rdel', cid, rng.choice([rng.randrange(-n - 2, n + 2), rng.randrange(-1, max(1, n))]))
    if r < 0.52:
        return ('ins', kind, p, u, idx(nsheet), rng.random() < 0.2)
    if r < 0.74:
        return ('add', kind, p, u, rng.random() < 0.15)
    if r < 0.88:
        return ('del', rng.choice([rng.randrange(-nsheet - 2, nsheet + 2), rng.randrange(-1, max(1, nsheet))]),
                rng.random() < 0.2)
    if r < 0.93:
        return ('enc', rng.choice([None, 'utf-8', 'ascii', 'utf-8', 'no-such-enc']))
    if r < 0.985:
        return ('nsset', p, u)
    return ('style',)


# ---------------------------------------------------------------- implementation runner

class World:
    """one sheet plus every rule object the history has created or seen"""

    def __init__(self):
        import cssutils
        from harness import impl
        impl.reset()
        cssutils.ser.prefs.keepEmptyRules = True
        cssutils.ser.prefs.resolveVariables = False
        self.cssutils = cssutils
        self.T = _types()
        self.sheet = cssutils.css.CSSStyleSheet()
        self.objs = {}          # model id -> object (None: never seen, e.g. refused text)
        self.kind = {}          # model id -> kind
        self.ids = {}           # id(object) -> model id
        self.conts = []         # model ids of @media/@page objects, creation order
        self.detached = set()
        self.last_exc = None

    def know(self, mid, obj, kind):
        self.objs[mid] = obj
        self.kind[mid] = kind
        if obj is not None:
            self.ids[id(obj)] = mid
        if kind in ('media', 'page') and mid not in self.conts:
            self.conts.append(mid)

    def discover(self, mid, many=False):
        """objects created inside the library (text insert, encoding, namespaces[]=): give the first unknown one the
        id of the step; after a text replacement (search-only histories) all new objects get synthetic ids"""
        extra = mid * 1000
        todo = [self.sheet.cssRules] + [self.objs[c].cssRules for c in self.conts if self.objs[c] is not None]
        while todo:
            l = todo.pop()
            for o in l:
                if id(o) not in self.ids:
                    k = self.T[o.type]
                    if self.objs.get(mid) is None and not many:
                        self.know(mid, o, k)
                    elif many:
                        extra += 1
                        self.know(extra, o, k)
                        if k in ('media', 'page'):
                            todo.append(o.cssRules)
                    else:
                        raise RuntimeError('two unknown objects in one step')

    def node(self, o):
        mid = self.ids.get(id(o), 0)
        pr = getattr(o, '_parentRule', None)
        return [mid, KC[self.T[o.type]], 1 if o._parentStyleSheet is self.sheet else 0,
                (self.ids.get(id(pr), 999998) + 1) if pr is not None else 0]

    def listed(self):
        s = set()
        for o in self.sheet.cssRules:
            s.add(self.ids.get(id(o)))
        for c in self.conts:
            if self.objs[c] is not None:
                for o in self.objs[c].cssRules:
                    s.add(self.ids.get(id(o)))
        return s

    def observe(self):
        sh = [self.node(o) for o in self.sheet.cssRules]
        cs = []
        for c in self.conts:
            o = self.objs[c]
            cs.append((c, [self.node(x) for x in o.cssRules] if o is not None else []))
        inl = self.listed()
        new = sorted(m for m in self.objs if m not in inl and m not in self.detached)
        self.detached.update(new)
        nd = []
        for m in new:
            o = self.objs[m]
            nd.append(self.node(o) if o is not None else [m, KC[self.kind[m]], 0, 0])
        return sh, cs, nd


def enc_idx(i):
    return 0 if i is None else i + OFF


def apply_op(w, op, mid):
    """run one op on the implementation; returns (flat model op, result pair)"""
    from harness import impl
    cssutils = w.cssutils
    sheet = w.sheet
    code = op[0]
    try:
        if code in ('ins', 'add'):
            kind, p, u = op[1], op[2], op[3]
            # text form: not for margin rules (not a sheet-level text) and not for @namespace (the temporary
            # sheet shares the real sheet's namespaces object: namespace semantics, C15)
            text = op[-1] and kind not in ('margin', 'namespace')
            if text:
                rule = rule_text(kind, p, u)
                w.know(mid, None, kind)
            else:
                rule = make_rule(kind, p, u)
                w.know(mid, rule, kind)
            if code == 'ins':
                flat = [0, mid, KC[kind], p, u, enc_idx(op[4])]
                ret = sheet.insertRule(rule, op[4]) if op[4] is not None else sheet.insertRule(rule)
            else:
                flat = [1, mid, KC[kind], p, u, 0]
                ret = sheet.add(rule)
        elif code == 'del':
            flat = [2, 0, 0, 0, 0, op[1] + OFF]
            target = op[1]
            if op[2] and -len(sheet.cssRules) <= op[1] < len(sheet.cssRules):
                target = sheet.cssRules[op[1]]          # deleteRule(rule object)
            ret = sheet.deleteRule(target)
        elif code == 'rins':
            kind, cid, i = op[1], op[2], op[3]
            rule = make_rule(kind)
            w.know(mid, rule, kind)
            flat = [3, mid, KC[kind], cid, 0, enc_idx(i)]
            c = w.objs[cid]
            if i is None and op[4]:
                ret = c.add(rule)
            else:
                ret = c.insertRule(rule, i) if i is not None else c.insertRule(rule)
        elif code == 'rdel':
            cid, i = op[1], op[2]
            flat = [4, 0, 0, cid, 0, i + OFF]
            ret = w.objs[cid].deleteRule(i)
        elif code == 'enc':
            e = op[1]
            flat = [5, mid, 0 if e is None else (2 if e == 'no-such-enc' else 1), 0, 0, 0]
            sheet.encoding = e
            ret = None
        elif code == 'nsset':
            p, u = op[1], op[2]
            flat = [6, mid, 0, p, u, 0]
            sheet.namespaces[PFX[p]] = URI[u]
            ret = None
        elif code == 'stext':
            # replace the text of the sheet (search only): any kind order; disordered rules are dropped (log-only
            # mode for this call: an exception in the middle of a parse is C11's partial commit)
            flat = None
            cssutils.log.raiseExceptions = False
            try:
                sheet.cssText = op[1]
            finally:
                cssutils.log.raiseExceptions = True
            ret = None
        elif code == 'rtext':
            flat = None
            c = w.objs[op[1]]
            cssutils.log.raiseExceptions = False
            try:
                c.cssText = op[2]
            finally:
                cssutils.log.raiseExceptions = True
            ret = None
        else:
            raise ValueError(op)
        res = [1, ret] if ret is not None else [0, 0]
    except Exception as e:  # noqa
        res = [2, EXN.get(impl.exc_class(e), 99)]
        w.last_exc = '%s: %s' % (impl.exc_class(e), str(e)[:120])
    w.discover(mid, many=code in ('stext', 'rtext'))
    return flat, res


# ---------------------------------------------------------------- independent oracle

ORDERED = {'import': 1, 'namespace': 2, 'style': 3, 'media': 3, 'page': 3, 'font-face': 3}
FORBIDDEN = {'media': ('charset', 'import', 'namespace', 'margin'),
             'page': ('charset', 'import', 'namespace', 'page', 'media')}


def tree(w, rules, inside=None):
    """kinds, nested lists included.  Not compared (no ordering involved, and the property does not say which
    kinds a nested list may hold beyond the refusals of insertRule): children of @page (insertRule accepts style,
    unknown, comment and @variables rules which the parser does not read back, and margin rules of the same name
    are merged) and @variables inside @media."""
    out = []
    for r in rules:
        k = w.T[r.type]
        if inside == 'page' or (inside == 'media' and k == 'variables'):
            continue
        if k == 'page' and not r.cssText:
            continue            # an @page rule without declarations and margin rules is never serialised (no pref for it)
        out.append((k, tree(w, r.cssRules, k)) if k in ('media', 'page') else (k,))
    return tuple(out)


def wf_impl(w):
    """the property's structural validity, read off the implementation through the public API;
    returns a list of (kind, detail)"""
    bad = []
    sheet = w.sheet
    ks = [w.T[r.type] for r in sheet.cssRules]
    if any(k == 'charset' for k in ks[1:]):
        bad.append(('charset-position', 'kinds %r' % ks))
    lv = [ORDERED[k] for k in ks if k in ORDERED]
    if lv != sorted(lv):
        bad.append(('order', 'kinds %r' % ks))
    expect = {}         # id(obj) -> (container or None, in sheet?)

    def walk(rules, container, insheet, seen):
        for r in rules:
            if id(r) in expect:
                bad.append(('listed-twice', '%s is in two lists' % w.T[r.type]))
                continue
            expect[id(r)] = (r, container, insheet)
            k = w.T[r.type]
            if container is not None and k in FORBIDDEN[w.T[container.type]]:
                bad.append(('nested-kind', '@%s holds a %s rule' % (w.T[container.type], k)))
            if k in ('media', 'page') and id(r) not in seen:
                walk(r.cssRules, r, insheet, seen | {id(r)})
    walk(sheet.cssRules, None, True, frozenset())
    for mid, o in w.objs.items():
        if o is not None and id(o) not in expect and w.kind[mid] in ('media', 'page'):
            # a detached container: its children are contained in it, but not in the sheet
            walk_detached(w, o, expect, bad)
    for mid, o in w.objs.items():
        if o is None:
            continue
        r, cont, insheet = expect.get(id(o), (o, None, False))
        what = '%s #%d (%s)' % (w.kind[mid], mid, 'in the sheet' if insheet else
                                ('in a detached rule' if cont is not None else 'detached'))
        if o.parentRule is not cont:
            bad.append(('parentRule', '%s: parentRule is %r, container is %r' % (what, o.parentRule, cont)))
        if insheet and o.parentStyleSheet is not sheet:
            bad.append(('parentStyleSheet-listed', '%s: parentStyleSheet is %r' % (what, o.parentStyleSheet)))
        if not insheet and o.parentStyleSheet is not None:
            bad.append(('parentStyleSheet-detached', '%s: parentStyleSheet is still set' % what))
        st = getattr(o, 'style', None)
        if st is not None:
            if st.parentRule is not o:
                bad.append(('style-parent', '%s: style.parentRule is %r' % (what, st.parentRule)))
            for p in st.getProperties(all=True):
                if p.parent is not st:
                    bad.append(('property-parent', '%s: property %s names %r' % (what, p.name, p.parent)))
    return bad


def walk_detached(w, o, expect, bad, depth=0):
    for r in o.cssRules:
        if id(r) in expect:
            continue
        expect[id(r)] = (r, o, False)
        if w.T[r.type] in ('media', 'page') and depth < 50:
            walk_detached(w, r, expect, bad, depth + 1)


_parser = []


def reparse_check(w):
    """serialise, reparse: every rule must still be there (kinds, nested lists included)"""
    cssutils = w.cssutils
    if not _parser:
        _parser.append(cssutils.CSSParser(fetcher=lambda url: (None, ''), raiseExceptions=False))
    before = tree(w, w.sheet.cssRules)
    try:
        text = w.sheet.cssText
    except Exception as e:  # noqa
        return 'serialise raised %s: %s' % (type(e).__name__, e), before, None
    saved = cssutils.log.raiseExceptions
    try:
        s2 = _parser[0].parseString(text)
        after = tree(w, s2.cssRules)
    except Exception as e:  # noqa
        return 'reparse raised %s: %s' % (type(e).__name__, e), before, None
    finally:
        cssutils.log.raiseExceptions = saved
    if before != after:
        return 'kinds before %r, after reparse %r' % (before, after), before, after
    return None, before, after


# ---------------------------------------------------------------- one history

NESTED_KINDS = ['style', 'style', 'comment', 'unknown', 'page', 'media', 'margin', 'variables', 'import', 'charset',
                'namespace', 'font-face']


def run_history(ctx, ops=None, n=20, reparse_every=1, text_ops=False):
    """ops given: replay them; else generate n random ops looking only at list lengths"""
    rng = ctx.rng
    w = World()
    flats, wants, done = [], [], []
    case = {'ops': done}
    for stepno in range(len(ops) if ops is not None else n):
        mid = stepno + 1
        if ops is not None:
            op = tuple(ops[stepno])
        else:
            conts = [(c, w.kind[c], len(w.objs[c].cssRules)) for c in w.conts if w.objs[c] is not None]
            op = gen_op(rng, len(w.sheet.cssRules), conts, NESTED_KINDS, text_ops)
        done.append(list(op))
        if op[0] == 'style':
            # replace the declaration block of some rule: parents of style/properties (search only)
            cands = [o for o in w.objs.values() if o is not None and hasattr(o, 'style')]
            if cands:
                o = cands[rng.randrange(len(cands))] if ops is None else cands[0]
                try:
                    if len(done) % 2:
                        o.style = 'top: 1px; left: 2px'
                    else:
                        o.style.setProperty('right', '1px')
                except Exception as e:  # noqa
                    ctx.violation('style-set-raises', case, '%s: %s' % (type(e).__name__, e), KNOWN_PRED)
            flat, res = None, None
        else:
            flat, res = apply_op(w, op, mid)
        if res is not None and res[0] == 2 and res[1] == 99:
            ctx.disagree('unexpected-exception', case, w.last_exc, None)
            return None
        # ---- search: the property on the implementation
        for kind, detail in wf_impl(w):
            ctx.violation(kind, case, 'after op %d %r: %s' % (stepno, op, detail), KNOWN_PRED)
            return None
        if reparse_every and (stepno % reparse_every == 0 or stepno == n - 1):
            msg, before, after = reparse_check(w)
            if msg:
                top = after is not None and [k[0] for k in before] != [k[0] for k in after]
                ctx.violation('reparse-loses-rule' if top or after is None else 'reparse-nested', case,
                              'after op %d %r: %s' % (stepno, op, msg), KNOWN_PRED)
                return None
        if flat is not None and not text_ops:
            flats += flat
            wants.append((res, w.observe()))
    return flats, wants, case


# ---------------------------------------------------------------- model output

def parse_model(o, n):
    recs = []
    i = 0

    def nodes():
        nonlocal i
        k = o[i]; i += 1
        out = []
        for _ in range(k):
            out.append(o[i:i + 4]); i += 4
        return out
    try:
        for _ in range(n):
            res = o[i:i + 2]; i += 2
            sh = nodes()
            nc = o[i]; i += 1
            cs = []
            for _ in range(nc):
                cid = o[i]; i += 1
                cs.append((cid, nodes()))
            nd = sorted(nodes())
            recs.append((res, (sh, cs, nd)))
        return recs if i == len(o) else None
    except IndexError:
        return None


KNOWN_PRED = {}


def exhaustive_ops(depth, alphabet):
    import itertools
    return itertools.product(alphabet, repeat=depth)


def run(ctx):
    quick = ctx.tier == 'quick'
    nh, maxlen = (800, 40) if quick else (2500, 400)
    ctx.cov['rule'] = ('random edit histories on one sheet and on the @media/@page objects it creates: insertRule (objects and '
                       'one-rule texts) at indexes in, at the edge of and outside the list incl. negative ones, add, deleteRule '
                       '(index, negative index, rule object), nested insertRule/add/deleteRule (nesting of any depth), encoding=, '
                       'namespaces[p]=u, style replacement; 11 rule kinds (10 + margin); distinct = distinct op lists')
    model_cases, wants, cases = [], [], []

    stats = {'histories': 0, 'agree': 0, 'steps': 0}

    def flush():
        """correspondence for the histories collected so far (in batches: memory)"""
        if not model_cases:
            return
        if not ctx.model.available:
            del model_cases[:], wants[:], cases[:]
            return
        outs = ctx.model.run(model_cases)
        for want, o, case in zip(wants, outs, cases):
            stats['histories'] += 1
            stats['steps'] += len(want)
            recs = parse_model(o or [], len(want))
            if recs is None:
                ctx.disagree('sheet-model-output', case, None, (o or [])[:40])
                continue
            want = [(res, (sh, cs, sorted(nd))) for res, (sh, cs, nd) in want]
            if recs == want:
                stats['agree'] += 1
                continue
            k = next(i for i, (a, b) in enumerate(zip(recs, want)) if a != b)
            ctx.disagree('sheet-step', {'ops': case['ops'], 'step': k}, want[k], recs[k])
        del model_cases[:], wants[:], cases[:]

    def record(r):
        if r is None:
            return
        flats, want, case = r
        if want:
            model_cases.append([90] + flats)
            wants.append(want)
            cases.append(case)
            if not ctx.cov['samples']:
                ctx.sample(case)
        if len(model_cases) >= 20000:
            flush()

    for h in range(nh):
        if quick:
            n = ctx.rng.randrange(1, maxlen + 1)
        else:
            n = ctx.rng.randrange(1, 41) if h % 5 else ctx.rng.randrange(100, maxlen + 1)
        r = run_history(ctx, n=n, reparse_every=1 if n <= 40 else 7)
        if r is not None:
            ctx.case(tuple(map(tuple, r[2]['ops'])))
        record(r)
    # search-only histories: the same operations mixed with replacements of the text of the sheet / of a rule
    nso = 0
    for h in range(nh // 3):
        r = run_history(ctx, n=ctx.rng.randrange(1, 41), reparse_every=1, text_ops=True)
        if r is not None:
            ctx.case(('text',) + tuple(map(tuple, r[2]['ops'])))
            nso += 1
    ctx.extra['search_only_histories_with_text_replacement'] = nso
    # exhaustive short histories
    alpha = []
    for k in KINDS[:10]:
        alpha.append(('add', k, 1, 1, False))
        alpha.append(('ins', k, 1, 1, 0, False))
        if not quick:
            alpha.append(('ins', k, 2, 1, None, False))
            alpha.append(('ins', k, 1, 2, 1, False))
    alpha.append(('del', 0, False))
    if not quick:
        alpha += [('del', -1, False), ('nsset', 1, 2), ('enc', 'utf-8')]
    depth = 2 if quick else 3
    nex = 0
    for d in range(1, depth + 1):
        for ops in exhaustive_ops(d, alpha):
            r = run_history(ctx, ops=ops, reparse_every=1)
            ctx.case(('ex',) + tuple(ops))
            record(r)
            nex += 1
    if not quick:
        # length 4 over add of every kind and insert-at-0 of the ordered kinds and a style rule
        small = [a for a in alpha if a[0] == 'add' or (a[0] == 'ins' and a[4] == 0 and a[1] in (
            'charset', 'import', 'namespace', 'variables', 'style'))]
        for ops in exhaustive_ops(4, small):
            r = run_history(ctx, ops=ops, reparse_every=4)
            ctx.case(('ex',) + tuple(ops))
            record(r)
            nex += 1
    ctx.extra['exhaustive_histories'] = nex
    inuse_family(ctx, 250 if quick else 6000)
    # ---- correspondence
    if ctx.model.available:
        flush()
        ctx.extra['correspondence'] = dict(stats)
        # the level machine against the parser: kind lists in any order
        reparse_correspondence(ctx, 400 if quick else 5000)
    else:
        ctx.broken.append(('correspondence', 'extracted model not available'))


def reparse_correspondence(ctx, n):
    """Model.level_machine against CSSStyleSheet._setCssText on arbitrary (also disordered) kind lists"""
    import cssutils
    from harness import impl
    impl.reset(raise_exceptions=False)
    T = _types()
    rng = ctx.rng
    cases, wants = [], []
    for _ in range(n):
        ks = [rng.choice(KINDS) for _ in range(rng.randrange(0, 9))]
        text = ''
        for j, k in enumerate(ks):
            if k == 'namespace':
                text += '@namespace p%d "u%d";' % (j, j)
            elif k == 'margin':
                text += '@top-left { left: 0 }'
            else:
                text += TEXTS[k]
            text += '\n' if rng.random() < 0.5 else ''
        s = cssutils.css.CSSStyleSheet()
        try:
            s.cssText = text
        except Exception as e:  # noqa
            ctx.disagree('level-machine-raises', {'text': text}, '%s: %s' % (type(e).__name__, e), None)
            continue
        ctx.case(('reparse', tuple(ks)))
        cases.append([91] + [KC[k] for k in ks])
        wants.append(([KC[T[r.type]] for r in s.cssRules], text))
    impl.reset()
    outs = ctx.model.run(cases)
    agree = 0
    for c, (want, text), o in zip(cases, wants, outs):
        o = o if o is not None else []
        if o == want:
            agree += 1
        else:
            ctx.disagree('level-machine', {'text': text, 'kinds': c[1:]}, want, o)
    ctx.extra['level_machine_correspondence'] = {'texts': len(cases), 'agree': agree}


def link_errors(sheet):
    """parent links of everything reachable from the sheet (public API only)"""
    bad = []

    def walk(rules, container, path):
        for i, r in enumerate(rules):
            here = '%s/%d' % (path, i)
            if r.parentStyleSheet is not sheet:
                bad.append('%s (type %s): parentStyleSheet is %r' % (here, r.type, r.parentStyleSheet))
            if r.parentRule is not container:
                bad.append('%s (type %s): parentRule is %r' % (here, r.type, r.parentRule))
            st = getattr(r, 'style', None)
            if st is not None:
                if st.parentRule is not r:
                    bad.append('%s: style.parentRule is %r' % (here, st.parentRule))
                for p_ in st.getProperties(all=True):
                    if p_.parent is not st:
                        bad.append('%s: property %s names %r as parent' % (here, p_.name, p_.parent))
            sub = getattr(r, 'cssRules', None)
            if sub is not None and r.type in (r.MEDIA_RULE, r.PAGE_RULE):
                for c_ in sub:
                    bad_kinds = ((c_.CHARSET_RULE, c_.IMPORT_RULE, c_.NAMESPACE_RULE, c_.MARGIN_RULE) if r.type == r.MEDIA_RULE
                                 else (c_.CHARSET_RULE, c_.IMPORT_RULE, c_.NAMESPACE_RULE, c_.PAGE_RULE, c_.MEDIA_RULE))
                    if c_.type in bad_kinds:
                        bad.append('%s: nested-kind: a rule of type %s inside a rule of type %s' % (here, c_.type, r.type))
                walk(sub, r, here)
    walk(sheet.cssRules, None, '')
    return bad


def inuse_family(ctx, n):
    """sheets whose namespaces are in use (top level, @media, nested @media, :not()) and whose @page rules repeat a
    margin box: operations that are REJECTED (removing a used namespace, an undeclared prefix, a wrong position) and
    accepted ones must both leave every parent link right.  Search only."""
    import cssutils
    import xml.dom
    from harness import impl
    rng = ctx.rng
    for _ in range(n):
        # (in logging mode a refused edit is reported, not raised: the links must be right all the same)
        impl.reset(raise_exceptions=rng.random() < 0.6)
        where = rng.choice(['p|a{left:0}', '@media tv{p|a{left:0}}', '@media tv{@media print{p|a{left:0}}}', 'b:not(p|a){left:0}', 'a{left:0}'])
        text = ('@namespace p "u"; @namespace q "v"; ' + where + ' x{top:0;color:red} '
                '@page{margin:0;@top-left{color:red}@top-left{left:0;color:blue}} @media print{y{right:0}}')
        sheet = cssutils.parseString(text)
        ops = []
        for k in range(rng.randrange(1, 6)):
            op = rng.choice(['delrule-ns', 'delrule-obj', 'del-map', 'insert-dup-prefix', 'add-undeclared', 'setprop-object',
                             'sel-undeclared', 'delrule-any', 'insert-misplaced', 'container-csstext-rejected', 'container-csstext-rejected',
                             'insert-rulelist', 'insert-rulelist'])
            ops.append(op)
            try:
                if op == 'delrule-ns':
                    sheet.deleteRule(rng.randrange(2))
                elif op == 'delrule-obj':
                    if sheet.cssRules.length:
                        sheet.deleteRule(sheet.cssRules[rng.randrange(min(2, sheet.cssRules.length))])
                elif op == 'del-map':
                    del sheet.namespaces[rng.choice(['p', 'q'])]
                elif op == 'insert-dup-prefix':
                    sheet.insertRule(cssutils.css.CSSNamespaceRule(namespaceURI='w', prefix='p'), rng.randrange(3))
                elif op == 'add-undeclared':
                    sheet.add('zz|a{left:0}')
                elif op == 'sel-undeclared':
                    st = [r for r in sheet.cssRules if r.type == r.STYLE_RULE]
                    if st:
                        st[0].selectorText = 'zz|b'
                elif op == 'setprop-object':
                    st = [r for r in sheet.cssRules if r.type == r.STYLE_RULE]
                    if len(st) >= 2:
                        src = st[-1].style.getProperties(all=True)
                        if src:
                            # moved, not shared: taken out of its block first
                            st[-1].style.removeProperty(src[0].name)
                            st[0].style.setProperty(src[0], replace=rng.random() < 0.5)
                elif op == 'container-csstext-rejected':
                    cont = rng.choice([r for r in sheet.cssRules if r.type in (r.MEDIA_RULE, r.PAGE_RULE)] + [sheet])
                    cont.cssText = rng.choice(['a {}', '@media print', '@media print {a{left:0}} junk', '@page', '@media tv{a{left:0}} @media tv{}',
                                               '@media tv {@import "x";}', '@page {margin:0}} x', 'p|zz{} }}', '@media bogus!{a{}}', '@media 123bad { c {top: 0} }', '@media tv, {c{top:0} @media print{d{left:0}}}',
                                               '@media (bad { c {top: 0} }', '@page :nope {margin:0;@top-left{left:0}}', '@media tv {c{top:0} @page{margin:0} junk{}'])
                elif op == 'insert-rulelist':
                    other = cssutils.parseString(rng.choice([
                        'm{left:0} @font-face{font-family:x} n{top:0}', 'm{left:0} @page{margin:0}', '@charset "utf-8"; m{left:0}',
                        '@import "y.css"; m{left:0}', '@namespace r "w"; m{left:0}', 'm{left:0} @media tv{n{top:0}}', '/*c*/ m{left:0}']))
                    conts = [r for r in sheet.cssRules if r.type in (r.MEDIA_RULE, r.PAGE_RULE)]
                    if not conts:
                        continue
                    cont = rng.choice(conts)
                    how = rng.random()
                    if how < 0.5:
                        cont.insertRule(other.cssRules, rng.randrange(cont.cssRules.length + 1))
                    else:
                        cont.cssRules.extend(other.cssRules)
                elif op == 'delrule-any':
                    sheet.deleteRule(rng.randrange(-2, sheet.cssRules.length + 1))
                else:
                    sheet.insertRule('@import "late.css";', sheet.cssRules.length)
            except (xml.dom.DOMException, IndexError):
                pass
            except Exception as e:  # noqa
                ctx.violation('inuse-raises', {'text': text, 'ops': ops}, '%s: %s' % (type(e).__name__, e), KNOWN_PRED)
                break
            bad = link_errors(sheet)
            if bad:
                kind = 'nested-kind' if 'nested-kind' in bad[0] else ('parentStyleSheet-listed' if 'parentStyleSheet' in bad[0] else (
                    'property-parent' if 'property' in bad[0] else 'parentRule'))
                ctx.violation(kind, {'text': text, 'ops': list(ops), 'family': 'in-use'}, '; '.join(bad[:4]), KNOWN_PRED)
                break
        ctx.case(('inuse', text, tuple(ops)))


def replay(path):
    """re-run the recorded history on the implementation and print what the search sees"""
    d = json.load(open(path))
    print(json.dumps({k: d[k] for k in ('property', 'kind', 'detail') if k in d}, indent=1))
    case = d.get('case') or {}
    ops = case.get('ops')
    if not ops:
        print(json.dumps(d, indent=1)[:3000])
        return 0
    ctx = core.Ctx('C09', 'quick', 0)
    ctx.known = []
    run_history(ctx, ops=[tuple(o) for o in ops], reparse_every=1)
    for v in ctx.violations[:3]:
        print('REPRODUCED %s: %s' % (v['kind'], v['detail']))
    if not ctx.violations:
        print('not reproduced on this tree')
    return 1 if ctx.violations else 0
