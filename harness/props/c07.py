"""C07 — CSS codec: round trip, CSS 2.1 encoding detection, chunking invariance.
Coq: Model/Codec.v, Proofs/CodecFacts.v, Props/C07.v.
Correspondence: the extracted model against detectencoding_str/_unicode,
_fixencoding and the six entry points reached through the codecs registry
name 'css', on (data, encoding, force, partition) cases.
Search: detection against an independent CSS 2.1 table over every prefix of
length <= 4 drawn from the byte classes, never-wrong under extension,
chunked == one-shot, round trips over 30 encodings."""
import codecs
import io
import itertools
import json
import re

from harness import core
from harness.core import s2n

GEN = []

# exhaustive sweeps over all 1 114 112 code points per codec: minutes in coqc's VM, hours in coqchk
COQCHK_ADMIT = ['Proofs.CodecRt8', 'Proofs.CodecRt16le', 'Proofs.CodecRt16be', 'Proofs.CodecRt32le', 'Proofs.CodecRt32be']

MANIFEST = dict(
    text='Machine-checked (Coq 8.16, every theorem closed under the global context): for ALL byte strings and both values of final '
         'the detector model equals an independently written CSS 2.1 section 4.4 prefix table (first-four-bytes and byte-class '
         'abstractions proved sound, then exhaustive vm_compute over every prefix of length <= 4 over 11 classes, plus a relational '
         'spec of the @charset name scan); an answer given before the end of input is never revised by any extension (byte detector, '
         'text detector, @charset rewrite); the incremental decoder, incremental encoder and stream writer give, for every partition '
         'into chunks (induction over the chunk list), the result of the whole input in one call - for ANY underlying codec whose '
         'incremental functions split (Section hypotheses), and unconditionally for the model\'s concrete UTF-8 / UTF-8-SIG / '
         'UTF-16 / UTF-32 (BOM, LE, BE) / latin-1 / ascii codecs, for which the hypotheses are proved; one final call of the '
         'incremental encoder is encode(), of the decoder is decode() where the stdlib\'s stateless and incremental decoders agree; '
         'round trip decode(encode(t, g), g) for all texts and the ten codecs, auto-detected for the UTF-8 and UTF-32 BOMs '
         '(characters: exhaustive vm_compute over all 1 114 112 code points per codec). Refuted and recorded: stream writer vs '
         'encode() when the stream ends while the charset question is open; the pinned detector at FF FE. The model is tied to '
         'cssutils/codec.py by differential runs of the extracted model on (data, encoding, force, partition) cases: all cut-point '
         'subsets of short inputs, all 2-cuts and random multi-cuts of longer ones, cuts inside BOM, @charset rule and multi-byte '
         'characters. The stream reader, round trips over the 30-encoding list, auto-detected round trips through UTF-16 BOM / '
         '@charset rule and stdlib alias resolution are covered by correspondence / search only.',
    note='Trusted: Coq kernel + vm_compute; ExtrOcamlBasic extraction + OCaml driver; hand model of codec.py validated by '
         'correspondence on every run (not translated); the concrete models of the stdlib UTF-8/16/32, latin-1, ascii codecs and of '
         'codecs.StreamReader.read (validated by the same runs); alias table copied from encodings.aliases and compared with '
         'codecs.lookup on every run; only errors="strict" is modelled; encoding names are ASCII. Models the tree with '
         'fixes/C07-*.patch applied. No axioms.',
    design='7/C07')

PREFIX = '@charset "'
SPECIAL = [0x00, 0x40, 0x63, 0x68, 0x61, 0xEF, 0xBB, 0xBF, 0xFE, 0xFF]
OTHER = 0x78   # representative of the "any other byte" class


# --------------------------------------------------------------------------
# independent statements used by the oracles
# --------------------------------------------------------------------------

SPEC_ROWS = [  # CSS 2.1 section 4.4 (as far as the first four bytes decide), in priority order
    ((0xEF, 0xBB, 0xBF), 'utf-8-sig', True),
    ((0xFF, 0xFE, 0x00, 0x00), 'utf-32', True),
    ((0xFF, 0xFE), 'utf-16', True),
    ((0xFE, 0xFF), 'utf-16', True),
    ((0x00, 0x00, 0xFE, 0xFF), 'utf-32', True),
    ((0x40, 0x00, 0x00, 0x00), 'utf-32-le', False),
    ((0x00, 0x00, 0x00, 0x40), 'utf-32-be', False),
    ((0x40, 0x00, 0x63, 0x00), 'utf-16-le', False),
    ((0x00, 0x40), 'utf-16-be', False),
    ((0x40, 0x63, 0x68, 0x61), '@charset', True),
]


def spec_detect(bs, final):
    """the first row (in priority order) the input can still match decides:
    matched -> its answer, not yet matched -> unknown (skipped at the end of
    input); no row -> utf-8.  An @charset row needs the complete rule
    `@charset "name"`; without it the answer is unknown until the end."""
    for pat, name, explicit in SPEC_ROWS:
        n = min(len(pat), len(bs))
        if tuple(bs[:n]) != pat[:n]:
            continue
        if len(bs) < len(pat):
            if final:
                continue
            return (None, False)
        if name != '@charset':
            return (name, explicit)
        m = re.match(rb'@charset "([^"]*)"', bytes(bs), re.S)
        if m:
            return (m.group(1).decode('latin-1'), True)
        if final:
            continue
        return (None, False)
    return ('utf-8', False)


def spec_rewrite(text, encoding):
    """the text with the name in a leading @charset rule replaced"""
    name = 'utf-8' if encoding.replace('_', '-').lower() == 'utf-8-sig' else encoding
    return re.sub(r'\A@charset "[^"]*"', lambda m: '@charset "%s"' % name, text, flags=re.S)


def text_undecided(t):
    """a text of which no prefix-closed reader can tell yet whether it starts with a charset rule"""
    return PREFIX.startswith(t) or (t.startswith(PREFIX) and '"' not in t[len(PREFIX):])


def err_code(e):
    if isinstance(e, UnicodeError):
        return 2
    if isinstance(e, LookupError):
        return 3
    if isinstance(e, ValueError):
        return 1
    return 'crash:%s: %s' % (type(e).__name__, str(e)[:80])


# --------------------------------------------------------------------------
# implementation runners: (list of per-chunk outputs, error or None)
# --------------------------------------------------------------------------

def kw(enc, force, with_force=True):
    k = {}
    if enc is not None:
        k['encoding'] = enc
    if with_force and not force:
        k['force'] = False
    return k


def impl_decode(data, enc, force):
    try:
        if enc is None and force:
            return [codecs.decode(bytes(data), 'css')], None
        return [codecs.getdecoder('css')(bytes(data), **kw(enc, force))[0]], None
    except Exception as e:
        return [], err_code(e)


def impl_encode(text, enc):
    try:
        if enc is None:
            return [codecs.encode(text, 'css')], None
        return [codecs.getencoder('css')(text, encoding=enc)[0]], None
    except Exception as e:
        return [], err_code(e)


def impl_incdec(chunks, enc, force):
    outs = []
    try:
        d = codecs.getincrementaldecoder('css')(**kw(enc, force))
        for i, c in enumerate(chunks):
            outs.append(d.decode(bytes(c), i == len(chunks) - 1))
    except Exception as e:
        return outs, err_code(e)
    return outs, None


def impl_incenc(chunks, enc):
    outs = []
    try:
        d = codecs.getincrementalencoder('css')(**kw(enc, True, False))
        for i, c in enumerate(chunks):
            outs.append(d.encode(c, i == len(chunks) - 1))
    except Exception as e:
        return outs, err_code(e)
    return outs, None


def impl_swriter(chunks, enc):
    outs = []
    try:
        s = io.BytesIO()
        w = codecs.getwriter('css')(s, **kw(enc, True, False))
        for c in chunks:
            n = len(s.getvalue())
            w.write(c)
            outs.append(s.getvalue()[n:])
    except Exception as e:
        return outs, err_code(e)
    return outs, None


class ChunkStream:
    """a byte stream that delivers the chunks of a partition one per read()
    call (a short read is legitimate for a raw stream); b'' = nothing more"""

    def __init__(self, chunks):
        self.chunks = [bytes(c) for c in chunks]

    def read(self, size=-1):
        return self.chunks.pop(0) if self.chunks else b''


def impl_sreader(reads, enc, force):
    """reads: list of lists of chunks, each list ending with an empty chunk;
    one reader.read() per list"""
    outs = []
    try:
        st = ChunkStream([c for r in reads for c in r])
        rd = codecs.getreader('css')(st, **kw(enc, force))
        for r in reads:
            outs.append(rd.read())
    except Exception as e:
        return outs, err_code(e)
    return outs, None


# --------------------------------------------------------------------------
# flat encoding for the model
# --------------------------------------------------------------------------

def head(enc, force, chunks):
    out = [0, 0] if enc is None else [1, len(enc)] + s2n(enc)
    out += [1 if force else 0, len(chunks)]
    for c in chunks:
        c = s2n(c) if isinstance(c, str) else list(c)
        out += [len(c)] + c
    return out


def parse_outs(o):
    """model output -> (list of outputs (int lists), error code or None)"""
    outs, i = [], 0
    if o is None:
        return None, 'model-failed'
    try:
        while i < len(o):
            if o[i] == 0:
                n = o[i + 1]
                outs.append(o[i + 2:i + 2 + n])
                i += 2 + n
            elif o[i] == 1:
                return outs, o[i + 1]
            else:
                return None, 'model-garbage'
        return outs, None
    except IndexError:
        return None, 'model-garbage'


def as_ints(x):
    return s2n(x) if isinstance(x, str) else list(x)


# --------------------------------------------------------------------------
# generators
# --------------------------------------------------------------------------

MODELLED = ['utf-8', 'utf-8-sig', 'utf-16', 'utf-16-le', 'utf-16-be', 'utf-32', 'utf-32-le', 'utf-32-be', 'latin-1', 'ascii']
SPELLINGS = ['UTF-8', 'utf8', 'utf_8', 'U8', 'UTF-8-SIG', 'utf_8_sig', 'Utf_8-Sig', 'UTF-16', 'utf16', 'UTF-16LE', 'utf_16_be',
             'UTF-32', 'utf_32_le', 'UTF-32BE', 'iso-8859-1', 'ISO_8859-1', 'latin1', 'L1', 'us-ascii', 'ASCII', ' utf-8 ', 'utf 8']
BADNAMES = ['', 'nope', 'x', 'utf-9', 'utf.8', 'css']
OTHER_ENCODINGS = ['iso-8859-15', 'cp1252', 'cp1251', 'cp1250', 'koi8-r', 'iso-8859-2', 'iso-8859-5', 'iso-8859-7', 'mac-roman',
                   'cp437', 'cp850', 'shift_jis', 'gbk', 'big5', 'euc-jp', 'euc-kr', 'gb18030', 'utf-7', 'cp037', 'utf-16-le']

HEADS = ['', '@', '@c', '@ch', '@cha', '@charset', '@charset ', '@charset "', '@charset "x', '@charset "utf-8', '@charset "x"',
         '@charset ""', '@charset "x";', '@charset "utf-8";', '@charset "UTF-8-SIG";', '@charset "utf_8_sig"; ', '@charset "latin-1";',
         '@charset "utf-16";', '@charset "utf-16-le";', '@charset "utf-32-be";', '@charset "ascii";', '@charset "css";',
         '@charset "nope";', '@charset  "x";', '@CHARSET "x";', ' @charset "x";', '﻿@charset "x";', '@charsetx "y";',
         '@chb', '@import "a";', 'a', '﻿', '@\x00', 'c']
TAILS = ['', 'a', 'a{}', '\xe9', 'g\xfcrk', '€', '\U0001f600', 'a"b', '"', '\x00', 'x€{}', '\ud800', 'z\U0010ffff']


def gen_text(rng, maxlen=None):
    t = rng.choice(HEADS) + rng.choice(TAILS)
    if rng.random() < 0.15:
        t += rng.choice(TAILS)
    if maxlen is not None:
        t = t[:maxlen]
    return t


def gen_encname(rng, allow_none=True):
    r = rng.random()
    if allow_none and r < 0.25:
        return None
    if r < 0.75:
        return rng.choice(MODELLED)
    if r < 0.92:
        return rng.choice(SPELLINGS)
    return rng.choice(BADNAMES)


BYTE_POOL = SPECIAL + [0x22, 0x78, 0x3B, 0x20, 0x72, 0x73, 0x65, 0x74, 0x80, 0xC3, 0xA9, 0xE2, 0x82, 0xAC, 0xF0, 0x9F, 0x98,
                       0xD8, 0xDC, 0x10, 0x11, 0xED, 0xA0, 0xC0, 0xF4, 0x90]


def gen_bytes(rng):
    """byte strings for the decoders: encodings of texts (with and without
    BOM), truncations, soups over the interesting bytes"""
    r = rng.random()
    if r < 0.6:
        t = gen_text(rng)
        e = rng.choice(MODELLED)
        try:
            b = t.encode(e)
        except UnicodeError:
            b = t.encode('utf-8', 'surrogatepass')
        if rng.random() < 0.15 and b:
            b = b[:rng.randrange(len(b))]
        return b
    if r < 0.75:
        bom = rng.choice([b'\xef\xbb\xbf', b'\xff\xfe', b'\xfe\xff', b'\xff\xfe\x00\x00', b'\x00\x00\xfe\xff', b'\xef\xbb', b'\xff'])
        t = gen_text(rng)
        return bom + t.encode(rng.choice(['utf-8', 'utf-16-le', 'utf-16-be', 'utf-32-le', 'utf-32-be']), 'surrogatepass')
    return bytes(rng.choice(BYTE_POOL) for _ in range(rng.randrange(0, 9)))


def partitions_all(seq):
    """every way of cutting seq (no empty chunks)"""
    n = len(seq)
    if n == 0:
        yield [seq]
        return
    for mask in range(1 << (n - 1)):
        out, start = [], 0
        for i in range(1, n):
            if mask >> (i - 1) & 1:
                out.append(seq[start:i])
                start = i
        out.append(seq[start:])
        yield out


def partitions_some(rng, seq, exhaustive_upto, nrandom):
    """all partitions for short inputs; otherwise all cuts into <= 2 chunks,
    a sample of 3-chunk cuts and random partitions (empty chunks included)"""
    n = len(seq)
    if n <= exhaustive_upto:
        yield from partitions_all(seq)
        if n:
            yield [seq[:0], seq]
            yield [seq, seq[:0]]
            yield [seq[:1], seq[:0], seq[1:], seq[:0]]
        return
    yield [seq]
    for i in range(0, n + 1):
        yield [seq[:i], seq[i:]]
    for _ in range(nrandom):
        k = rng.randrange(2, 6)
        cuts = sorted(rng.randrange(0, n + 1) for _ in range(k))
        out, start = [], 0
        for c in cuts:
            out.append(seq[start:c])
            start = c
        out.append(seq[start:])
        yield out
    yield [seq[i:i + 1] for i in range(n)]


# --------------------------------------------------------------------------
# known findings
# --------------------------------------------------------------------------

def _stream_undecided(kind, case, detail):
    return kind in ('stream-writer-oneshot', 'stream-reader-oneshot') and bool(case.get('undecided_at_end'))


KNOWN_PRED = {
    # no `final` reaches StreamWriter.encode / StreamReader.decode: what is buffered while
    # the charset question is open is never delivered when the stream ends there
    'C07-stream-withholds-undecided': _stream_undecided,
    # fixed ones (listed for documentation; status "fixed" suppresses nothing)
    'C07-utf16-bom-at-end': lambda kind, case, detail: bytes(case.get('data', [])) in (b'\xff\xfe', b'\xff\xfe\x00'),
    'C07-encoder-str-for-bytes': lambda kind, case, detail: kind == 'chunk-type',
    'C07-encode-unterminated-charset': lambda kind, case, detail: case.get('encoding') is None and isinstance(case.get('text'), str)
    and case['text'].startswith(PREFIX) and '"' not in case['text'][len(PREFIX):],
}


# --------------------------------------------------------------------------
# the run
# --------------------------------------------------------------------------

class Batch:
    """collects model cases with a callback receiving the model's answer;
    runs them through the extracted model whenever LIMIT have accumulated"""
    LIMIT = 150000

    def __init__(self, ctx):
        self.ctx, self.cases, self.cbs, self.total, self.complained = ctx, [], [], 0, False

    def add(self, flat, cb):
        self.cases.append(flat)
        self.cbs.append(cb)
        if len(self.cases) >= self.LIMIT:
            self.flush()

    def flush(self):
        ctx = self.ctx
        if not ctx.model.available:
            if not self.complained:
                ctx.broken.append(('correspondence', 'extracted model not available'))
                self.complained = True
        else:
            outs = ctx.model.run(self.cases)
            for o, cb in zip(outs, self.cbs):
                cb(o)
            self.total += len(self.cases)
        self.cases, self.cbs = [], []
        return self.total


def disagree(ctx, what, case, impl, model):
    """a model/implementation difference; inside the class of a finding that
    is listed with status "known" it is that finding again, not a broken tie
    (entries with status "fixed" are not consulted: nothing is suppressed)"""
    for k in ctx.known:
        pred = KNOWN_PRED.get(k['id'])
        if pred is not None and pred('model-disagreement', case, ''):
            ctx.known_hits[k['id']] = ctx.known_hits.get(k['id'], 0) + 1
            return
    ctx.disagree(what, case, impl, model)


def crash(ctx, what, case, err):
    """an exception that is not a codec error is a defect whatever the model says"""
    if isinstance(err, str):
        ctx.violation('chunk-type' if 'bytes-like' in err or 'concat' in err or 'expected' in err else 'raises',
                      case, '%s: %s' % (what, err), KNOWN_PRED)
        return True
    return False


def compare(ctx, stats, what, case, impl_outs, impl_err, group=None):
    """callback comparing the model's (outs, err) with the implementation's"""
    def cb(o):
        outs, err = parse_outs(o)
        if outs is not None and group is not None:
            # regroup per-iteration outputs into per-read outputs
            g, i = [], 0
            for k in group:
                part = outs[i:i + k]
                if len(part) < k and err is None:
                    break
                if len(part) == k:
                    g.append([x for p in part for x in p])
                i += k
            outs = g
        want = [as_ints(x) for x in impl_outs]
        stats[what] = stats.get(what, 0) + 1
        if outs == want and err == impl_err:
            stats[what + '_agree'] = stats.get(what + '_agree', 0) + 1
        elif isinstance(impl_err, str):
            pass   # reported by crash() as a violation
        else:
            disagree(ctx, what, case, {'outs': want[:6], 'err': impl_err}, {'outs': (outs or [])[:6], 'err': err})
    return cb


def type_ok(ctx, what, case, outs, typ):
    for o in outs:
        if not isinstance(o, typ):
            ctx.violation('chunk-type', case, '%s returned %r (%s) where %s is due' % (what, o, type(o).__name__, typ.__name__), KNOWN_PRED)
            return False
    return True


def detector_sweep(ctx, batch, stats):
    """every prefix of length <= 4 over the byte classes, both values of
    final: implementation == independent table == model; an answer given
    early is the answer for every extension (within the sweep)"""
    from cssutils import codec
    classes = SPECIAL + [OTHER]
    answers = {}
    n = 0
    for ln in range(0, 5):
        for tup in itertools.product(classes, repeat=ln):
            bs = bytes(tup)
            for final in (False, True):
                got = codec.detectencoding_str(bs, final)
                answers[(tup, final)] = got
                n += 1
                ctx.case(('detect', tup, final), nontrivial=ln > 0)
                want = spec_detect(bs, final)
                case = {'op': 'detect_str', 'data': list(tup), 'final': final}
                if got != want:
                    ctx.violation('detect-spec', case, 'detectencoding_str(%r, %r) = %r, CSS 2.1 table says %r' % (bs, final, got, want), KNOWN_PRED)
                flat = [70, 1 if final else 0] + list(tup)
                batch.add(flat, detect_cb(ctx, stats, case, got))
    # never wrong: a decided prefix keeps its answer
    for (tup, final), got in answers.items():
        if final or got[0] is None:
            continue
        for ln in range(len(tup) + 1, 5):
            pass
    for ln in range(1, 5):
        for tup in itertools.product(classes, repeat=ln):
            for k in range(0, ln):
                early = answers[(tup[:k], False)]
                if early[0] is not None:
                    for final in (False, True):
                        if answers[(tup, final)] != early:
                            ctx.violation('detect-revised', {'op': 'detect_str', 'data': list(tup), 'cut': k},
                                          'answer %r after %d bytes, %r after %d (final=%r)' % (early, k, answers[(tup, final)], ln, final), KNOWN_PRED)
    stats['detector_prefixes'] = n
    # the @charset scan and longer inputs
    samples = [b'@cha', b'@charset', b'@charset "', b'@charset "x', b'@charset "x"', b'@charset ""', b'@charset "utf-8";a',
               b'@charset "a"b"c', b'@charsetx"y"', b'@charset  "x"', b'@chax', b'@cha\xff"', b'@charset "\xe9"', b'@charset "x\n"',
               b'\xff\xfe\x00', b'\xff\xfe', b'\xff\xfea\x00', b'\xff\xfe\x00\x00a\x00\x00\x00', b'\xef\xbb\xbf@charset "x"']
    rng = ctx.rng
    for _ in range(300):
        samples.append(gen_bytes(rng))
    for bs in samples:
        for final in (False, True):
            got = codec.detectencoding_str(bs, final)
            want = spec_detect(bs, final)
            case = {'op': 'detect_str', 'data': list(bs), 'final': final}
            ctx.case(('detect', bs, final))
            if got != want:
                ctx.violation('detect-spec', case, 'detectencoding_str(%r, %r) = %r, CSS 2.1 table says %r' % (bs, final, got, want), KNOWN_PRED)
            batch.add([70, 1 if final else 0] + list(bs), detect_cb(ctx, stats, case, got))
            if not final and got[0] is not None:
                for ext in (b'', b'"', b'\x00\x00', b'x";', bytes([rng.choice(BYTE_POOL) for _ in range(3)])):
                    later = codec.detectencoding_str(bs + ext, True)
                    if later != got:
                        ctx.violation('detect-revised', {'op': 'detect_str', 'data': list(bs + ext), 'cut': len(bs)},
                                      '%r decided %r, with %r appended %r' % (bs, got, ext, later), KNOWN_PRED)


def detect_cb(ctx, stats, case, got, what='detect_str'):
    def cb(o):
        want = [0, 1 if got[1] else 0] if got[0] is None else [1, 1 if got[1] else 0] + s2n(got[0])
        stats[what] = stats.get(what, 0) + 1
        if o == want:
            stats[what + '_agree'] = stats.get(what + '_agree', 0) + 1
        else:
            disagree(ctx, what, case, want[:40], (o or [])[:40])
    return cb


def text_helpers(ctx, batch, stats, n):
    """detectencoding_unicode and _fixencoding: model correspondence, stability under extension"""
    from cssutils import codec
    rng = ctx.rng
    texts = [h + t for h in HEADS for t in ('', 'a', '"', 'x";y')]
    for _ in range(n):
        texts.append(gen_text(rng))
    for t in texts:
        for final in (False, True):
            got = codec.detectencoding_unicode(t, final)
            case = {'op': 'detect_unicode', 'text': t, 'final': final}
            ctx.case(('du', t, final))
            batch.add([71, 1 if final else 0] + s2n(t), detect_cb(ctx, stats, case, got, 'detect_unicode'))
            if not final and got[0] is not None:
                for ext in ('', '"', 'x";', rng.choice(TAILS)):
                    later = codec.detectencoding_unicode(t + ext, True)
                    if later != got:
                        ctx.violation('detect-revised', {'op': 'detect_unicode', 'text': t + ext, 'cut': len(t)},
                                      '%r decided %r, with %r appended %r' % (t, got, ext, later), KNOWN_PRED)
            enc = rng.choice(MODELLED + SPELLINGS + ['x', ''])
            fx = codec._fixencoding(t, enc, final)
            case = {'op': 'fixencoding', 'text': t, 'encoding': enc, 'final': final}
            ctx.case(('fix', t, enc, final))

            def cb(o, fx=fx, case=case):
                want = [0] if fx is None else [1] + s2n(fx)
                stats['fixencoding'] = stats.get('fixencoding', 0) + 1
                if o == want:
                    stats['fixencoding_agree'] = stats.get('fixencoding_agree', 0) + 1
                else:
                    ctx.disagree('fixencoding', case, want[:40], (o or [])[:40])
            batch.add([72, 1 if final else 0, len(enc)] + s2n(enc) + s2n(t), cb)
            if final:
                if fx != spec_rewrite(t, enc):
                    ctx.violation('fix-spec', case, '_fixencoding gave %r, the rewrite of the leading rule is %r' % (fx, spec_rewrite(t, enc)), KNOWN_PRED)
            elif fx is not None:
                for ext in ('', '"', 'x";', rng.choice(TAILS)):
                    later = codec._fixencoding(t + ext, enc, True)
                    if later != fx + ext:
                        ctx.violation('fix-revised', {'op': 'fixencoding', 'text': t + ext, 'encoding': enc, 'cut': len(t)},
                                      '%r gave %r, with %r appended %r' % (t, fx, ext, later), KNOWN_PRED)


def lookup_table(ctx, batch, stats):
    """the model's name resolution against codecs.lookup"""
    import encodings.aliases as A
    canon = {'utf-8': 1, 'utf-8-sig': 2, 'utf-16': 3, 'utf-16-le': 4, 'utf-16-be': 5, 'utf-32': 6, 'utf-32-le': 7, 'utf-32-be': 8,
             'iso8859-1': 9, 'ascii': 10}
    names = set(MODELLED + SPELLINGS + [b for b in BADNAMES if b != 'css'] + OTHER_ENCODINGS)
    for a, t in A.aliases.items():
        names.add(a)
        names.add(a.replace('_', '-').upper())
    for n in sorted(names):
        try:
            want = [canon[codecs.lookup(n).name]]
        except LookupError:
            want = [0, 3]
        except KeyError:
            want = [0, 3]   # a real codec outside the modelled ten: the model answers "unknown"
            if n in MODELLED + SPELLINGS:
                want = None

        def cb(o, n=n, want=want):
            stats['lookup'] = stats.get('lookup', 0) + 1
            if o == want:
                stats['lookup_agree'] = stats.get('lookup_agree', 0) + 1
            else:
                ctx.disagree('lookup', {'op': 'lookup', 'name': n}, want, o)
        batch.add([79] + s2n(n), cb)


def name_in_model(name):
    """may the case be given to the model?  names that resolve to a codec
    outside the ten modelled ones are for the oracles only"""
    if name is None:
        return True
    if not name.isascii() or '\x00' in name or name.lower() == 'css' and name != 'css':
        return False
    try:
        return codecs.lookup(name).name in ('utf-8', 'utf-8-sig', 'utf-16', 'utf-16-le', 'utf-16-be', 'utf-32', 'utf-32-le',
                                            'utf-32-be', 'iso8859-1', 'ascii')
    except LookupError:
        return True


def declared_names(data):
    """names a decoder might look up for this input"""
    if isinstance(data, str):
        m = re.match(r'@charset "([^"]*)"', data, re.S)
        return [m.group(1)] if m else []
    m = re.match(rb'@charset "([^"]*)"', bytes(data), re.S)
    return [m.group(1).decode('latin-1')] if m else []


def decoder_cases(ctx, batch, stats, ninputs, exhaustive_upto, nrandom):
    rng = ctx.rng
    seen = set()
    for _ in range(ninputs):
        data = gen_bytes(rng)
        enc = gen_encname(rng)
        force = rng.random() < 0.7
        key = (data, enc, force)
        if key in seen:
            continue
        seen.add(key)
        modelled = name_in_model(enc) and all(name_in_model(n) for n in declared_names(data))
        base = {'data': list(data), 'encoding': enc, 'force': force}
        # one-shot
        o1, e1 = impl_decode(data, enc, force)
        case = dict(base, op='decode')
        ctx.case(('decode',) + key)
        if not crash(ctx, 'decode', case, e1) and modelled:
            batch.add([73] + head(enc, force, [data]), compare(ctx, stats, 'decode', case, o1, e1))
        # single-chunk incremental (the reference for chunking)
        ref_outs, ref_err = impl_incdec([data], enc, force)
        for chunks in partitions_some(rng, data, exhaustive_upto, nrandom):
            case = dict(base, op='incdec', chunks=[list(c) for c in chunks])
            ctx.case(('incdec', key, tuple(chunks)), nontrivial=len(chunks) > 1)
            outs, err = impl_incdec(chunks, enc, force)
            if crash(ctx, 'incremental decoder', case, err):
                continue
            type_ok(ctx, 'IncrementalDecoder.decode', case, outs, str)
            if modelled:
                batch.add([75] + head(enc, force, chunks), compare(ctx, stats, 'incdec', case, outs, err))
            # oracle: chunked == whole input in one call
            if (err is None) != (ref_err is None) or (err is None and ''.join(outs) != ''.join(ref_outs)):
                ctx.violation('incdec-chunking', case, 'chunked: %r %r; whole input in one call: %r %r' % (outs, err, ref_outs, ref_err), KNOWN_PRED)
        # stream reader: one read() over all chunks / one read() per chunk
        for chunks in partitions_some(rng, data, min(exhaustive_upto, 5), max(2, nrandom // 2)):
            nz = [c for c in chunks if c]
            for reads in ([nz + [b'']], [[c, b''] for c in nz] + [[b'']]):
                case = dict(base, op='sreader', reads=[[list(c) for c in r] for r in reads])
                ctx.case(('sreader', key, repr(reads)), nontrivial=len(nz) > 1)
                outs, err = impl_sreader(reads, enc, force)
                if crash(ctx, 'stream reader', case, err):
                    continue
                if modelled:
                    flatchunks = [c for r in reads for c in r]
                    batch.add([78] + head(enc, force, flatchunks),
                              compare(ctx, stats, 'sreader', case, outs, err, group=[len(r) for r in reads]))
                # oracle: a stream of a decodable input delivers the one-shot text
                if e1 is None and err is None and ''.join(outs) != o1[0]:
                    und = spec_detect(data, False)[0] is None or text_undecided(raw_text(data, enc, force))
                    ctx.violation('stream-reader-oneshot', dict(case, undecided_at_end=und),
                                  'reader delivered %r, one-shot decode %r' % (''.join(outs), o1[0]), KNOWN_PRED)


def raw_text(data, enc, force):
    """the decoded text before the charset rewrite (for the known-finding predicate)"""
    try:
        if enc is None or not force:
            d, explicit = spec_detect(data, True)
            if enc is None or explicit:
                enc = d
        return codecs.decode(bytes(data), enc)
    except Exception:
        return ''


def encoder_cases(ctx, batch, stats, ninputs, exhaustive_upto, nrandom):
    rng = ctx.rng
    seen = set()
    for _ in range(ninputs):
        t = gen_text(rng)
        enc = gen_encname(rng)
        key = (t, enc)
        if key in seen:
            continue
        seen.add(key)
        modelled = name_in_model(enc) and all(name_in_model(n) for n in declared_names(t))
        base = {'text': t, 'encoding': enc}
        o1, e1 = impl_encode(t, enc)
        case = dict(base, op='encode')
        ctx.case(('encode',) + key)
        if not crash(ctx, 'encode', case, e1) and modelled:
            batch.add([74] + head(enc, True, [t]), compare(ctx, stats, 'encode', case, o1, e1))
        for chunks in partitions_some(rng, t, exhaustive_upto, nrandom):
            case = dict(base, op='incenc', chunks=chunks)
            ctx.case(('incenc', key, tuple(chunks)), nontrivial=len(chunks) > 1)
            outs, err = impl_incenc(chunks, enc)
            if not crash(ctx, 'incremental encoder', case, err):
                ok = type_ok(ctx, 'IncrementalEncoder.encode', case, outs, bytes)
                if modelled:
                    batch.add([76] + head(enc, True, chunks), compare(ctx, stats, 'incenc', case, outs, err))
                # oracle: chunked == one-shot
                if ok and ((err is None) != (e1 is None) or (err is None and b''.join(outs) != o1[0])):
                    ctx.violation('incenc-chunking', case, 'chunked: %r %r; one-shot: %r %r' % (outs, err, o1, e1), KNOWN_PRED)
            case = dict(base, op='swriter', chunks=chunks)
            ctx.case(('swriter', key, tuple(chunks)), nontrivial=len(chunks) > 1)
            outs, err = impl_swriter(chunks, enc)
            if crash(ctx, 'stream writer', case, err):
                continue
            if modelled:
                batch.add([77] + head(enc, True, chunks), compare(ctx, stats, 'swriter', case, outs, err))
            if e1 is None and err is None and b''.join(outs) != o1[0]:
                ctx.violation('stream-writer-oneshot', dict(case, undecided_at_end=text_undecided(t)),
                              'stream received %r, one-shot encode %r' % (b''.join(outs), o1[0]), KNOWN_PRED)


def roundtrip(ctx, ntexts):
    """encode then decode over the encoding list: with the encoding given;
    auto-detected when the bytes carry a BOM or an ASCII-compatible charset
    rule; through the chunked classes as well"""
    rng = ctx.rng
    ascii_compat = set()
    for e in MODELLED + OTHER_ENCODINGS:
        try:
            if ('@charset "%s";' % e).encode(e) == ('@charset "%s";' % e).encode('ascii'):
                ascii_compat.add(e)
        except Exception:
            pass
    bom = {'utf-8-sig', 'utf-16', 'utf-32'}
    n = 0
    for _ in range(ntexts):
        t = gen_text(rng) + rng.choice(['', 'a{b:c}', ' /* \xe4\xf6 */', 'Ж', '日本'])
        for e in MODELLED + OTHER_ENCODINGS:
            try:
                t.encode(e)
                spec_rewrite(t, e).encode(e)
            except UnicodeError:
                continue      # the encoding cannot represent the text
            case = {'op': 'roundtrip', 'text': t, 'encoding': e}
            ctx.case(('rt', t, e))
            n += 1
            want = spec_rewrite(t, e)
            try:
                b = codecs.getencoder('css')(t, encoding=e)[0]
                if b != want.encode(e):
                    ctx.violation('encode-spec', case, 'encode gave %r, the rewritten text in %s is %r' % (b, e, want.encode(e)), KNOWN_PRED)
                    continue
                back = codecs.getdecoder('css')(b, encoding=e)[0]
                if back != want:
                    ctx.violation('roundtrip-given', case, 'decode(encode(t)) = %r, expected %r' % (back, want), KNOWN_PRED)
                detectable = (e in bom and not t.startswith('\x00')) or (e in ascii_compat and re.match(r'@charset "[^"]*"', t, re.S) is not None)
                if e == 'utf-7':
                    detectable = False     # '"' and '@' are optional direct characters in UTF-7
                if detectable:
                    back = codecs.decode(b, 'css')
                    if back != want:
                        ctx.violation('roundtrip-detected', case, 'auto-detected decode(encode(t)) = %r, expected %r' % (back, want), KNOWN_PRED)
                    # chunked decode of the same bytes, byte by byte and in two halves
                    for chunks in ([b[i:i + 1] for i in range(len(b))] or [b''], [b[:len(b) // 2], b[len(b) // 2:]], [b[:1], b[1:3], b[3:]]):
                        outs, err = impl_incdec(chunks, None, True)
                        if err is not None or ''.join(outs) != want:
                            ctx.violation('incdec-roundtrip', dict(case, chunks=[list(c) for c in chunks]),
                                          'incremental auto-detected decode gave %r %r, expected %r' % (outs, err, want), KNOWN_PRED)
                # chunked encode, character by character and in thirds
                for chunks in ([t[i:i + 1] for i in range(len(t))] or [''], [t[:len(t) // 3], t[len(t) // 3:2 * len(t) // 3], t[2 * len(t) // 3:]]):
                    outs, err = impl_incenc(chunks, e)
                    if isinstance(err, str) or not all(isinstance(o, bytes) for o in outs):
                        ctx.violation('chunk-type', dict(case, chunks=chunks), 'incremental encoder: %r %r' % (outs, err), KNOWN_PRED)
                    elif e == 'utf-7' and err is None and b''.join(outs).decode(e) == want:
                        pass    # the stdlib UTF-7 encoder closes its base64 run at every call: other bytes, same text
                    elif err is not None or b''.join(outs) != b:
                        ctx.violation('incenc-chunking', dict(case, chunks=chunks), 'incremental encode gave %r %r, one-shot %r' % (outs, err, b), KNOWN_PRED)
            except Exception as ex:
                ctx.violation('raises', case, 'round trip raised %s: %s' % (type(ex).__name__, ex), KNOWN_PRED)
    return n


def iter_methods(ctx, n):
    """the classes' own iterdecode / iterencode conveniences"""
    rng = ctx.rng
    for _ in range(n):
        t = gen_text(rng).replace('\ud800', '')
        e = rng.choice(['utf-8', 'utf-8-sig', 'utf-16', 'utf-32-be', 'latin-1'])
        try:
            b = codecs.getencoder('css')(t, encoding=e)[0]
        except UnicodeError:
            continue
        k = rng.randrange(0, len(b) + 1)
        chunks = [b[:k], b[k:]]
        case = {'op': 'iterdecode', 'data': list(b), 'encoding': e, 'chunks': [list(c) for c in chunks]}
        ctx.case(('iterdecode', b, e, k))
        try:
            got = ''.join(codecs.getincrementaldecoder('css')(encoding=e).iterdecode(chunks))
            want = codecs.getdecoder('css')(b, encoding=e)[0]
            if got != want:
                ctx.violation('incdec-chunking', case, 'iterdecode gave %r, one-shot %r' % (got, want), KNOWN_PRED)
        except Exception as ex:
            ctx.violation('chunk-type' if isinstance(ex, TypeError) else 'raises', case, 'iterdecode raised %s: %s' % (type(ex).__name__, ex), KNOWN_PRED)
        k = rng.randrange(0, len(t) + 1)
        case = {'op': 'iterencode', 'text': t, 'encoding': e, 'chunks': [t[:k], t[k:]]}
        try:
            got = b''.join(codecs.getincrementalencoder('css')(encoding=e).iterencode([t[:k], t[k:]]))
            if got != b:
                ctx.violation('incenc-chunking', case, 'iterencode gave %r, one-shot %r' % (got, b), KNOWN_PRED)
        except Exception as ex:
            ctx.violation('chunk-type' if isinstance(ex, TypeError) else 'raises', case, 'iterencode raised %s: %s' % (type(ex).__name__, ex), KNOWN_PRED)


def reuse_after_reset(ctx, n):
    """the same decoder / encoder / stream object used for a second document after reset() (or seek(0)) gives what
    a fresh object gives: a 'schedule' that spans documents"""
    import io
    rng = ctx.rng
    encs = ['utf-8', 'utf-8-sig', 'utf-16', 'utf-16-le', 'utf-32', 'utf-32-be', 'latin-1', 'iso-8859-15', None]
    for _ in range(n):
        docs = []
        for _k in range(2):
            t = rng.choice(['@charset "x";', '@charset "utf-8";', '', 'a{b:c}', '@charset "ascii"; ']) + gen_text(rng, 8).replace('\ud800', '')
            docs.append(t)
        e = rng.choice(encs)
        try:
            datas = [codecs.getencoder('css')(t, encoding=e)[0] if e else codecs.encode(t, 'css') for t in docs]
            raw = e is not None and rng.random() < 0.5
            if raw:     # the declared name is not the encoding used: decoding rewrites it
                datas = [t.encode(e) for t in docs]
        except (UnicodeError, LookupError):
            continue
        force = True if raw else rng.random() < 0.7
        def chunked(b):
            k = sorted(rng.randrange(0, len(b) + 1) for _ in range(rng.randrange(0, 3)))
            return [b[i:j] for i, j in zip([0] + k, k + [len(b)])]
        ch = [chunked(b) for b in datas]
        case = {'op': 'incdec-reuse', 'docs': [list(b) for b in datas], 'encoding': e, 'force': force, 'chunks': [[list(c) for c in cs] for cs in ch]}
        ctx.case(('incdec-reuse', tuple(datas), e, force, repr(ch)), nontrivial=True)
        try:
            d = codecs.getincrementaldecoder('css')(**kw(e, force))
            got = []
            for cs in ch:
                got.append(''.join(d.decode(c, i == len(cs) - 1) for i, c in enumerate(cs)))
                d.reset()
            want = [''.join(impl_incdec([b], e, force)[0]) for b in datas]
            if got != want and impl_incdec([datas[0]], e, force)[1] is None and impl_incdec([datas[1]], e, force)[1] is None:
                ctx.violation('incdec-reuse', case, 'one decoder, reset() between documents: %r; a fresh decoder each: %r' % (got, want), KNOWN_PRED)
        except Exception as ex:
            if impl_incdec([datas[0]], e, force)[1] is None and impl_incdec([datas[1]], e, force)[1] is None:
                ctx.violation('incdec-reuse', case, 'reused decoder raised %s: %s' % (type(ex).__name__, ex), KNOWN_PRED)
        # encoder
        tch = [[t[:k], t[k:]] for t in docs for k in [rng.randrange(0, len(t) + 1)]]
        case = {'op': 'incenc-reuse', 'texts': docs, 'encoding': e, 'chunks': tch}
        try:
            en = codecs.getincrementalencoder('css')(**kw(e, True, False))
            got = []
            for cs in tch:
                got.append(b''.join(en.encode(c, i == len(cs) - 1) for i, c in enumerate(cs)))
                en.reset()
            if got != datas and not raw:
                ctx.violation('incenc-reuse', case, 'one encoder, reset() between documents: %r; one-shot: %r' % (got, datas), KNOWN_PRED)
        except Exception as ex:
            ctx.violation('incenc-reuse', case, 'reused encoder raised %s: %s' % (type(ex).__name__, ex), KNOWN_PRED)
        # a text stream read twice
        if e:
            case = {'op': 'textio-reread', 'data': list(datas[0]), 'encoding': e}
            try:
                f = io.TextIOWrapper(io.BytesIO(datas[0]), encoding='css', newline='')
                a = f.read()
                f.seek(0)
                b2 = f.read()
                one = codecs.decode(datas[0], 'css')
                if a != one or b2 != one:
                    ctx.violation('incdec-reuse', case, 'TextIOWrapper read %r, after seek(0) %r; one-shot %r' % (a, b2, one), KNOWN_PRED)
            except (UnicodeError, LookupError):
                pass    # the declared name is no (text) encoding: the one-shot call refuses it too
            except Exception as ex:
                ctx.violation('incdec-reuse', case, 'TextIOWrapper raised %s: %s' % (type(ex).__name__, ex), KNOWN_PRED)


def run(ctx):
    import cssutils  # noqa: F401  (registers the codec)
    from harness import impl
    impl.reset()
    quick = ctx.tier == 'quick'
    stats = {}
    batch = Batch(ctx)
    ctx.cov['rule'] = ('detector: every prefix of length <= 4 over the 11 byte classes x final, plus byte soups; codec classes: '
                       '(data, encoding name, force) x partitions - all cut-point subsets for inputs up to %d units, all 2-cuts, '
                       'random multi-cuts with empty chunks and unit-by-unit for longer ones; data = encodings of texts with complete / '
                       'partial / absent charset rules in ten encodings, BOM variants, truncations, byte soups; round trips over 30 '
                       'encodings; distinct = distinct (entry point, data, encoding, force, partition); non-trivial = more than one chunk'
                       % (9 if quick else 11))
    detector_sweep(ctx, batch, stats)
    text_helpers(ctx, batch, stats, 200 if quick else 12000)
    lookup_table(ctx, batch, stats)
    if quick:
        decoder_cases(ctx, batch, stats, 1500, 9, 8)
        encoder_cases(ctx, batch, stats, 1200, 9, 8)
        nrt = roundtrip(ctx, 120)
        iter_methods(ctx, 200)
        reuse_after_reset(ctx, 300)
    else:
        decoder_cases(ctx, batch, stats, 24000, 11, 20)
        encoder_cases(ctx, batch, stats, 20000, 11, 20)
        nrt = roundtrip(ctx, 2400)
        iter_methods(ctx, 4000)
        reuse_after_reset(ctx, 6000)
    ctx.extra['roundtrip_pairs'] = nrt
    ctx.sample({'op': 'incdec', 'data': list('@charset "x";\xe9'.encode('utf-16')), 'chunks': 'every cut-point subset'})
    ctx.sample({'op': 'detect_str', 'data': [0xFF, 0xFE, 0x00], 'final': True})
    n = batch.flush()
    ctx.extra['correspondence'] = dict(stats, model_cases=n)


def replay(path):
    import cssutils  # noqa: F401
    from cssutils import codec
    d = json.load(open(path))
    case = d.get('case', {})
    print(json.dumps(case)[:2000])
    print('recorded:', d.get('detail'))
    op = case.get('op')
    enc, force = case.get('encoding'), case.get('force', True)
    if op == 'detect_str':
        print('now:', codec.detectencoding_str(bytes(case['data']), case.get('final', True)), 'table:', spec_detect(bytes(case['data']), case.get('final', True)))
    elif op == 'detect_unicode':
        print('now:', codec.detectencoding_unicode(case['text'], case.get('final', True)))
    elif op == 'fixencoding':
        print('now:', codec._fixencoding(case['text'], enc, case.get('final', True)))
    elif op == 'decode':
        print('now:', impl_decode(bytes(case['data']), enc, force))
    elif op == 'incdec':
        print('now:', impl_incdec([bytes(c) for c in case['chunks']], enc, force), 'whole:', impl_incdec([bytes(case['data'])], enc, force))
    elif op == 'sreader':
        print('now:', impl_sreader([[bytes(c) for c in r] for r in case['reads']], enc, force), 'one-shot:', impl_decode(bytes(case['data']), enc, force))
    elif op in ('encode', 'roundtrip'):
        o, e = impl_encode(case['text'], enc)
        print('now:', (o, e))
        if op == 'roundtrip' and e is None:
            print('decode with the encoding given:', impl_decode(o[0], enc, True), 'auto-detected:', impl_decode(o[0], None, True),
                  'expected:', spec_rewrite(case['text'], enc))
    elif op in ('iterdecode',):
        print('now:', impl_incdec([bytes(c) for c in case['chunks']] + [b''], enc, True), 'one-shot:', impl_decode(bytes(case['data']), enc, True))
    elif op in ('iterencode',):
        print('now:', impl_incenc(case['chunks'] + [''], enc), 'one-shot:', impl_encode(case['text'], enc))
    elif op == 'incenc':
        print('now:', impl_incenc(case['chunks'], enc), 'one-shot:', impl_encode(case['text'], enc))
    elif op == 'swriter':
        print('now:', impl_swriter(case['chunks'], enc), 'one-shot:', impl_encode(case['text'], enc))
    return 0
