"""C06 — serializer preferences do exactly what they document, in every combination.
Coq: Model/Out.v (Out.append / Out.value over the generated preference
records), Proofs/OutFacts.v, Props/C06.v.  Correspondence: random append
sequences on cssutils.serialize.Out vs the extracted model under random
preferences.  Search: reparse == documented effect; layout preferences change
white space only (token sequences compared); defaults restore byte for byte."""
import json

from harness import core, gen_css as G
from harness.core import s2n
from harness.props import c03

GEN = ['GenLex', 'GenPrefs']

MANIFEST = dict(
    text='Machine-checked (Coq, closed under the global context) on the model of Out.append/Out.value with the preference records '
         'regenerated from serialize.py: for ANY two preference records that agree on the non-layout fields and whose layout strings are '
         'white space, and any sequence of append calls, the outputs are equal after removing white space; a word-like item is always '
         'followed by a blank even when every spacer is empty (append_separates). The preference tables (defaults, minified preset) are '
         'regenerated each run; Out is tied by random append sequences run on the real class. The documented content effect of each '
         'preference, token-sequence equality under layout changes and byte-identical restore of defaults are decided by the search over '
         'each preference alone, all pairs, the minified preset and random full assignments x generated DOMs. Partial.',
    note='Trusted: Coq kernel + vm_compute; translator (Preferences tables); extraction + driver; hand model of Out.append validated by '
         'correspondence; the do_* methods of the serializer are not modelled (search only).',
    design='7/C06')

KNOWN_PRED = {
    # CSSSerializer._indentblock splits the serialised block on the line separator and indents every piece: a line
    # separator that also occurs inside comments/strings (a blank, or a comment with a line break) changes content
    'C06-indentblock-splits-content': lambda kind, case, detail: kind in ('layout-changes-tokens', 'effect') and (
        case.get('prefs', {}).get('lineSeparator', '\n') not in ('', '\n', '\r\n') or c03.multiline_comment(case.get('text'))),
}

WS = ['', ' ', '  ', '\n', '\t', '\n  ']
LAYOUT = {'indent': ['', ' ', '  ', '\t', '    '], 'lineSeparator': ['', '\n', '\r\n'], 'listItemSpacer': ['', ' ', '  '],
          'paranthesisSpacer': ['', ' ', '\n'], 'propertyNameSpacer': ['', ' ', '  '], 'selectorCombinatorSpacer': ['', ' ', '  '],
          'spacer': ['', ' ', '  '], 'indentClosingBrace': [True, False]}
CONTENT = {'defaultAtKeyword': [True, False], 'defaultPropertyName': [True, False], 'defaultPropertyPriority': [True, False],
           'importHrefFormat': [None, 'string', 'uri'], 'keepAllProperties': [True, False], 'keepComments': [True, False],
           'keepEmptyRules': [False, True], 'keepUnknownAtRules': [True, False], 'keepUsedNamespaceRulesOnly': [False, True],
           'minimizeColorHash': [True, False], 'normalizedVarNames': [True, False], 'omitLastSemicolon': [True, False],
           'omitLeadingZero': [False, True], 'resolveVariables': [True, False]}


def nows_tokens(text):
    from harness import impl
    return [(t[0], t[1]) for t in impl.tokenize(text, True, True) if t[0] != 'S']


def used_uris(sem):
    """namespace URIs that occur in a selector of the projection (qualified names are written {uri}name)"""
    import re
    out = set()
    for r in sem:
        if r[0] == 'style':
            out.update(re.findall(r"\{([^*}]*)\}", repr(r[1])))
        elif r[0] == 'media':
            out.update(used_uris(r[2]))
    return out


def effect(sem, prefs, used_ns=None):
    """documented effect of the content preferences on the semantic projection"""
    out = []
    for r in sem:
        k = r[0]
        if k == 'comment' and not prefs.get('keepComments', True):
            continue
        if k == 'unknown' and not prefs.get('keepUnknownAtRules', True):
            continue
        if k == 'namespace' and prefs.get('keepUsedNamespaceRulesOnly', False) and r[2] not in (used_ns if used_ns is not None else used_uris(sem)):
            continue   # a namespace no selector uses
        if k == 'media':
            r = (k, r[1], effect(r[2], prefs, used_ns if used_ns is not None else used_uris(sem)))
        if k in ('style', 'font-face', 'page') and not prefs.get('keepAllProperties', True):
            def eff(ds):
                seen = {}
                for i, d in enumerate(ds):
                    cur = seen.get(d[0])
                    if cur is None or d[2] or not ds[cur][2]:
                        seen[d[0]] = i
                keep = sorted(seen.values())
                return tuple(ds[i] for i in keep)
            if k == 'style':
                r = (k, r[1], eff(r[2]))
            elif k == 'font-face':
                r = (k, eff(r[1]))
            else:
                r = (k, r[1], eff(r[2]), tuple((m, eff(d)) for m, d in r[3]))
        out.append(r)
    out = tuple(out)
    if not prefs.get('keepEmptyRules', False):
        out = c03.effect_default(out)
    else:
        out = c03.effect_default(out) if False else tuple(out)
    return out


def drop_empty(sem):
    return c03.effect_default(sem)


def set_prefs(p):
    import cssutils
    cssutils.ser.prefs.useDefaults()
    for k, v in p.items():
        setattr(cssutils.ser.prefs, k, v)


def check_assignment(ctx, dom, text, prefs, base_default, sem_dom_, nowstok_default):
    import cssutils
    from harness import sem_dom as S
    case = {'text': text, 'prefs': {k: v for k, v in prefs.items()}}
    ctx.case((text, tuple(sorted((k, repr(v)) for k, v in prefs.items()))))
    try:
        set_prefs(prefs)
        out = dom.cssText
        cssutils.ser.prefs.useDefaults()
        back = dom.cssText
    except Exception as e:
        cssutils.ser.prefs.useDefaults()
        ctx.violation('raises', case, '%s: %s' % (type(e).__name__, e), KNOWN_PRED)
        return
    if back != base_default:
        ctx.violation('defaults-not-restored', case, 'default output after restoring the defaults differs', KNOWN_PRED)
    # reparse == documented effect
    try:
        re_ = S.sem_sheet(c03.parse(out))
    except Exception as e:
        ctx.violation('output-unparsable', dict(case, output=out.decode('utf-8', 'replace')[:800]), '%s: %s' % (type(e).__name__, e), KNOWN_PRED)
        return
    exp = effect(sem_dom_, prefs)
    # an empty rule kept by keepEmptyRules is dropped again by the projection's comparison unless asked to keep it
    a, b = (drop_empty(exp), drop_empty(re_)) if not prefs.get('keepEmptyRules') else (c03.effect_default(exp) if False else norm_keep(exp), norm_keep(re_))
    if prefs.get('keepUsedNamespaceRulesOnly'):
        # a default namespace counts as used by any type selector: not asserted either way
        a = tuple(r for r in a if not (r[0] == 'namespace' and r[1] == ''))
        b = tuple(r for r in b if not (r[0] == 'namespace' and r[1] == ''))
    if a != b:
        d = next((i for i, (x, y) in enumerate(zip(a, b)) if x != y), min(len(a), len(b)))
        ctx.violation('effect', dict(case, output=out.decode('utf-8', 'replace')[:1200]),
                      'rule %d: expected %r\n got %r' % (d, a[d:d + 1], b[d:d + 1]), KNOWN_PRED)
    # pure layout preferences: non-white-space token sequence identical to the default output
    if all(k in LAYOUT for k in prefs):
        try:
            t = nows_tokens(out.decode('utf-8'))
        except Exception as e:
            ctx.violation('raises', case, 'tokenizing output: %s' % e, KNOWN_PRED)
            return
        if t != nowstok_default:
            d = next((i for i, (x, y) in enumerate(zip(t, nowstok_default)) if x != y), min(len(t), len(nowstok_default)))
            ctx.violation('layout-changes-tokens', dict(case, output=out.decode('utf-8', 'replace')[:1200]),
                          'token %d: %r vs default %r' % (d, t[d:d + 3], nowstok_default[d:d + 3]), KNOWN_PRED)


def norm_keep(sem):
    """zero-length normalisation only: keepEmptyRules keeps empty style and media rules
    (what the preference documents); empty @page / @font-face rules are not asserted either way"""
    out = []
    for r in sem:
        k = r[0]
        if (k == 'page' and not r[2] and not r[3]) or (k == 'font-face' and not r[1]):
            continue
        if k == 'style':
            r = (k, r[1], c03.norm_decls(r[2]))
        elif k == 'page':
            r = (k, r[1], c03.norm_decls(r[2]), tuple((m, c03.norm_decls(d)) for m, d in r[3]))
        elif k == 'font-face':
            r = (k, c03.norm_decls(r[1]))
        elif k == 'media':
            r = (k, r[1], norm_keep(r[2]))
        out.append(r)
    return tuple(out)


MINIFIED = dict(importHrefFormat='string', indent='', keepComments=False, keepEmptyRules=False, keepUnknownAtRules=False,
                keepUsedNamespaceRulesOnly=True, lineNumbers=False, lineSeparator='', listItemSpacer='', minimizeColorHash=True,
                omitLastSemicolon=True, omitLeadingZero=True, paranthesisSpacer='', propertyNameSpacer='', selectorCombinatorSpacer='',
                spacer='', validOnly=False)


def out_correspondence(ctx, n):
    """random append sequences on the real Out class vs Model/Out.v"""
    import cssutils
    from cssutils.serialize import Out
    rng = ctx.rng
    VALS = ['a', 'b1', 'red', '1px', '{', '}', ';', ':', ',', '+', '>', '~', '(', ')', '[', ']', '/', '=', 'x y', 'f(', '-', '*', 'x ', ' ', 'a\\ ', '\\ ', 'b\\  ', '!important', '"s"', '#AABBCC', '#abc', '']
    TYPES = [None, None, None, 'STRING', 'HASH', 'S', 'FUNCTION', 'IDENT', 'styletext', 'COMMENT0']
    LAYOUT_KEYS = ['spacer', 'listItemSpacer', 'propertyNameSpacer', 'paranthesisSpacer', 'selectorCombinatorSpacer', 'lineSeparator', 'indent']
    cases, wants, metas = [], [], []
    for _ in range(n):
        prefs = {k: rng.choice(WS) for k in LAYOUT_KEYS}
        prefs['indentClosingBrace'] = rng.random() < 0.5
        prefs['minimizeColorHash'] = rng.random() < 0.5
        set_prefs(prefs)
        o = Out(cssutils.ser)
        ops = []
        for _ in range(rng.randrange(1, 10)):
            val = rng.choice(VALS)
            ty = rng.choice(TYPES)
            if ty == 'COMMENT0':
                continue
            if ty == 'STRING':
                val = rng.choice(['a', 'x y', '', 'b1', '1px', ';', '{'])
            if ty == 'HASH':
                val = rng.choice(['#AABBCC', '#abc', '#a1b2c3', '#AAbbCC'])
            flags = (rng.random() < 0.8, rng.random() < 0.2, rng.random() < 0.15, rng.random() < 0.1)  # space keepS indent alwaysS
            try:
                o.append(val, ty, space=flags[0], keepS=flags[1], indent=flags[2], alwaysS=flags[3])
            except Exception as e:
                break
            ops.append((val, ty, flags))
        keepS = rng.random() < 0.3
        try:
            got = o.value(keepS=keepS)
        except Exception:
            cssutils.ser.prefs.useDefaults()
            continue
        cssutils.ser.prefs.useDefaults()
        enc = [60]
        for k in LAYOUT_KEYS:
            enc += [len(prefs[k])] + s2n(prefs[k])
        enc += [1 if prefs['indentClosingBrace'] else 0, 1 if prefs['minimizeColorHash'] else 0, 1 if keepS else 0, len(ops)]
        tcode = {None: 0, 'STRING': 1, 'URI': 2, 'HASH': 3, 'S': 4, 'FUNCTION': 5, 'IDENT': 6, 'styletext': 7}
        for val, ty, fl in ops:
            enc += [tcode[ty], sum((1 << i) for i, f in enumerate(fl) if f), len(val)] + s2n(val)
        cases.append(enc)
        wants.append(s2n(got))
        metas.append({'prefs': {k: repr(v) for k, v in prefs.items()}, 'ops': [(v, t, list(f)) for v, t, f in ops], 'keepS': keepS})
        ctx.case(('out', tuple(enc)))
    if not ctx.model.available:
        ctx.broken.append(('correspondence', 'extracted model not available'))
        return
    outs = ctx.model.run(cases)
    agree = 0
    for w, o, m in zip(wants, outs, metas):
        if o == w:
            agree += 1
        else:
            ctx.disagree('Out.append', m, core.n2s(w), core.n2s(o) if o else None)
    ctx.extra['correspondence'] = {'out_sequences': len(cases), 'agree': agree}


def variables_family(ctx):
    """var() references with fallbacks, variables defined and undefined: with resolveVariables off the output reads
    back as the DOM itself (references and fallbacks intact); with it on, a reference to a defined variable is replaced by
    the value and nothing else changes; combined with layout preferences and the minified preset.  Search only."""
    import cssutils
    from harness import sem_dom as S
    text = ('@variables { c: red; w: 1px }\n'
            'b { color: var(c, blue); left: var(w, 2px); right: var(nope, 3px); top: var(w); bottom: var(nope2, var(w, 4px)); margin: var(w) var(w, 0) }\n'
            '@media tv { d { color: var(c, green); width: var(nope3, 5%) } }')
    resolved = ('b { color: red; left: 1px; right: var(nope, 3px); top: 1px; bottom: var(nope2, 1px); margin: 1px 1px }\n'
                '@media tv { d { color: red; width: var(nope3, 5%) } }')
    layouts = [{}, {'indent': ''}, {'spacer': ''}, {'propertyNameSpacer': ''}, {'listItemSpacer': ''}, {'omitLastSemicolon': False}, {'lineSeparator': ''}, 'minified']
    try:
        cssutils.ser.prefs.useDefaults()
        dom = c03.parse(text)
        sem_dom_ = S.sem_sheet(dom)
        sem_res = S.sem_sheet(c03.parse(resolved))
    except Exception as e:
        ctx.violation('raises', {'text': text, 'family': 'variables'}, '%s: %s' % (type(e).__name__, e), KNOWN_PRED)
        return
    for lay in layouts:
        for rv in (False, True):
            case = {'text': text, 'prefs': dict(lay if isinstance(lay, dict) else {'preset': 'minified'}, resolveVariables=rv), 'family': 'variables'}
            ctx.case((text, 'variables', repr(lay), rv))
            try:
                cssutils.ser.prefs.useDefaults()
                if lay == 'minified':
                    cssutils.ser.prefs.useMinified()
                else:
                    for k, v in lay.items():
                        setattr(cssutils.ser.prefs, k, v)
                cssutils.ser.prefs.resolveVariables = rv
                out = dom.cssText
                cssutils.ser.prefs.useDefaults()
                cssutils.ser.prefs.resolveVariables = False
                back = S.sem_sheet(c03.parse(out))
            except Exception as e:
                cssutils.ser.prefs.useDefaults()
                ctx.violation('raises', case, '%s: %s' % (type(e).__name__, e), KNOWN_PRED)
                continue
            finally:
                cssutils.ser.prefs.useDefaults()
            want = sem_res if rv else sem_dom_
            back = tuple(r for r in back if r[0] != 'other') if rv else back
            want = tuple(r for r in want if r[0] != 'other') if rv else want
            if back != want:
                d = next((i for i, (x, y) in enumerate(zip(want, back)) if x != y), min(len(want), len(back)))
                ctx.violation('effect', dict(case, output=out.decode('utf-8', 'replace')[:600]),
                              'rule %d: expected %r\n got %r' % (d, want[d:d + 1], back[d:d + 1]), KNOWN_PRED)


def run(ctx):
    import cssutils
    from harness import sem_dom as S
    rng = ctx.rng
    quick = ctx.tier == 'quick'
    ndom = 6 if quick else 40
    ctx.cov['rule'] = ('preference assignments (each documented preference alone with every non-default value, all pairs on a rotating DOM, the minified '
                       'preset, random full assignments) x DOMs from the C02 generator; plus random Out.append sequences for the model tie; '
                       'distinct = distinct (text, assignment); all non-trivial')
    doms = []
    while len(doms) < ndom:
        ast = G.gen_sheet(rng, nrules=5)
        if rng.random() < 0.5:
            ast.append(('style', [G.gen_selector(rng)], []))        # an empty rule
        text = G.render(G.Spelling(rng, canonical=rng.random() < 0.5), ast)
        if c03.multiline_comment(text) and len(doms) < ndom - 1:
            continue      # multi-line comments only in the last DOM (known finding family)
        try:
            dom = c03.parse(text)
            cssutils.ser.prefs.useDefaults()
            base = dom.cssText
            sem = S.sem_sheet(dom)
            tok = nows_tokens(base.decode('utf-8'))
        except Exception as e:
            ctx.violation('raises', {'text': text}, '%s: %s' % (type(e).__name__, e), KNOWN_PRED)
            continue
        doms.append((dom, text, base, sem, tok))
    # a fixed sheet with a comment at every place a comment may stand (inside compound selectors, preludes, media
    # lists, values): switching comments off must not change what anything else means
    dense = ('@import /*i*/ "x.css" /*j*/ tv /*k*/, print;\n@namespace /*n*/ p /*m*/ "u";\n@namespace nq "http://only/in/not";\n@namespace unused "http://unused";\n'
             '@media tv /*a*/ , print /*b*/ { a/*c*/.b , li/*d*/:hover > em/*e*/[title] { left /*f*/ : /*g*/ 1px /*h*/ 2px ; } }\n'
             '@page /*p*/ :first { margin : 1px }\n/*top*/\np|x/*q*/#i /*r*/ + y/*u*/::after { color: red /*s*/ !important }\n'
             '@font-face /*t*/ { font-family : x }\nq/*v*/:not(/*w*/.z/*x*/) { top: 0 }\n'
             '@media tv {}\n@media print { /*only*/ }\n@media tv { @x y; }\ne {}\n@media tv { f {} }\n'
             'g:not(nq|k) { color: red !important; color: green !important; c\\olor: blue; COLOR: black !important; top: 1px; top: 2px }\n'
             '@media print { h:not(nq|m) { left: 0 !important; left: 1px } }\n'
             'i /*y*/j, k /*y*//*z*/.l, m:hover /*y*/n { right: 0 }')
    try:
        dom = c03.parse(dense)
        cssutils.ser.prefs.useDefaults()
        doms.append((dom, dense, dom.cssText, S.sem_sheet(dom), nows_tokens(dom.cssText.decode('utf-8'))))
    except Exception as e:
        ctx.violation('raises', {'text': dense}, '%s: %s' % (type(e).__name__, e), KNOWN_PRED)
    # calc() with every operator, also nested and with signed operands
    calcs = ('a { width: calc(100% - 2px); height: calc(1px + 2px * 3 / 4); margin: calc( (1em + 2px) * 2 ) -1px; top: calc(1px + -2px); left: calc(2 * (3px - 1px)) }\n'
             '@media tv { d { width: calc(50% + 1em) } }')
    try:
        dom = c03.parse(calcs)
        cssutils.ser.prefs.useDefaults()
        doms.append((dom, calcs, dom.cssText, S.sem_sheet(dom), nows_tokens(dom.cssText.decode('utf-8'))))
    except Exception as e:
        ctx.violation('raises', {'text': calcs}, '%s: %s' % (type(e).__name__, e), KNOWN_PRED)
    variables_family(ctx)
    ALL = dict(LAYOUT)
    ALL.update(CONTENT)
    singles = [{k: v} for k, vs in ALL.items() for v in vs[1:]]
    for dom, text, base, sem, tok in doms:
        for p in singles:
            check_assignment(ctx, dom, text, p, base, sem, tok)
        check_assignment(ctx, dom, text, dict(MINIFIED), base, sem, tok)
    keys = list(ALL)
    npairs = 0
    for i, k1 in enumerate(keys):
        for k2 in keys[i + 1:]:
            dom, text, base, sem, tok = doms[npairs % len(doms)]
            p = {k1: rng.choice(ALL[k1][1:] or ALL[k1]), k2: rng.choice(ALL[k2][1:] or ALL[k2])}
            check_assignment(ctx, dom, text, p, base, sem, tok)
            npairs += 1
    for _ in range(60 if quick else 3000):
        dom, text, base, sem, tok = rng.choice(doms)
        p = {k: rng.choice(vs) for k, vs in ALL.items() if rng.random() < 0.6}
        check_assignment(ctx, dom, text, p, base, sem, tok)
        # layout-only random assignment
        p = {k: rng.choice(vs) for k, vs in LAYOUT.items()}
        check_assignment(ctx, dom, text, p, base, sem, tok)
    # a blank as line separator (one-line output): the dedicated family of the known finding
    for dom, text, base, sem, tok in doms[:2]:
        check_assignment(ctx, dom, text, {'lineSeparator': ' '}, base, sem, tok)
    # a serialisation that fails (a preference given an unusable value) and is abandoned: restoring the defaults must
    # still restore the default output byte for byte (no serializer state may survive the failure)
    for dom, text, base, sem, tok in doms[:3] + doms[-1:]:
        for k in ('propertyNameSpacer', 'indent', 'lineSeparator', 'selectorCombinatorSpacer', 'listItemSpacer', 'paranthesisSpacer',
                  'importHrefFormat', 'omitLastSemicolon'):
            case = {'text': text, 'prefs': {k: None}, 'family': 'failed-serialisation'}
            ctx.case((text, 'fault', k))
            try:
                setattr(cssutils.ser.prefs, k, None)
                try:
                    dom.cssText
                except Exception:  # noqa: the failure itself is not the subject
                    pass
                cssutils.ser.prefs.useDefaults()
                back = dom.cssText
            except Exception as e:
                cssutils.ser.prefs.useDefaults()
                ctx.violation('raises', case, '%s: %s' % (type(e).__name__, e), KNOWN_PRED)
                continue
            if back != base:
                ctx.violation('defaults-not-restored', case, 'default output after a failed serialisation and useDefaults() differs: %r vs %r' % (
                    back[:200], base[:200]), KNOWN_PRED)
    # the minified preset is absolute: whatever was set before, useMinified() gives the output it gives from the defaults
    for dom, text, base, sem, tok in doms[:2] + doms[-1:]:
        cssutils.ser.prefs.useDefaults()
        cssutils.ser.prefs.useMinified()
        ref_min = dom.cssText
        cssutils.ser.prefs.useDefaults()
        for k, vs in ALL.items():
            if k not in MINIFIED:
                continue      # the preset says nothing about this option: it stays as the caller set it
            for v in vs[1:]:
                ctx.case((text, 'preset-after', k, repr(v)))
                try:
                    cssutils.ser.prefs.useDefaults()
                    setattr(cssutils.ser.prefs, k, v)
                    cssutils.ser.prefs.useMinified()
                    got = dom.cssText
                except Exception as e:
                    ctx.violation('raises', {'text': text, 'prefs': {k: v}, 'family': 'preset-after'}, '%s: %s' % (type(e).__name__, e), KNOWN_PRED)
                    continue
                finally:
                    cssutils.ser.prefs.useDefaults()
                if got != ref_min:
                    ctx.violation('preset-not-absolute', {'text': text, 'prefs': {k: v}, 'family': 'preset-after'},
                                  '%s = %r followed by useMinified(): %r, from the defaults: %r' % (k, v, got[:200], ref_min[:200]), KNOWN_PRED)
    # csscombine (it serialises with preferences of its own) leaves the library's preferences alone
    import cssutils.script
    for minify in (True, False):
        for rv in (True, False):
            dom, text, base, sem, tok = doms[0]
            ctx.case((text, 'csscombine', minify, rv))
            try:
                cssutils.ser.prefs.useDefaults()
                before = dict(vars(cssutils.ser.prefs))
                cssutils.script.csscombine(cssText='@variables{c:red} a{color:var(c)}', href='http://h/x.css', minify=minify, resolveVariables=rv)
                after = dict(vars(cssutils.ser.prefs))
                back = dom.cssText
            except Exception as e:
                ctx.violation('raises', {'text': text, 'family': 'csscombine', 'minify': minify, 'resolveVariables': rv}, '%s: %s' % (type(e).__name__, e), KNOWN_PRED)
                continue
            finally:
                if type(cssutils.ser) is not cssutils.serialize.CSSSerializer:
                    cssutils.ser = cssutils.serialize.CSSSerializer()
                cssutils.ser.prefs.useDefaults()
            if after != before or back != base:
                ctx.violation('defaults-not-restored', {'text': text, 'family': 'csscombine', 'minify': minify, 'resolveVariables': rv},
                              'preferences after csscombine differ: %r' % {k: (before[k], after[k]) for k in before if before[k] != after.get(k)}, KNOWN_PRED)
    ctx.sample({'text': doms[0][1][:400], 'prefs_example': singles[3]})
    ctx.extra['assignment_families'] = {'singles': len(singles), 'pairs': npairs, 'doms': len(doms)}
    out_correspondence(ctx, 400 if quick else 20000)
    cssutils.ser.prefs.useDefaults()


def replay(path):
    d = json.load(open(path))
    print(json.dumps(d['case'])[:3000])
    print(d['detail'])
    return 0
