"""C12 — no hidden state: history-independent results, global modes restored.
Coq: Model/Globals.v, Proofs/GlobalsFacts.v, Props/C12.v.
Correspondence: random call histories with injected faults run in lock-step on
cssutils and on the extracted model; the global record (error mode, saved
tokens, push-back queue, preferences, profiles, serializer identity) and the
way each call ended must agree after every call.
Search (independent of the model): every call of a history, and a fixed probe
battery appended to it, must give the result the same call gives in a fresh
state under the same explicit settings; the error mode, preferences,
profiles and serializer must be what the user last set, after every call,
whether it returned or raised.

This is the one check that does NOT reset the library between the calls of
a history."""
import json
import os
import subprocess
import sys
import tempfile
import xml.dom

from harness import core

GEN = ['GenGlobals']

MANIFEST = dict(
    text='Machine-checked (Coq, closed under the global context) on a model of the process-wide state of cssutils '
         '(error mode, saved-token list, push-back queue, serializer + preferences, profiles, live CSSParser objects): for every '
         'state, every call (parser construction, parseString/Style/File/Url on an object or via the module functions, standalone '
         'MediaQuery and other production-parser constructions, DOM edits, csscombine) and every way it can end (returns, returns '
         'None, raises before the mode switch / while decoding / while parsing) the error mode, preferences, profiles and serializer '
         'are unchanged and no saved token is left (mode_restored, globals_restored); hence for every history of calls and explicit '
         'settings the result of a following call equals its result in a fresh state with only the settings applied (no_leak, '
         'no_leak_settings) and a parser object gives the same result whatever happened since it was built (parser_reusable). '
         'Each repair of fixes/C12-*.patch is shown necessary (…_refuted for the model variants without it). The model is tied to '
         'the implementation by lock-step histories with injected faults (full global record + outcome after each call).',
    note='Trusted: Coq kernel + vm_compute; extraction + driver; the hand model of parse.py/prodparser.py/mediaquery.py/script.py '
         '(validated by correspondence on every run, not verified); inputs are abstracted to fault classes (flags declared in the '
         'harness table, validated by correspondence); "good result" means equal to the fresh-state reference, computed in-process after '
         'an explicit reset and cross-checked against fresh subprocesses. csscombine restoring the serializer is proved only for '
         'outcomes other than an exception while serialising (no input producing one is known; the code has no try/finally there).',
    design='7/C12')

KNOWN_PRED = {}



def tree_bits():
    """the model variant of the tree under test, as read off its source by translator/gen_globals.py
    (the same analysis that generates Gen/GenGlobals.v): 7 = all three mechanisms present"""
    from translator import gen_globals
    a = gen_globals.analyse()
    return int(a['finally']) + 2 * int(a['calltime']) + 4 * int(a['saved'])


VBITS = int(os.environ['C12_VARIANT']) if 'C12_VARIANT' in os.environ else tree_bits()

FILES_DIR = os.path.join(tempfile.gettempdir(), 'verif-c12-files')
BASE = 'http://example.invalid/'


class Boom(RuntimeError):
    pass


# ------------------------------------------------------------------ tables

def I(method, arg, fetcher=None, pre=0, skip=0, decode=0, fatal=0, syntax=0, pp=0, **kw):
    return dict(method=method, arg=arg, fetcher=fetcher, kw=kw,
                flags=pre + 2 * skip + 4 * decode + 8 * fatal + 16 * syntax + 32 * pp)


INPUTS = [
    I('string', 'a{color:red}', pp=1),                                                        # 0
    I('string', '/*c*/'),                                                                     # 1
    I('string', 'a{}'),                                                                       # 2
    I('string', '@media screen, print {a{color:red}}', pp=1),                                 # 3
    I('string', '@import "imp.css" tv; b{left:1px}', fetcher='good', pp=1, href=BASE + 'main.css'),  # 4
    I('string', 'a{color:red;;}}} @media{', syntax=1, pp=1),                                  # 5
    I('string', b'\xff', decode=1, encoding='ascii'),                                         # 6
    I('string', b'a{}', decode=1, encoding='bogus-enc'),                                      # 7
    I('string', '@import "boom.css";', fetcher='boom', fatal=1, pp=1, href=BASE + 'main.css'),  # 8
    I('string', '@import "os.css"; c{top:1px}', fetcher='oserr', pp=1, href=BASE + 'main.css'),  # 9
    I('string', '@page :left {margin:1px; @top-left{content:"x"}}', pp=1),                    # 10
    I('string', 'a{margin:1px 2px;color:red;}', pp=1),                                        # 11
    I('string', '@namespace p "u"; p|a{top:0}', pp=1),                                        # 12
    I('string', '@variables{x:1px} a{left:var(x)}', pp=1),                                    # 13
    I('string', '@font-face{font-family:x;src:url(a)}', pp=1),                                # 14
    I('string', 'a{color:red', pp=1),                                                         # 15
    I('string', '@media screen garbage, print{a{left:0}}', syntax=1, pp=1),                   # 16
    I('string', b'@charset "latin-1"; a{content:"\xe9"}', pp=1),                              # 17
    I('string', '@media tv{a{top:0}} a{color:#ff0000;background:url(x.png)}', pp=1, media='screen, print'),  # 18
    I('string', 'a{color:red}', syntax=1, pp=1, media='bogus!!'),                             # 19
    I('style', 'color:red;left:1px', pp=1),                                                   # 20
    I('style', b'\xff', decode=1, encoding='ascii'),                                          # 21
    I('style', 'color:;;x', syntax=1),                                                        # 22
    I('file', 'good.css', pp=1),                                                              # 23
    I('file', 'missing.css', pre=1),                                                          # 24
    I('file', 'bad.css', decode=1, encoding='ascii'),                                         # 25
    I('url', BASE + 'good.css', fetcher='good', pp=1),                                        # 26
    I('url', BASE + 'boom.css', fetcher='boom', pre=1),                                       # 27
    I('url', BASE + 'none.css', fetcher='nothing', skip=1),                                   # 28
    I('url', BASE + 'bad.css', fetcher='badbytes', skip=1),                                   # 29
    I('string', 'a{color:red}/*c*/b{left:0}', pp=1, validate=False),                          # 30
    I('style', 'top:1px;top:2px !important', pp=1),                                           # 31
    I('style', 'color:red;x-bogus:1', pp=1, validate=False),                                  # 32
    I('style', 'color:red', pp=1, validate=True),                                             # 33
    I('string', 'a{color:bogus}', pp=1, validate=True),                                       # 34
    I('string', 'a{width:1.5px;opacity:0.5;z-index:12}', pp=1),                               # 35
    I('string', 'a{margin:x-fill 0;margin:9px 8px;width:9px}', pp=1),                         # 36
]
NO_FETCH = [i for i, x in enumerate(INPUTS) if x['fetcher'] is None]
FAULTY = [i for i, x in enumerate(INPUTS) if x['flags'] & 31]
N_INPUTS_STATIC = len(INPUTS)

FILES = {'good.css': b'a{color:red}\nb{left:0}', 'bad.css': b'\xff\xff a{}'}
URLS = {'imp.css': 'i{top:0}', 'good.css': b'u{color:blue}'}

# standalone media queries: (text, ok, number of tokens left over on the pinned tree)
# (since the C17 repairs a stand-alone query with trailing text is rejected instead of accepted truncated)
QUERIES = [
    ('screen', 1, 0),
    ('screen, print', 0, 1),
    ('screen garbage', 0, 1),
    ('screen and (min-width:1px), tv', 0, 1),
    ('print and (min-width:1px)', 1, 0),
    ('(bad', 0, 0),
    ('bogus', 0, 0),
    ('not tv and (color) , ,', 0, 1),
]
# constructions that run a production parser: (kind, text, ok, tokens pushed back)
CONSTRUCTS = [
    ('medialist', 'screen, print', 1, 0),
    ('medialist', 'screen garbage, print', 0, 0),
    ('medialist', 'tv and (color), all', 1, 0),
    ('propertyvalue', '1px solid red', 1, 0),
    ('propertyvalue', '1px; x', 1, 1),
    ('propertyvalue', '1px } x', 0, 0),
    ('value', '1px 2px', 0, 0),
    ('styletext', 'color: red; left: 1px', 1, 0),
    ('styletext', 'color: }', 0, 0),
    ('setprop', 'red !', 0, 0),
    ('setprop', 'green', 1, 0),
    ('sheettext', 'a{color:red} @media print{b{top:0}}', 1, 0),
    ('sheettext', 'a{color:red}}', 0, 0),
]
# edits from text that do not run a production parser: (kind, text, ok)
EDITS = [
    ('selector', 'a > b', 1),
    ('selector', 'a, b', 0),
    ('seltext', 'a,,b', 0),
    ('seltext', 'a b', 1),
    ('seltext', 'a {', 0),
]
COMBINES = [
    I('combine', 'a{color:red} /*c*/ b{left:0}', pp=1, minify=True),
    I('combine', 'a{color:red} /*c*/ b{left:0}', pp=1, minify=False),
    I('combine', None, pre=1, path='missing.css'),
    I('combine', b'\xff', decode=1, sourceencoding='ascii'),
    I('combine', None, pp=1, path='good.css'),
    I('combine', '@variables{c:red} a{color:var(c)}', pp=1, minify=False, resolveVariables=False),
    I('combine', '@variables{c:red} a{color:var(c)}', pp=1, minify=True, resolveVariables=False),
    I('combine', 'a{color:red} /*c*/', pp=1, minify=False, resolveVariables=True),
]
NPREFS = 4
NPROFS = 4      # 2, 3: a custom profile shadowing macros added (addProfile / addProfiles) and removed again = registry state 0


def ensure_files():
    os.makedirs(FILES_DIR, exist_ok=True)
    for name, data in FILES.items():
        p = os.path.join(FILES_DIR, name)
        try:
            if open(p, 'rb').read() == data:
                continue
        except OSError:
            pass
        tmp = '%s.%d.tmp' % (p, os.getpid())
        with open(tmp, 'wb') as f:
            f.write(data)
        os.replace(tmp, p)


def fetcher(kind):
    if kind is None:
        return None

    def f(url):
        name = url.rsplit('/', 1)[-1]
        if kind == 'boom':
            raise Boom('boom')
        if kind == 'oserr':
            raise OSError('not reachable')
        if kind == 'nothing':
            return None
        if kind == 'badbytes':
            return ('ascii', b'\xff')
        return (None, URLS.get(name, ''))
    return f


def apply_prefs(prefs, k):
    prefs.useDefaults()
    if k == 1:
        prefs.useMinified()
    elif k == 2:
        prefs.indent = '\t'
        prefs.keepComments = False
    elif k == 3:
        prefs.omitLastSemicolon = False
        prefs.keepEmptyRules = True


_PREFS_DICTS = None


def prefs_dicts():
    global _PREFS_DICTS
    if _PREFS_DICTS is None:
        import cssutils.serialize
        out = []
        for k in range(NPREFS):
            p = cssutils.serialize.Preferences()
            apply_prefs(p, k)
            out.append(dict(vars(p)))
        _PREFS_DICTS = out
    return _PREFS_DICTS


def apply_profiles(k):
    import cssutils
    from harness import impl
    impl.fresh_profiles()
    if k == 1:
        cssutils.profile.defaultProfiles = cssutils.profile.CSS_LEVEL_2
    elif k == 2:
        cssutils.profile.addProfile('x-c12', {'x-c12-len': '{num}px|{int}'}, {'num': r'[0-9]+', 'int': r'[0-9]'})
        cssutils.profile.removeProfile('x-c12')
    elif k == 3:
        # the bulk twin, shadowing a macro that a registered profile defines
        cssutils.profile.addProfiles([('x-c12b', {'x-c12-m': '{margin-width}'}, {'margin-width': 'x-fill|{length}', 'num': r'[0-7]+'})])
        cssutils.profile.removeProfile('x-c12b')


# ------------------------------------------------------------------ implementation side

class Session:
    """the library state as seen through the public module globals; one per history"""

    def __init__(self, mode):
        import cssutils
        from harness import impl
        impl.reset(mode)
        impl.fresh_profiles()
        import cssutils.prodparser as pp
        pp.tokenizer._pushed = []        # not through the library's own clear(): the reset must not depend on the subject
        del pp.savedTokens[:]
        self.ser = cssutils.ser
        self.profile = cssutils.profile
        self.profnames = list(cssutils.profile.profiles)
        self.slots = []
        self.exp = {'mode': mode, 'prefs': 0, 'profiles': 0}

    def record(self):
        import cssutils
        import cssutils.prodparser as pp
        p = pp.tokenizer._pushed
        if isinstance(p, list):
            pushed = list(p)
        else:   # an iterator chain: look at it and put an equivalent one-shot iterator back
            pushed = list(p)
            pp.tokenizer._pushed = iter(pushed)
        pd = prefs_dicts()
        cur = dict(vars(cssutils.ser.prefs))
        pid = next((i for i, d in enumerate(pd) if d == cur), 99)
        prof = cssutils.profile
        if list(prof.profiles) != self.profnames:
            fid = 99
        elif not prof._defaultProfiles:
            fid = 0
        elif tuple(prof._defaultProfiles) == (prof.CSS_LEVEL_2,):
            fid = 1
        else:
            fid = 99
        return {'mode': bool(cssutils.log.raiseExceptions), 'saved': [list(t) for t in pp.savedTokens],
                'pushed': [list(t) for t in pushed], 'prefs': pid, 'profiles': fid,
                'ser': 0 if cssutils.ser is self.ser else 1, 'enabled': bool(cssutils.log.enabled),
                'profile_obj': cssutils.profile is self.profile, 'prefs_dict': cur,
                'profile_names': (list(prof.profiles), prof._defaultProfiles)}

    def setting(self, what, val):
        import cssutils
        if what == 'mode':
            cssutils.log.raiseExceptions = bool(val)
        elif what == 'prefs':
            apply_prefs(cssutils.ser.prefs, val)
        else:
            apply_profiles(val)
            self.profile = cssutils.profile
            val = val if val < 2 else 0        # 2 and 3 leave the registry as 0 does
        self.exp[what] = val


def proj_rule(r):
    from harness import impl
    out = [r.type, r.cssText]
    if hasattr(r, 'style'):
        out.append(impl.jsonable(impl.proj_style(r.style)))
        out.append([bool(p_.valid) for p_ in r.style.getProperties(all=True)])
    if hasattr(r, 'media'):
        out.append(r.media.mediaText)
    if hasattr(r, 'cssRules'):
        out.append([proj_rule(x) for x in r.cssRules])
    if r.type == r.IMPORT_RULE:
        out.append([r.href, r.hrefFound, [proj_rule(x) for x in r.styleSheet.cssRules] if r.styleSheet else None])
    return out


def canon(x):
    import cssutils
    from harness import impl
    if x is None:
        return ['none']
    if isinstance(x, cssutils.css.CSSStyleSheet):
        return ['sheet', [proj_rule(r) for r in x.cssRules], x.cssText.decode('latin-1'), x.encoding, x.href,
                x.media.mediaText, bool(x.validating)]
    if isinstance(x, cssutils.css.CSSStyleDeclaration):
        return ['style', impl.jsonable(impl.proj_style(x)), x.cssText, bool(x.validating)]
    if isinstance(x, bytes):
        return ['bytes', x.decode('latin-1')]
    return ['value', x]


def phase_of(e, call):
    if isinstance(e, FileNotFoundError):
        return 0
    if isinstance(e, Boom):
        return 0 if (call[0] in ('parse', 'mparse') and INPUTS[call[-1]]['method'] == 'url') else 2
    if isinstance(e, (UnicodeDecodeError, LookupError)):
        return 1
    return 2


def do_parse(parser, inp):
    """parser None = module-level function (fresh CSSParser per call)"""
    import cssutils
    m = inp['method']
    tgt = parser if parser is not None else cssutils
    if parser is not None:
        parser.setFetcher(fetcher(inp['fetcher']))
    kw = dict(inp['kw'])
    if m == 'string':
        return tgt.parseString(inp['arg'], **kw)
    if m == 'style':
        return tgt.parseStyle(inp['arg'], **kw)
    if m == 'file':
        return tgt.parseFile(os.path.join(FILES_DIR, inp['arg']), **kw)
    return tgt.parseUrl(inp['arg'], **kw)


def do_library_call(sess, call):
    """run one library call; returns the raw value (or raises)"""
    import cssutils
    import cssutils.script
    k = call[0]
    if k == 'new':
        flag = {0: None, 1: True, 2: False}[call[1]]
        sess.slots.append(cssutils.CSSParser(raiseExceptions=flag))
        return 'parser'
    if k == 'parse':
        return do_parse(sess.slots[call[1]], INPUTS[call[2]])
    if k == 'mparse':
        return do_parse(None, INPUTS[call[1]])
    if k == 'query':
        return cssutils.stylesheets.MediaQuery(QUERIES[call[1]][0]).mediaText
    if k == 'construct':
        kind, text = CONSTRUCTS[call[1]][:2]
        if kind == 'medialist':
            return cssutils.stylesheets.MediaList(text).mediaText
        if kind == 'propertyvalue':
            return cssutils.css.PropertyValue(text).cssText
        if kind == 'value':
            return cssutils.css.Value(text).cssText
        if kind == 'styletext':
            s = cssutils.css.CSSStyleDeclaration()
            s.cssText = text
            return s.cssText
        if kind == 'setprop':
            s = cssutils.css.CSSStyleDeclaration(cssText='color: blue')
            s.setProperty('color', text)
            return s.cssText
        if kind == 'sheettext':
            s = cssutils.css.CSSStyleSheet()
            s.cssText = text
            return s.cssText
    if k == 'edit':
        kind, text = EDITS[call[1]][:2]
        if kind == 'selector':
            return cssutils.css.Selector(text).selectorText
        r = cssutils.css.CSSStyleRule(selectorText='x')
        r.selectorText = text
        return r.selectorText
    if k == 'combine':
        inp = COMBINES[call[1]]
        kw = dict(inp['kw'])
        if 'path' in kw:
            kw['path'] = os.path.join(FILES_DIR, kw['path'])
        else:
            kw['cssText'] = inp['arg']
            kw['href'] = BASE + 'comb.css'
        return cssutils.script.csscombine(**kw)
    raise ValueError(call)


def evaluate(sess, call):
    """-> (canonical result, outcome code, exception or None)"""
    try:
        v = do_library_call(sess, call)
    except Exception as e:   # noqa: BLE001 - every exception is an outcome here
        # (type, message and the source position the exception carries: all part of what the caller sees)
        return ['exc', type(e).__name__, str(e)[:200], getattr(e, 'line', None), getattr(e, 'col', None)], 2 + phase_of(e, call), e
    c = canon(v)
    scribble(v)
    return c, (1 if v is None else 0), None


def scribble(v):
    """what a caller does with a result afterwards: ordinary DOM edits of the returned object (they must not reach
    into what later calls return)"""
    import cssutils
    import cssutils.prodparser as pp
    # (the edits run production parsers of their own: the shared push-back state the history is measured on is put back)
    p = pp.tokenizer._pushed
    pushed, saved = list(p), list(pp.savedTokens)
    try:
        _scribble(v)
    finally:
        pp.tokenizer._pushed = pushed if isinstance(p, list) else iter(pushed)
        pp.savedTokens[:] = saved


def _scribble(v):
    import cssutils
    try:
        if isinstance(v, cssutils.css.CSSStyleSheet):
            v.media.appendMedium('tv')
            v.media.mediaText = 'print, tv'
            v.title = 'scribbled'
            v.add('zz{top:0}')
            for r in list(v.cssRules)[:3]:
                if r.type == r.STYLE_RULE:
                    r.style.setProperty('left', '9px')
                    r.selectorList.appendSelector('zz')
                elif r.type == r.MEDIA_RULE:
                    r.media.appendMedium('braille')
                    r.add('zz{top:0}')
            v.namespaces['zz'] = 'http://zz'
        elif isinstance(v, cssutils.css.CSSStyleDeclaration):
            v.setProperty('left', '9px')
            v['top'] = '8px'
    except Exception:    # noqa: BLE001 - an edit may be refused; only its reach matters
        pass


# ---- reference: the same call in a fresh state under the same explicit settings

_REF = {}


def ref_key(sess, call):
    if call[0] == 'parse':
        # the parser object matters only through its constructor argument
        return ('parse', sess_flag(sess, call[1]), call[2], sess.exp['mode'], sess.exp['prefs'], sess.exp['profiles'])
    return tuple(call) + (sess.exp['mode'], sess.exp['prefs'], sess.exp['profiles'])


def sess_flag(sess, slot):
    return sess.flags[slot]


def reference(key):
    if key in _REF:
        return _REF[key]
    mode, prefs, prof = key[-3:]
    s = Session(mode)
    s.flags = []
    if prefs:
        s.setting('prefs', prefs)
    if prof:
        s.setting('profiles', prof)
    if key[0] == 'parse':
        do_library_call(s, ('new', key[1]))
        call = ('parse', 0, key[2])
    else:
        call = key[:-3]
    r = evaluate(s, call)[0]
    _REF[key] = r
    return r


# ------------------------------------------------------------------ model side
# The model works on abstract attributes of the texts (does this text raise in raise mode, how many tokens does it
# leave pending, is a production parser started, in which phase does a fault strike).  They are *measured* on the
# tree under test in a fresh state; what the model then predicts is the behaviour inside a history.  The values
# declared in the tables above are cross-checked against the measurement (check_tables).

_ATTR = {}
FAKE = ('S', ' ', 0, 987654)


def text_attr(call):
    """standalone construction / edit -> {mode: (returns normally, |savedTokens| after, |_pushed| after,
    a production parser was started)}"""
    key = tuple(call)
    if key not in _ATTR:
        out = {}
        import cssutils.prodparser as pp
        for mode in (True, False):
            s = Session(mode)
            s.flags = []
            pp.tokenizer.push(FAKE)
            r = evaluate(s, key)
            rec = s.record()
            started = list(FAKE) not in rec['pushed']
            out[mode] = (r[2] is None, len(rec['saved']), len(rec['pushed']) - (0 if started else 1), started)
        _ATTR[key] = out
    return _ATTR[key]


def input_attr(kind, idx):
    """parse / combine input -> (flags under a logging parser, flags under a raising parser).
    A production parser was started iff the marker put into the shared tokenizer's push-back queue is gone
    (ProdParser.__init__ clears the queue)."""
    key = (kind, idx)
    if key not in _ATTR:
        import cssutils.prodparser as pp
        out = []
        for raising in ((0,) if kind == 'combine' else (0, 1)):
            s = Session(True)
            s.flags = []
            pp.tokenizer.push(FAKE)
            if kind == 'combine':
                call = ('combine', idx)
            else:
                do_library_call(s, ('new', raising))
                call = ('parse', 0, idx)
            r = evaluate(s, call)
            rec = s.record()
            out.append((r[1], 0 if list(FAKE) in rec['pushed'] else 1))
        oc0, pp0 = out[0]
        oc1, pp1 = out[-1]
        base = {2: 1, 1: 2, 3: 4, 4: 8}.get(oc0, 0)
        _ATTR[key] = (base + 32 * pp0, base + (16 if (oc1 == 4 and oc0 != 4) else 0) + 32 * pp1)
    return _ATTR[key]


def measure(st):
    if st[0] in ('query', 'construct', 'edit'):
        text_attr(st)
    elif st[0] in ('parse', 'mparse'):
        input_attr('parse', st[-1])
    elif st[0] == 'combine':
        input_attr('combine', st[1])


def model_triple(st, flags, mode):
    """the step as the model sees it; flags = constructor arguments of the parser slots, mode = error mode before the step"""
    k = st[0]
    if k == 'new':
        return [0, 1 if st[1] == 1 else 0, 0]
    if k == 'parse':
        f = input_attr('parse', st[2])
        return [1, st[1], f[1] if flags[st[1]] == 1 else f[0]]
    if k == 'mparse':
        return [2, 0, input_attr('parse', st[1])[0]]
    if k == 'query':
        a = text_attr(st)
        return [3, int(a[True][0]), a[mode][1]]
    if k == 'construct':
        a = text_attr(st)
        return [4, int(a[True][0]) + 2 * int(a[mode][3]), a[mode][2]]
    if k == 'combine':
        return [5, 0, input_attr('combine', st[1])[0]]
    if k == 'edit':
        return [6, int(text_attr(st)[True][0]), 0]
    return [{'mode': 7, 'prefs': 8, 'profiles': 9}[st[1]], (int(st[2]) if int(st[2]) < 2 else 0) if st[1] == 'profiles' else int(st[2]), 0]


def check_tables(ctx):
    """declared attributes of the static tables == measured ones"""
    bad = []
    for i in range(N_STATIC['inputs']):
        f_log, f_raise = input_attr('parse', i)
        d = INPUTS[i]['flags']
        if (f_log, f_raise) != (d & ~16, d):
            bad.append('input %d %s: declared flags %d, measured %d (logging parser) / %d (raising parser)' % (
                i, describe(('mparse', i)), d, f_log, f_raise))
    for i in range(N_STATIC['combines']):
        if input_attr('combine', i)[0] != COMBINES[i]['flags']:
            bad.append('combine %d: declared flags %d, measured %d' % (i, COMBINES[i]['flags'], input_attr('combine', i)[0]))
    for i in range(N_STATIC['queries']):
        if int(text_attr(('query', i))[True][0]) != QUERIES[i][1] or not text_attr(('query', i))[False][3]:
            bad.append('query %d %r: declared ok=%d' % (i, QUERIES[i][0], QUERIES[i][1]))
    for i in range(N_STATIC['constructs']):
        a = text_attr(('construct', i))
        if int(a[True][0]) != CONSTRUCTS[i][2] or a[False][2] != CONSTRUCTS[i][3] or not (a[True][3] and a[False][3]):
            bad.append('construct %d %r: declared ok=%d keep=%d, measured %r' % (i, CONSTRUCTS[i][:2], CONSTRUCTS[i][2], CONSTRUCTS[i][3], a))
    for i in range(len(EDITS)):
        a = text_attr(('edit', i))
        if int(a[True][0]) != EDITS[i][2] or a[True][2] or a[False][2] or a[True][3] or a[False][3]:
            bad.append('edit %d %r: declared ok=%d, measured %r' % (i, EDITS[i][:2], EDITS[i][2], a))
    for b in bad:
        ctx.broken.append(('harness-table', b))
    return not bad


# ---- generated texts (attributes measured, never declared)
MEDIA_WORDS = ['screen', 'print', 'all', 'tv', 'and', 'not', 'only', '(', 'min-width', ':', '1px', ')', ',', 'garbage',
               'color', '/*c*/', '{', ';', '(color)', '(min-width:1px)']
VALUE_WORDS = ['1px', 'red', 'solid', ';', '}', 'url(x)', 'rgb(1,2,3)', '"s"', ',', '/', 'calc(1px + 2px)', 'var(x)',
               '!important', '(', ')', 'x', '#fff', '1.5em', '-', 'f(', '{']
DECL_WORDS = ['color:red', 'left:1px', ';', ';;', '}', '{', 'x', 'top:', '!important', '/*c*/', 'margin:1px 2px',
              'background:url(a) red', ':', 'a:b;']
SHEET_WORDS = ['a{color:red}', 'b{left:1px;top:0}', '@media print{', '}', '@import "imp.css";', '@page{margin:1px}', '/*c*/',
               'a{', ';', '@media screen, print and (min-width:1px){x{y:z}}', '@namespace "u";', '@charset "utf-8";',
               '@font-face{font-family:x}', 'c{margin:1px 2px;x:rgb(1,2,3)}', '{}', ')', '@x y;', '<!--', '-->', 'a,b{c:d}',
               ',', '@variables{v:1}', 'e{f:var(v)}', '@media screen garbage{', '@page :left{@top-left{content:"x"}}',
               'a{color:}', '@import url(imp.css) tv, print;', 'p|q{r:s}', '[', '"']
N_STATIC = {}


def freeze_static():
    if not N_STATIC:
        N_STATIC.update(inputs=len(INPUTS), queries=len(QUERIES), constructs=len(CONSTRUCTS), combines=len(COMBINES))


def add_generated(rng, n):
    """extend the tables with generated texts; returns the description needed to rebuild them elsewhere"""
    freeze_static()
    dyn = {'inputs': [], 'queries': [], 'constructs': []}

    def query():
        q = rng.choice(['screen', 'print', 'tv', 'not tv', 'only screen', 'all', '(color)'])
        for _ in range(rng.choice([0, 0, 1, 2])):
            q += ' and ' + rng.choice(['(min-width:1px)', '(color)', '(max-width: 10em)'])
        return q

    def soup(words, hi):
        return ' '.join(rng.choice(words) for _ in range(rng.randrange(1, hi)))

    for _ in range(n):
        # half of the texts: something well-formed, possibly followed by tokens that do not belong to it
        if rng.random() < 0.5:
            dyn['queries'].append(query() + rng.choice(['', '', ', print', ' garbage', ', ,', ' {', ' ;', ' and', ', tv and (color)', ' /*c*/']))
        else:
            dyn['queries'].append(soup(MEDIA_WORDS, 7))
        kind = rng.choice(['medialist', 'propertyvalue', 'styletext', 'setprop', 'sheettext'])
        words = {'medialist': MEDIA_WORDS, 'propertyvalue': VALUE_WORDS, 'setprop': VALUE_WORDS,
                 'styletext': DECL_WORDS, 'sheettext': SHEET_WORDS}[kind]
        words = [w for w in words if 'import' not in w]    # no fetcher there
        if rng.random() < 0.5 and kind == 'medialist':
            text = ', '.join(query() for _ in range(rng.randrange(1, 4))) + rng.choice(['', '', '', '', ' garbage', ', ,', ' {', ' ;'])
        elif rng.random() < 0.5 and kind in ('propertyvalue', 'setprop'):
            text = rng.choice([' ', ', ', ' / ']).join(
                rng.choice(['1px', 'red', 'solid', 'url(x)', 'rgb(1,2,3)', '"s"', '#fff', '1.5em', 'calc(1px + 2px)', 'var(x)'])
                for _ in range(rng.randrange(1, 4))) + rng.choice(['', '', '; x', ';', ' }', ' !important', ' ;;', '; y: z'])
        else:
            text = soup(words, 6)
        dyn['constructs'].append([kind, text])
        dyn['inputs'].append(soup(SHEET_WORDS, 7))
    install_generated(dyn)
    return dyn


def install_generated(dyn):
    freeze_static()
    del INPUTS[N_STATIC['inputs']:], QUERIES[N_STATIC['queries']:], CONSTRUCTS[N_STATIC['constructs']:]
    for t in dyn['inputs']:
        INPUTS.append(I('string', t, fetcher='good', href=BASE + 'main.css'))
    for t in dyn['queries']:
        QUERIES.append((t, None, None))
    for k, t in dyn['constructs']:
        CONSTRUCTS.append((k, t, None, None))


# ------------------------------------------------------------------ histories

def battery(nslots):
    """the fixed probe battery (calls naming no earlier object)"""
    b = [('mparse', i) for i in (0, 3, 10, 12, 13, 5, 17, 11, 20, 23)]
    b += [('new', 1), ('parse', nslots, 5), ('parse', nslots, 0), ('parse', nslots, 4), ('parse', nslots, 26)]
    b += [('query', 0), ('query', 4), ('construct', 0), ('construct', 3), ('construct', 7),
          ('edit', 0), ('edit', 2), ('combine', 0), ('mparse', 35), ('mparse', 36)]
    return b


def gen_prefix(rng, n):
    steps = []
    nslots = 0
    for _ in range(n):
        r = rng.random()
        if r < 0.08 or (nslots == 0 and r < 0.2):
            steps.append(('new', rng.choice([0, 1, 1, 2])))
            nslots += 1
        elif r < 0.17:
            steps.append(('set', 'mode', rng.choice([0, 1])))
        elif r < 0.21:
            steps.append(('set', 'prefs', rng.randrange(NPREFS)))
        elif r < 0.23:
            steps.append(('set', 'profiles', rng.randrange(NPROFS)))
        elif r < 0.50 and nslots:
            r2 = rng.random()
            pool = FAULTY if r2 < 0.4 else (range(N_STATIC['inputs'], len(INPUTS)) if r2 < 0.7 and len(INPUTS) > N_STATIC['inputs']
                                            else range(len(INPUTS)))
            steps.append(('parse', rng.randrange(nslots), rng.choice(list(pool))))
        elif r < 0.62:
            pool = [i for i in (FAULTY if rng.random() < 0.5 else NO_FETCH) if i in NO_FETCH]
            steps.append(('mparse', rng.choice(pool)))
        elif r < 0.74:
            steps.append(('query', rng.randrange(len(QUERIES))))
        elif r < 0.86:
            steps.append(('construct', rng.randrange(len(CONSTRUCTS))))
        elif r < 0.94:
            steps.append(('edit', rng.randrange(len(EDITS))))
        else:
            steps.append(('combine', rng.randrange(len(COMBINES))))
    return steps, nslots


def with_battery(prefix, nslots, dense=False):
    if not dense:
        return list(prefix) + battery(nslots)
    out = []
    ns = 0
    for st in prefix:
        out.append(st)
        if st[0] == 'new':
            ns += 1
        if st[0] != 'set':
            b = battery(ns)
            out += b
            ns += 1
    return out


def run_history(steps, mode0, report=None):
    """run one history without any reset between its calls.
    report(kind, index, detail) is called for every oracle failure.
    returns the per-step observations [outcome, result, mode, |saved|, |pushed|, prefs, profiles, ser, nparsers]
    and the steps as the model sees them (flat triples)"""
    # references first (they reset the library), then the history itself
    flags = []
    exp = {'mode': mode0, 'prefs': 0, 'profiles': 0}
    keys = []

    class _S:   # the explicit settings as they will be at each step
        pass
    fake = _S()
    fake.exp = exp
    fake.flags = flags
    for st in steps:
        if st[0] == 'set':
            exp[st[1]] = bool(st[2]) if st[1] == 'mode' else st[2]
            keys.append(None)
        else:
            measure(st)
            if st[0] == 'new':
                flags.append(st[1])
                keys.append(None)
            else:
                keys.append(ref_key(fake, st))
    refs = [reference(k) if k is not None else None for k in keys]
    if VBITS != 7:   # development aid: the mode may drift on an unrepaired tree, have both references at hand
        alt = [reference(k[:-3] + (not k[-3],) + k[-2:]) if k is not None else None for k in keys]

    sess = Session(mode0)
    sess.flags = []
    obs = []
    triples = []
    for i, st in enumerate(steps):
        if st[0] == 'set':
            triples += model_triple(st, sess.flags, None)
            sess.setting(st[1], bool(st[2]) if st[1] == 'mode' else st[2])
            rec = sess.record()
            obs.append([9, 9, int(rec['mode']), len(rec['saved']), len(rec['pushed']), rec['prefs'], rec['profiles'],
                        rec['ser'], len(sess.slots)])
            continue
        before = sess.record()
        if st[0] == 'new':
            sess.flags.append(st[1])
        triples += model_triple(st, sess.flags, before['mode'])
        if VBITS != 7 and keys[i] is not None and before['mode'] != keys[i][-3]:
            refs[i] = alt[i]
        res, oc, exc = evaluate(sess, st)
        rec = sess.record()
        how = 'raised %s' % res[1] if exc is not None else 'returned'
        # ---- oracles, stated on the implementation only
        if report is not None:
            if rec['mode'] != before['mode']:
                kind = 'mode-after-exception' if exc is not None else 'mode-after-return'
                report(kind, i, 'cssutils.log.raiseExceptions was %r before step %d %s and is %r after it %s'
                       % (before['mode'], i, describe(st), rec['mode'], how))
                if VBITS == 7:
                    import cssutils
                    cssutils.log.raiseExceptions = sess.exp['mode']   # keep later reports independent
                else:
                    sess.exp['mode'] = rec['mode']
            if (rec['prefs'], rec['ser'], rec['prefs_dict']) != (before['prefs'], before['ser'], before['prefs_dict']):
                report('serializer-not-restored', i, 'step %d %s (%s) changed the global serializer or its preferences: '
                       'preference configuration %r -> %r, serializer object replaced: %r'
                       % (i, describe(st), how, before['prefs'], rec['prefs'], rec['ser'] != before['ser']))
            if (rec['profiles'], rec['profile_obj'], rec['profile_names']) != (before['profiles'], before['profile_obj'], before['profile_names']):
                report('profiles-changed', i, 'step %d %s (%s) changed the validation profiles' % (i, describe(st), how))
            if not rec['enabled']:
                report('log-disabled', i, 'cssutils.log.enabled left False after step %d %s' % (i, describe(st)))
            if refs[i] is not None and res != refs[i]:
                report('history-dependent-result', i,
                       'step %d %s gave %s; the same call in a fresh state with the same explicit settings gives %s '
                       '(pending tokens before the call: savedTokens=%r _pushed=%r)'
                       % (i, describe(st), short(res), short(refs[i]), before['saved'], before['pushed']))
        good = 0 if (refs[i] is None or res == refs[i]) else 1
        rcode = good if oc == 0 else (2 if oc == 1 else oc + 1)
        obs.append([oc, rcode, int(rec['mode']), len(rec['saved']), len(rec['pushed']), rec['prefs'], rec['profiles'], rec['ser'], len(sess.slots)])
    return obs, triples


def short(x):
    s = json.dumps(x)
    return s if len(s) < 300 else s[:300] + '…'


def describe(st):
    k = st[0]
    if k == 'new':
        return 'CSSParser(raiseExceptions=%r)' % {0: None, 1: True, 2: False}[st[1]]
    if k in ('parse', 'mparse'):
        inp = INPUTS[st[-1]]
        who = 'parser#%d' % st[1] if k == 'parse' else 'cssutils'
        return '%s.parse%s(%r%s%s)' % (who, inp['method'].capitalize(), inp['arg'],
                                        ''.join(', %s=%r' % kv for kv in inp['kw'].items()),
                                        ', fetcher=%s' % inp['fetcher'] if inp['fetcher'] else '')
    if k == 'query':
        return 'MediaQuery(%r)' % QUERIES[st[1]][0]
    if k == 'construct':
        return '%s(%r)' % CONSTRUCTS[st[1]][:2]
    if k == 'edit':
        return '%s(%r)' % EDITS[st[1]][:2]
    if k == 'combine':
        inp = COMBINES[st[1]]
        return 'csscombine(%r%s)' % (inp['arg'], ''.join(', %s=%r' % kv for kv in inp['kw'].items()))
    return 'set %s=%r' % (st[1], st[2])


def shrink(steps, mode0, kind, budget=80):
    """greedy removal of steps while a failure of the same kind remains"""
    def fails(s):
        hits = []
        try:
            run_history(s, mode0, report=lambda k, i, d: hits.append((k, i, d)))
        except Exception:   # a removal may orphan a parser slot
            return None
        for h in hits:
            if h[0] == kind:
                return h
        return None

    cur = list(steps)
    best = fails(cur)
    if best is None:
        return steps, None
    cur = cur[:best[1] + 1]
    i = len(cur) - 2
    while i >= 0 and budget > 0:
        budget -= 1
        cand = cur[:i] + cur[i + 1:]
        if cur[i][0] == 'new':
            # removing a parser shifts the slots of later parse steps
            slot = sum(1 for s in cur[:i] if s[0] == 'new')
            if any(s[0] == 'parse' and s[1] == slot for s in cur[i + 1:]):
                i -= 1
                continue
            cand = [(s[0], s[1] - 1, s[2]) if (s[0] == 'parse' and s[1] > slot and j >= i) else s
                    for j, s in enumerate(cand)]
        h = fails(cand)
        if h is not None:
            cur, best = cand[:h[1] + 1], h
            i = min(i, len(cur) - 1)
        i -= 1
    return cur, best


DYN = {'inputs': [], 'queries': [], 'constructs': []}   # the generated part of the tables of this run


def fresh_run(jobs):
    """run each (steps, mode0) in its own brand-new interpreter; returns list of observations+results"""
    procs = []
    for steps, mode0 in jobs:
        p = subprocess.Popen([core.PY, '-m', 'harness.props.c12', '--fresh'], stdin=subprocess.PIPE, stdout=subprocess.PIPE,
                             stderr=subprocess.DEVNULL, text=True, env=core.ENV, cwd=core.VERIF)
        p.stdin.write(json.dumps({'steps': steps, 'mode0': mode0, 'dyn': DYN}))
        p.stdin.close()
        procs.append(p)
    outs = []
    for p in procs:
        data = p.stdout.read()
        p.wait()
        try:
            outs.append(json.loads(data[data.index('{"fresh"'):]))
        except Exception:
            outs.append(None)
    return outs


def results_only(steps, mode0):
    """the canonical results of each library call of a history, run here and now without reset
    (used inside a fresh interpreter)"""
    sess = Session.__new__(Session)
    import cssutils
    import logging
    cssutils.log.setLevel(logging.FATAL)
    cssutils.log.raiseExceptions = bool(mode0)
    sess.ser = cssutils.ser
    sess.profile = cssutils.profile
    sess.profnames = list(cssutils.profile.profiles)
    sess.slots = []
    sess.exp = {'mode': bool(mode0), 'prefs': 0, 'profiles': 0}
    out = []
    for st in steps:
        if st[0] == 'set':
            sess.setting(st[1], bool(st[2]) if st[1] == 'mode' else st[2])
            out.append(None)
        else:
            out.append(evaluate(sess, tuple(st))[0])
    return out


def jl(steps):
    return [list(s) for s in steps]


# ------------------------------------------------------------------ run

def run(ctx):
    quick = ctx.tier == 'quick'
    ensure_files()
    rng = ctx.rng
    nh, maxlen, ndense, nfresh, ngen = (420, 24, 16, 6, 60) if quick else (6000, 60, 400, 48, 600)
    DYN.update(add_generated(rng, ngen))
    check_tables(ctx)
    ctx.cov['rule'] = ('call histories without reset between calls: parser construction (3 argument values), parse{String,Style,File,Url} on '
                       'long-lived and fresh parsers over %d inputs (%d with injected faults: undecodable bytes, unknown codec, missing file, '
                       'raising/empty/undecodable fetcher, fetcher raising inside @import, syntax errors under a raising parser), %d standalone '
                       'media queries, %d production-parser constructions, %d selector edits, %d csscombine calls, explicit mode/preference/profile '
                       'settings; each followed by a %d-call probe battery (dense histories: battery after every call); distinct = distinct history; '
                       'non-trivial = contains at least one fault or leftover-producing call'
                       '; the tables include %d generated sheet texts, media queries and value/declaration/sheet fragments each'
                       % (len(INPUTS), len(FAULTY), len(QUERIES), len(CONSTRUCTS), len(EDITS), len(COMBINES), len(battery(0)), ngen))
    tokenizer_macros_family(ctx)
    registry_paths_family(ctx)
    serialiser_fault_family(ctx)
    histories = []
    # directed histories first: every single fault / construction followed by the battery, in both modes
    singles = ([('mparse', i) for i in NO_FETCH] + [('query', i) for i in range(N_STATIC['queries'])]
               + [('construct', i) for i in range(N_STATIC['constructs'])] + [('edit', i) for i in range(len(EDITS))]
               + [('combine', i) for i in range(len(COMBINES))])
    for mode0 in (True, False):
        for kprof in range(NPROFS):
            histories.append((with_battery([('set', 'profiles', kprof)], 0), mode0, True))
        for c in singles:
            histories.append((with_battery([c], 0), mode0, True))
        for flag in (0, 1, 2):
            for i in range(N_INPUTS_STATIC):
                # ... and the same parser object used again afterwards
                histories.append((with_battery([('new', flag), ('parse', 0, i), ('parse', 0, 34), ('parse', 0, 20), ('parse', 0, 0)], 1), mode0, True))
            # a long-lived parser called after the caller changed the mode
            for i in (0, 5, 6):
                histories.append((with_battery([('new', flag), ('set', 'mode', int(not mode0)), ('parse', 0, i), ('parse', 0, i)], 1), mode0, True))
    for _ in range(nh):
        prefix, ns = gen_prefix(rng, rng.randrange(1, maxlen))
        histories.append((with_battery(prefix, ns), rng.random() < 0.6, any_fault(prefix)))
    for _ in range(ndense):
        prefix, ns = gen_prefix(rng, rng.randrange(1, 10))
        histories.append((with_battery(prefix, ns, dense=True), rng.random() < 0.6, any_fault(prefix)))

    model_cases, wants, cases = [], [], []
    reported = set()
    for steps, mode0, nontrivial in histories:
        hits = []
        obs, triples = run_history(steps, mode0, report=lambda k, i, d: hits.append((k, i, d)))
        ctx.case((tuple(steps), mode0), nontrivial)
        ctx.count('calls', len(steps))
        for kind in sorted(set(h[0] for h in hits)):
            if kind in reported:
                ctx.count('repeat:' + kind)
                continue
            reported.add(kind)
            small, h = shrink(steps, mode0, kind)
            if h is None:
                h = [x for x in hits if x[0] == kind][0]
                small = steps[:h[1] + 1]
            ctx.violation(kind, {'mode0': mode0, 'history': jl(small), 'readable': [describe(s) for s in small], 'dyn': DYN},
                          h[2], KNOWN_PRED)
        if not hits or VBITS != 7:
            model_cases.append([120, VBITS, int(mode0)] + triples)
            wants.append(obs)
            cases.append({'mode0': mode0, 'history': jl(steps)})
    if cases:
        ctx.sample({'mode0': cases[-1]['mode0'], 'readable': [describe(tuple(s)) for s in cases[-1]['history']][:12]})

    # ---- fresh interpreters: the battery alone, and whole histories, must give what they gave here
    jobs = [(jl(battery(0)), True), (jl(battery(0)), False)]
    pick = [h for h in histories[len(histories) - nh - ndense:]][:nfresh]
    jobs += [(jl(s), m) for s, m, _ in pick]
    outs = fresh_run(jobs)
    nfresh_ok = 0
    for (steps, mode0), o in zip(jobs, outs):
        if o is None:
            ctx.broken.append(('fresh-process', 'no result from the fresh interpreter'))
            continue
        here = json.loads(json.dumps(results_only_inprocess(steps, mode0)))
        if here == o['fresh']:
            nfresh_ok += 1
        else:
            k = next(i for i, (a, b) in enumerate(zip(here, o['fresh'])) if a != b)
            if 'fresh-process-differs' not in reported:
                reported.add('fresh-process-differs')
                ctx.violation('fresh-process-differs', {'mode0': mode0, 'history': steps[:k + 1], 'dyn': DYN,
                                                        'readable': [describe(tuple(s)) for s in steps[:k + 1]]},
                              'step %d %s gives %s in a fresh interpreter and %s in this process after a reset'
                              % (k, describe(tuple(steps[k])), short(o['fresh'][k]), short(here[k])), KNOWN_PRED)
    ctx.extra['fresh_process_runs'] = {'jobs': len(jobs), 'agree': nfresh_ok}

    # ---- correspondence
    if ctx.model.available:
        outs = ctx.model.run(model_cases)
        agree = 0
        for want, o, case in zip(wants, outs, cases):
            flat = [x for rec in want for x in rec]
            if o == flat:
                agree += 1
            else:
                k = next((i for i in range(len(want)) if (o or [])[9 * i:9 * i + 9] != want[i]), 0)
                ctx.disagree('globals', {'mode0': case['mode0'], 'history': case['history'][:k + 1],
                                         'step': describe(tuple(case['history'][k]))},
                             want[k], (o or [])[9 * k:9 * k + 9])
        ctx.extra['correspondence'] = {'histories': len(cases), 'agree': agree, 'variant_bits': VBITS,
                                       'record': 'outcome result mode |saved| |pushed| prefs profiles ser nparsers'}
    else:
        ctx.broken.append(('correspondence', 'extracted model not available'))


def any_fault(prefix):
    """does the prefix contain a call that ends in an exception somewhere, or leaves tokens pending"""
    for s in prefix:
        if s[0] in ('parse', 'mparse') and input_attr('parse', s[-1])[1] & 31:
            return True
        if s[0] in ('query', 'construct'):
            a = text_attr(s)
            if not a[True][0] or a[False][1] or a[False][2]:
                return True
        if s[0] == 'combine' and input_attr('combine', s[1])[0] & 31:
            return True
    return False


def results_only_inprocess(steps, mode0):
    """same as results_only but in this (used) process after a reset"""
    from harness import impl
    impl.reset(bool(mode0))
    impl.fresh_profiles()
    return results_only([tuple(s) for s in steps], mode0)


def registry_paths_family(ctx):
    """the verdicts of a profile registry depend on what is registered, not on the calls that registered it (addProfile vs
    addProfiles, one by one vs in bulk) nor on unrelated registrations made and undone in between.  Search only."""
    import cssutils
    from cssutils.profiles import Profiles
    from harness import impl
    X = ('x-c12c', {'x-c12-m': '{margin-width}'}, {'margin-width': 'x-fill|{length}'})
    Y = ('x-c12d', {'x-c12-n': '{num}'}, {'num': r'[0-7]+'})
    Z = ('x-c12e', {'x-c12-z': 'z'}, {})
    battery = [('margin', 'x-fill 0'), ('margin', '9px 8px'), ('width', '9px'), ('width', '7px'), ('x-c12-m', 'x-fill'), ('x-c12-n', '9'), ('x-c12-n', '7'),
               ('z-index', '9'), ('color', 'red')]

    def verdicts(P):
        return [P.validateWithProfile(n_, v_)[:2] for n_, v_ in battery]
    builds = {
        'addProfile X, Y': lambda P: (P.addProfile(*X), P.addProfile(*Y)),
        'addProfiles [X, Y]': lambda P: P.addProfiles([X, Y]),
        'addProfiles [X]; addProfiles [Y]': lambda P: (P.addProfiles([X]), P.addProfiles([Y])),
        'addProfile Y, X': lambda P: (P.addProfile(*Y), P.addProfile(*X)),
        'addProfiles [X, Y]; add and remove Z': lambda P: (P.addProfiles([X, Y]), P.addProfile(*Z), P.removeProfile(Z[0])),
        'add Z; addProfiles [X, Y]; remove Z': lambda P: (P.addProfile(*Z), P.addProfiles([X, Y]), P.removeProfile(Z[0])),
    }
    ref = None
    for name, build in builds.items():
        impl.reset()
        ctx.case(('registry-path', name))
        try:
            P = Profiles(log=cssutils.log)
            build(P)
            got = verdicts(P)
        except Exception as e:  # noqa
            ctx.violation('raises', {'family': 'registry-paths', 'build': name}, '%s: %s' % (type(e).__name__, e), KNOWN_PRED)
            continue
        if ref is None:
            ref = (name, got)
        elif got != ref[1]:
            diff = [(battery[i], ref[1][i], got[i]) for i in range(len(battery)) if got[i] != ref[1][i]]
            ctx.violation('history-dependent-result', {'family': 'registry-paths', 'build': name, 'reference_build': ref[0]},
                          'same registered profiles, different verdicts (pair, reference, this build): %r' % diff, KNOWN_PRED)


def serialiser_fault_family(ctx):
    """a serialisation that ends in an exception (raised by a user callable or a DOM object of the user's, at any nesting
    depth) leaves the shared serialiser as it was: the probe sheets serialise as before once the preferences and profiles
    are back.  Search only."""
    import cssutils
    from harness import impl
    probes = ['a{color:red;left:0} b{top:1px}', '@media print{a{color:red} @page{margin:0}} c{d:e}', '@page :left{margin:1px;@top-left{content:"x"}} a{b:c}',
              '@font-face{font-family:x;src:url(a)} a{b:c}', '@variables{x:1px} a{left:var(x)}']

    class Fault(Exception):
        pass

    def battery():
        out = []
        for t in probes:
            sh = cssutils.parseString(t)
            out.append((sh.cssText, [r.cssText for r in sh.cssRules], sh.cssRules[0].cssText))
        out.append(cssutils.parseStyle('color:red;left:0').cssText)
        return out

    def raising_validator(v):
        raise Fault('validator')

    def f_validonly(text):
        def run():
            cssutils.profile.addProfile('x-c12-fault', {'x-c12-f': raising_validator})
            cssutils.ser.prefs.validOnly = True
            try:
                sh = cssutils.parseString(text, validate=False)
                sh.cssRules[0].validating = True if hasattr(sh.cssRules[0], 'validating') else None
                for r in sh.cssRules:
                    for st in ([r.style] if hasattr(r, 'style') else []) + [x.style for x in getattr(r, 'cssRules', []) if hasattr(x, 'style')]:
                        st.validating = True
                sh.cssText
            finally:
                cssutils.ser.prefs.useDefaults()
                cssutils.profile.removeProfile('x-c12-fault')
        return run

    def f_sabotaged(text, what):
        def run():
            sh = cssutils.parseString(text)
            rules = [r for r in sh.cssRules] + [x for r in sh.cssRules for x in getattr(r, 'cssRules', [])]
            victim = [r for r in rules if hasattr(r, 'style') and r.style.length][-1]
            prop = victim.style.getProperties()[0]

            class Bad(type(prop)):
                pass
            setattr(Bad, what, property(lambda self: (_ for _ in ()).throw(Fault(what))))
            prop.__class__ = Bad
            (sh.cssText if what != 'rule' else victim.cssText)
        return run

    def f_pref(text, name, value):
        def run():
            setattr(cssutils.ser.prefs, name, value)
            try:
                cssutils.parseString(text).cssText
            finally:
                cssutils.ser.prefs.useDefaults()
        return run
    faults = {}
    for t in ('a{x-c12-f:1;color:red}', '@media print{a{x-c12-f:1}}', '@page{x-c12-f:1;@top-left{x-c12-f:2}}'):
        faults['raising validator, validOnly: ' + t] = f_validonly(t)
    for t in ('a{color:red}', '@media tv{a{color:red}}', '@media tv{@media print{a{color:red}}}', '@page{margin:0;@top-left{color:red}}', '@font-face{font-family:x}'):
        for what in ('propertyValue', 'name', 'priority', 'literalname', 'cssText'):
            faults['property.%s raises: %s' % (what, t)] = f_sabotaged(t, what)
        for name, value in (('indent', None), ('propertyNameSpacer', None), ('lineSeparator', None), ('listItemSpacer', 5), ('indentClosingBrace', Fault)):
            faults['prefs.%s=%r: %s' % (name, value, t)] = f_pref(t, name, value)
    impl.reset(raise_exceptions=True)
    impl.fresh_profiles()
    ref = battery()
    raised = 0
    for name, run in faults.items():
        for mode in (True, False):
            impl.reset(raise_exceptions=mode)
            ctx.case(('serialiser-fault', name, mode))
            try:
                run()
                hit = False
            except Exception:   # noqa: BLE001 - the injected fault or what it caused
                hit = True
            raised += hit
            impl_mode = cssutils.log.raiseExceptions
            cssutils.log.raiseExceptions = True
            try:
                got = battery()
            except Exception as e:   # noqa: BLE001
                got = 'raised %s: %s' % (type(e).__name__, e)
            if got != ref:
                d = next((i for i, (a, b) in enumerate(zip(ref, got)) if a != b), None) if isinstance(got, list) else None
                ctx.violation('history-dependent-result', {'family': 'serialiser-fault', 'fault': name, 'raising_mode': mode, 'fault_raised': hit},
                              'the probe battery after the failed serialisation differs: %r, before %r' % (
                                  got[d] if d is not None else got, ref[d] if d is not None else None), KNOWN_PRED)
                impl.reset()
                import importlib   # a fresh serialiser for the next fault
                cssutils.ser._level = 0
            if impl_mode != mode:
                ctx.violation('error-mode-not-restored', {'family': 'serialiser-fault', 'fault': name, 'raising_mode': mode}, 'raiseExceptions is %r afterwards' % impl_mode, KNOWN_PRED)
    ctx.extra['serialiser_faults'] = {'faults': len(faults) * 2, 'raised': raised}
    impl.reset()
    impl.fresh_profiles()


def tokenizer_macros_family(ctx):
    """Tokenizer objects built with their own macro tables (the documented macros= / productions= arguments): what a
    tokenizer returns depends on ITS tables, not on which other tokenizers were built before.  Search only."""
    import copy
    import itertools
    from cssutils import tokenize2, cssproductions
    std = dict(cssproductions.MACROS)
    dollar = dict(std)
    dollar['nmstart'] = std['nmstart'].replace('[_a-z', '[_a-z$', 1) if '[_a-z' in std['nmstart'] else '[$]|' + std['nmstart']
    wide = dict(std)
    wide['nmchar'] = std['nmchar'].replace('[_a-z', '[_a-z!', 1) if '[_a-z' in std['nmchar'] else '[!]|' + std['nmchar']
    tables = {'standard': std, 'dollar': dollar, 'bang': wide}
    text = '$main a!b c'

    def toks(name):
        t = tokenize2.Tokenizer(macros=copy.deepcopy(tables[name]), productions=cssproductions.PRODUCTIONS)
        return [(a, b) for a, b, _, _ in t.tokenize(text)]
    alone = {}
    for order in itertools.permutations(tables):
        seen = {}
        for name in order + order:
            ctx.case(('tokenizer-macros', order, name, len(seen)))
            try:
                got = toks(name)
            except Exception as e:  # noqa
                ctx.violation('raises', {'family': 'tokenizer-macros', 'order': list(order), 'table': name}, '%s: %s' % (type(e).__name__, e), KNOWN_PRED)
                continue
            first = alone.setdefault(name, got)
            if got != first:
                ctx.violation('history-dependent-result', {'family': 'tokenizer-macros', 'order': list(order), 'table': name, 'text': text},
                              'Tokenizer(macros=%s) gave %r, the first tokenizer with these tables gave %r' % (name, got, first), KNOWN_PRED)
    if len({repr(v) for v in alone.values()}) < 2:
        ctx.violation('history-dependent-result', {'family': 'tokenizer-macros', 'text': text},
                      'the three macro tables give the same tokens %r: the tables are not used' % (alone,), KNOWN_PRED)


def replay(path):
    d = json.load(open(path))
    case = d.get('case', d)
    ensure_files()
    install_generated(case.get('dyn') or DYN)
    print(json.dumps({k: d.get(k) for k in ('property', 'kind', 'detail')}, indent=1))
    if 'history' not in case:
        print(json.dumps(d, indent=1)[:3000])
        return 0
    steps = [tuple(s) for s in case['history']]
    for i, s in enumerate(steps):
        print('%2d  %s' % (i, describe(s)))
    hits = []
    DYN.update(case.get('dyn') or DYN)
    run_history(steps, bool(case.get('mode0', True)), report=lambda k, i, dd: hits.append((k, i, dd)))
    for h in hits:
        print('FAIL %s: %s' % (h[0], h[2]))
    if d.get('kind') == 'fresh-process-differs':
        o = fresh_run([(jl(steps), case.get('mode0', True))])[0]
        here = results_only_inprocess(steps, case.get('mode0', True))
        if o is None or o['fresh'] != here:
            print('FAIL fresh-process-differs')
            return 1
    print('reproduced' if hits else 'not reproduced')
    return 1 if hits else 0


if __name__ == '__main__':
    if '--fresh' in sys.argv:
        job = json.load(sys.stdin)
        ensure_files()
        install_generated(job.get('dyn') or DYN)
        r = results_only([tuple(s) for s in job['steps']], job['mode0'])
        print(json.dumps({'fresh': r}))
