"""abstract stylesheets, their concrete spellings, and the semantic projection of
a parsed DOM onto the same abstract form.

AST (all plain tuples):
  sheet  = [rule]
  rule   = ('charset', enc) | ('import', href, how, [medium], name) | ('namespace', prefix, uri)
         | ('style', [selector], [decl]) | ('media', [mquery], [rule]) | ('page', pseudo, [decl], [(margin, [decl])])
         | ('font-face', [decl]) | ('unknown', keyword, prelude, block) | ('comment', text)
  decl   = (name, value, important)          value = [(sep, comp)], sep in ('', ' ', ',', '/')
  comp   = ('ident', s) | ('num', sign, int, frac, unit) | ('str', s) | ('url', s) | ('hash', hex)
         | ('func', name, value) | ('rgb', name, [comp]) | ('urange', s)
  selector = [(combinator, compound)], compound = (element, [simple])
  simple = ('id', s) | ('class', s) | ('attr', name, op, val) | ('pc', name) | ('pe', name, colons)
         | ('fpc', name, arg) | ('not', simple)
A spelling is the rng state: whitespace, comments, letter case of the
case-insensitive parts, quote style, escapes of name characters."""
from fractions import Fraction

IDENTS = ['red', 'blue', 'none', 'auto', 'bold', 'inherit', 'sans-serif', 'x-y', 'a1']
PROPS = ['color', 'margin', 'top', 'left', 'background', 'font', 'content', 'width', 'border-left-width', 'x-unknown', 'src']
UNITS = ['px', 'em', 'ex', 'pt', 'cm', 'mm', 'in', 'pc', 'deg', 's', 'ms', 'hz', 'khz', '%', '']
TYPES = ['a', 'b', 'div', 'p', 'h1', 'li', 'x-y']
NAMES = ['a', 'b1', 'c-d', 'e_f', 'warn', 'x']
PCLASS = ['hover', 'first-child', 'link', 'focus', 'root']
PELEM = ['before', 'after', 'first-line']
FPC = [('lang', 'en'), ('nth-child', '2n+1'), ('nth-child', 'odd'), ('nth-of-type', '3')]
MEDIA = ['all', 'braille', 'embossed', 'handheld', 'print', 'projection', 'screen', 'speech', 'tty', 'tv']
MARGINS = ['@top-left', '@top-center', '@bottom-right', '@left-middle']
# letter case of ':not(' is varied only once the selector regrouping normalises it (finding C16-not-case)
CASE_OF_NOT = True
STRCH = list('abc xyz019;{}()/*@#.,:-_%!') + ["'", '"', 'ä', '中', '\n']


def pick(rng, xs):
    return xs[rng.randrange(len(xs))]


# ------------------------------------------------------------------ generation

def gen_comp(rng, depth=0):
    k = rng.randrange(12)
    if k < 2:
        return ('ident', pick(rng, IDENTS))
    if k < 6:
        sign = pick(rng, ['', '', '', '-', '+'])
        ip = pick(rng, ['0', '1', '7', '12', '100', '007', ''])
        fr = pick(rng, ['', '', '5', '25', '125', '0', '50', '000001'])
        if not ip and not fr:
            ip = '3'
        return ('num', sign, ip, fr, pick(rng, UNITS))
    if k == 6:
        return ('str', ''.join(pick(rng, STRCH) for _ in range(rng.randrange(0, 6))))
    if k == 7:
        return ('url', ''.join(pick(rng, list('abc/._-~019 ()\'",?#=&') + ['ä']) for _ in range(rng.randrange(1, 8))))
    if k == 8:
        n = pick(rng, [3, 6])
        return ('hash', ''.join(pick(rng, '0123456789abcdefABCDEF') for _ in range(n)))
    if k == 9 and depth < 2:
        args = []
        for i in range(rng.randrange(1, 3)):
            a = gen_comp(rng, depth + 1)
            while a[0] in ('urange', 'hash', 'rgb', 'url', 'func'):
                a = gen_comp(rng, depth + 1)
            args.append(('' if i == 0 else pick(rng, [' ', ',']), a))
        return ('func', pick(rng, ['f', 'counter', 'attr', 'my-fn']), args)
    if k == 10:
        if rng.random() < 0.5:
            return ('rgb', 'rgb', [('num', '', str(rng.randrange(256)), '', '') for _ in range(3)])
        return ('rgb', 'rgba', [('num', '', str(rng.randrange(256)), '', '') for _ in range(3)] +
                [('num', '', '0', pick(rng, ['5', '25', '']), '')])
    if k == 11:
        return ('urange', pick(rng, ['u+0-7f', 'u+4??', 'u+a5', 'u+1f600-1f64f']))
    return ('ident', pick(rng, IDENTS))


def gen_value(rng, depth=0, maxlen=4):
    n = rng.randrange(1, maxlen + 1)
    out = []
    for i in range(n):
        sep = '' if i == 0 else pick(rng, [' ', ' ', ' ', ',', '/'])
        out.append((sep, gen_comp(rng, depth)))
    return out


def gen_decl(rng):
    return (pick(rng, PROPS), gen_value(rng), rng.random() < 0.2)


def gen_simple(rng, allow_not=True):
    k = rng.randrange(8)
    if k == 0:
        return ('id', pick(rng, NAMES))
    if k in (1, 2):
        return ('class', pick(rng, NAMES))
    if k == 3:
        op = pick(rng, ['', '=', '~=', '|=', '^=', '$=', '*='])
        return ('attr', pick(rng, NAMES), op, pick(rng, ['v', 'a b', 'x-1']) if op else '')
    if k == 4:
        return ('pc', pick(rng, PCLASS))
    if k == 5:
        return ('pe', pick(rng, PELEM), pick(rng, [1, 2]))
    if k == 6:
        return ('fpc',) + pick(rng, FPC)
    if allow_not:
        inner = gen_simple(rng, allow_not=False)
        while inner[0] == 'pe':
            inner = gen_simple(rng, allow_not=False)
        return ('not', inner if rng.random() < 0.7 else ('type', pick(rng, TYPES)))
    return ('class', pick(rng, NAMES))


def gen_selector(rng):
    out = []
    for i in range(rng.randrange(1, 4)):
        comb = '' if i == 0 else pick(rng, [' ', '>', '+', '~'])
        el = pick(rng, TYPES + ['*', ''])
        simples = [gen_simple(rng) for _ in range(rng.randrange(0, 3))]
        # a pseudo-element must be last
        simples = [s for s in simples if s[0] != 'pe'] + [s for s in simples if s[0] == 'pe'][:1]
        if not el and not simples:
            el = 'a'
        out.append((comb, (el, simples)))
    # pseudo-elements only in the last compound
    out = [(c, (e, [s for s in ss if s[0] != 'pe'] if i < len(out) - 1 else ss)) for i, (c, (e, ss)) in enumerate(out)]
    out = [(c, (e or ('a' if not ss else ''), ss)) for c, (e, ss) in out]
    return out


def gen_mquery(rng):
    mt = pick(rng, MEDIA)
    if rng.random() < 0.45:
        return (None, mt, [])
    if rng.random() < 0.3:
        return (pick(rng, ['only', 'not']), mt, [])      # prefixed, no features: not a simple type
    feats = [(pick(rng, ['min-width', 'max-width', 'min-height', 'color', 'orientation']),) for _ in range(rng.randrange(1, 3))]
    feats = [(f[0], {'orientation': 'landscape', 'color': None}.get(f[0], '%dpx' % rng.randrange(100, 999))) for f in feats]
    return (pick(rng, [None, None, 'only', 'not']), mt, feats)


def gen_rule(rng, level):
    """level 3 rules (style/media/page/font-face/unknown/comment)"""
    k = rng.randrange(10)
    if k < 5:
        return ('style', [gen_selector(rng) for _ in range(rng.randrange(1, 3))],
                [gen_decl(rng) for _ in range(rng.randrange(1, 4))])
    if k == 5 and level < 2:
        qs = [gen_mquery(rng) for _ in range(rng.randrange(1, 4))]
        if rng.random() < 0.3:
            # the same media type twice, in different forms: only identical simple types are merged
            q = qs[0]
            qs.append(pick(rng, [(None, q[1], []), ('not', q[1], []), (None, q[1], [('color', None)])]))
        return ('media', qs, [gen_rule(rng, level + 1) for _ in range(rng.randrange(1, 3))])
    if k == 6 and level == 0:
        margins = [(pick(rng, MARGINS), [gen_decl(rng)]) for _ in range(rng.randrange(0, 2))]
        return ('page', pick(rng, ['', ':first', ':left', ':right']), [gen_decl(rng) for _ in range(rng.randrange(0, 3))], margins)
    if k == 7 and level == 0:
        return ('font-face', [('font-family', [('', ('str', 'F'))], False), ('src', [('', ('url', 'f.ttf'))], False)])
    if k == 8:
        return ('comment', ''.join(pick(rng, list('ab c*/{};"\'x\n')) for _ in range(rng.randrange(0, 8))).replace('*/', '* /'))
    if k == 9 and level == 0:
        return ('unknown', '@' + pick(rng, ['foo', 'x-bar', 'keyframes']), pick(rng, ['x', 'a b', '"s"']), pick(rng, [None, 'y', 'a{b:c}']))
    return ('style', [gen_selector(rng)], [gen_decl(rng)])


def gen_sheet(rng, nrules=4):
    out = []
    if rng.random() < 0.2:
        out.append(('charset', 'utf-8'))
    for _ in range(rng.randrange(0, 2)):
        media = rng.sample(MEDIA[1:], rng.randrange(0, 3))
        out.append(('import', pick(rng, ['a.css', 'sub/b.css', 'http://h/c.css']), pick(rng, ['uri', 'string']), media, None))
    if rng.random() < 0.15:
        out.append(('namespace', pick(rng, [None, 'p']), 'http://ns/' + pick(rng, 'ab')))
    for _ in range(rng.randrange(1, nrules + 1)):
        out.append(gen_rule(rng, 0))
    return out


# ------------------------------------------------------------------ rendering

class Spelling:
    """all spelling decisions; canonical=True gives the plain rendering"""

    def __init__(self, rng, canonical=False, comments=True, escapes=True, value_ident_escapes=False):
        self.rng, self.canonical, self.comments, self.escapes = rng, canonical, comments, escapes
        # simple (non-hex) escapes inside value keywords: cssutils keeps the backslash (finding C02-value-ident-simple-escape)
        self.value_ident_escapes = value_ident_escapes
        self.used_value_ident_escape = False

    def ws(self, required=False):
        if self.canonical:
            return ' ' if required else ''
        r = self.rng.random()
        if r < 0.35:
            out = ' ' if required else ''
        elif r < 0.6:
            out = ' '
        elif r < 0.75:
            out = pick(self.rng, ['\n', '\t', '  ', '\r\n', ' \n ', '\f'])
        elif self.comments:
            out = pick(self.rng, ['/**/', ' /* c */ ', '/*x*/ ']) if not required else pick(self.rng, [' /**/', '/**/ ', ' /*c*/ '])
        else:
            out = ' '
        return out

    def ws_nc(self):
        """white space where a comment would be a construct of its own"""
        if self.canonical:
            return ''
        return pick(self.rng, ['', ' ', '\n', '\t ', '\r\n', ' \n'])

    def case(self, s):
        """spell a case-insensitive word"""
        if self.canonical:
            return s
        r = self.rng.random()
        if r < 0.5:
            return s
        if r < 0.7:
            return s.upper()
        return ''.join(c.upper() if self.rng.random() < 0.5 else c for c in s)

    def case_not(self, s):
        return self.case(s) if CASE_OF_NOT else s

    def name(self, s, ci=False, simple_escapes=True):
        """a name: optional escapes of ordinary name characters (never changing its meaning)"""
        if ci:
            s = self.case(s)
        if self.canonical or not self.escapes or self.rng.random() < 0.8:
            return s
        out = ''
        for i, c in enumerate(s):
            if simple_escapes and self.rng.random() < 0.25 and c.isalpha() and c not in 'abcdefABCDEF':
                out += '\\' + c            # simple escape of a non-hex letter
                if simple_escapes == 'flag':
                    self.used_value_ident_escape = True
            elif self.rng.random() < 0.15 and c.isalnum():
                out += '\\%x ' % ord(c)    # hex escape with terminator
            else:
                out += c
        return out

    def quote(self):
        return '"' if self.canonical else pick(self.rng, ['"', "'"])


def r_string(sp, s):
    q = sp.quote()
    out = ''
    for c in s:
        if c == q or c == '\\':
            out += '\\' + c
        elif c == '\n':
            out += '\\a '
        else:
            out += c
    return q + out + q


def r_comp(sp, c):
    k = c[0]
    if k == 'ident':
        return sp.name(c[1], simple_escapes=('flag' if sp.value_ident_escapes else False))
    if k == 'num':
        _, sign, ip, fr, unit = c
        return sign + ip + ('.' + fr if fr else '') + (sp.name(unit, ci=True) if unit != '%' else '%')
    if k == 'str':
        return r_string(sp, c[1])
    if k == 'url':
        u = c[1]
        plain = all(ch not in ' ()\'",\\' and ord(ch) > 32 for ch in u) and u
        head = sp.case('url') + '('
        if plain and (sp.canonical or sp.rng.random() < 0.5):
            return head + sp.ws() .replace('/**/', ' ').replace('/* c */', ' ').replace('/*x*/', ' ') + u + ')'
        return head + r_string(sp, u) + ')'
    if k == 'hash':
        return '#' + c[1]
    if k == 'func':
        return sp.name(c[1], ci=True) + '(' + sp.ws() + r_value(sp, c[2]) + sp.ws() + ')'
    if k == 'rgb':
        return sp.case(c[1]) + '(' + (sp.ws() + ',' + sp.ws()).join(r_comp(sp, x) for x in c[2]) + ')'
    if k == 'urange':
        return sp.case(c[1])
    raise AssertionError(c)


def r_value(sp, v):
    out = ''
    for sep, comp in v:
        if sep == ' ':
            out += sp.ws(required=True)
        elif sep in (',', '/'):
            out += sp.ws() + sep + sp.ws()
        out += r_comp(sp, comp)
    return out


def r_decl(sp, d):
    name, value, imp = d
    s = sp.name(name, ci=True) + sp.ws() + ':' + sp.ws() + r_value(sp, value)
    if imp:
        s += sp.ws() + '!' + sp.ws() + sp.case('important')
    return s


def r_decls(sp, ds):
    out = sp.ws()
    for i, d in enumerate(ds):
        out += r_decl(sp, d) + sp.ws()
        if i < len(ds) - 1 or (not sp.canonical and sp.rng.random() < 0.5):
            out += ';' + sp.ws()
    return out


def r_simple(sp, s):
    k = s[0]
    if k == 'id':
        return '#' + s[1]
    if k == 'class':
        return '.' + sp.name(s[1], simple_escapes=('flag' if sp.value_ident_escapes else False))
    if k == 'attr':
        _, n, op, v = s
        if not op:
            return '[' + sp.ws() + n + sp.ws() + ']'
        val = r_string(sp, v) if (' ' in v or sp.canonical or sp.rng.random() < 0.5) else v
        return '[' + sp.ws() + n + sp.ws() + op + sp.ws() + val + sp.ws() + ']'
    if k == 'pc':
        return ':' + sp.case(s[1])
    if k == 'pe':
        return ':' * s[2] + sp.case(s[1])
    if k == 'fpc':
        return ':' + sp.case(s[1]) + '(' + sp.ws() + s[2] + sp.ws() + ')'
    if k == 'not':
        return ':' + sp.case_not('not') + '(' + sp.ws() + r_simple(sp, s[1]) + sp.ws() + ')'
    if k == 'type':
        return s[1]
    raise AssertionError(s)


def r_selector(sp, sel):
    out = ''
    for comb, (el, simples) in sel:
        if comb == ' ':
            out += sp.ws(required=True)
        elif comb:
            out += sp.ws() + comb + sp.ws()
        out += el + ''.join(r_simple(sp, s) for s in simples)
    return out


def r_mquery(sp, q):
    pre, mt, feats = q
    s = ''
    if pre:
        s += sp.case(pre) + sp.ws(required=True)
    s += sp.case(mt)
    for f, v in feats:
        s += sp.ws(required=True) + sp.case('and') + sp.ws(required=True) + '(' + sp.ws() + sp.case(f)
        if v is not None:
            s += sp.ws() + ':' + sp.ws() + v
        s += sp.ws() + ')'
    return s


def r_rule(sp, r):
    k = r[0]
    at = lambda w: '@' + sp.case(w)
    if k == 'charset':
        return '@charset "%s";' % r[1]
    if k == 'import':
        _, href, how, media, name = r
        s = at('import') + sp.ws(required=True) + (r_string(sp, href) if how == 'string' else sp.case('url') + '(' + href + ')')
        if media:
            s += sp.ws(required=True) + (sp.ws() + ',' + sp.ws()).join(sp.case(m) for m in media)
        return s + sp.ws() + ';'
    if k == 'namespace':
        return at('namespace') + sp.ws(required=True) + ((r[1] + sp.ws(required=True)) if r[1] else '') + r_string(sp, r[2]) + sp.ws() + ';'
    if k == 'style':
        return (sp.ws() + ',' + sp.ws()).join(r_selector(sp, s) for s in r[1]) + sp.ws() + '{' + r_decls(sp, r[2]) + '}'
    if k == 'media':
        return (at('media') + sp.ws(required=True) + (sp.ws() + ',' + sp.ws()).join(r_mquery(sp, q) for q in r[1]) + sp.ws() + '{'
                + sp.ws_nc() + sp.ws_nc().join(r_rule(sp, x) for x in r[2]) + sp.ws_nc() + '}')
    if k == 'page':
        _, pseudo, decls, margins = r
        body = r_decls(sp, decls)
        if margins:
            if decls and not body.rstrip(' \n\t\r\f').endswith(';') and '/*' not in body[-8:]:
                body += ';'
            elif decls:
                body += ';'
            body += sp.ws().join(sp.case(m) + sp.ws() + '{' + r_decls(sp, ds) + '}' for m, ds in margins) + sp.ws()
        return at('page') + ((sp.ws(required=True) + pseudo) if pseudo else '') + sp.ws() + '{' + body + '}'
    if k == 'font-face':
        return at('font-face') + sp.ws() + '{' + r_decls(sp, r[1]) + '}'
    if k == 'unknown':
        _, kw, prelude, block = r
        return kw + ' ' + prelude + ((' {' + block + '}') if block is not None else ';')
    if k == 'comment':
        return '/*' + r[1] + '*/'
    raise AssertionError(r)


def render(sp, sheet):
    return sp.ws_nc().join(r_rule(sp, r) for r in sheet)


# ------------------------------------------------------------------ semantics of the AST

def sem_num(c):
    _, sign, ip, fr, unit = c
    v = Fraction(int(ip or '0')) + (Fraction(int(fr), 10 ** len(fr)) if fr else 0)
    if sign == '-':
        v = -v
    return ('num', v, unit)


def sem_comp(c):
    k = c[0]
    if k == 'ident':
        return ('ident', c[1])
    if k == 'num':
        return sem_num(c)
    if k == 'str':
        return ('str', c[1])
    if k == 'url':
        return ('url', c[1])
    if k == 'hash':
        h = c[1].lower()
        if len(h) == 3:
            h = ''.join(x * 2 for x in h)
        return ('color', int(h[0:2], 16), int(h[2:4], 16), int(h[4:6], 16), Fraction(1))
    if k == 'func':
        return ('func', c[1], sem_value(c[2]))
    if k == 'rgb':
        comps = [sem_num(x)[1] for x in c[2]]
        return ('color', int(comps[0]), int(comps[1]), int(comps[2]), comps[3] if len(comps) > 3 else Fraction(1))
    if k == 'urange':
        return ('urange', c[1].lower())
    raise AssertionError(c)


def sem_value(v):
    return tuple((sep if sep != '' else '', sem_comp(c)) for sep, c in v)


def sem_decl(d):
    return (d[0], sem_value(d[1]), bool(d[2]))


def sem_simple(s):
    if s[0] == 'not':
        return ('not', sem_simple(s[1]))
    if s[0] == 'pe':
        return ('pe', s[1])
    return tuple(s)


def sem_selector(sel):
    return tuple((comb, el, tuple(sem_simple(s) for s in simples)) for comb, (el, simples) in sel)


def spec_simple(s):
    k = s[0]
    if k == 'id':
        return (1, 0, 0)
    if k in ('class', 'attr'):
        return (0, 1, 0)
    if k in ('pc', 'fpc'):
        return (0, 0, 0)   # the property counts class and attribute selectors only
    if k in ('pe', 'type'):
        return (0, 0, 1)
    if k == 'not':
        return spec_simple(s[1])
    raise AssertionError(s)


def specificity(sel):
    a = b = c = 0
    for comb, (el, simples) in sel:
        if el and el != '*':
            c += 1
        for s in simples:
            x = spec_simple(s)
            a, b, c = a + x[0], b + x[1], c + x[2]
    return (0, a, b, c)


def canon_media(qs):
    """a list containing plain 'all' is 'all'; a simple media type is kept once"""
    qs = [(q[0], q[1], tuple(q[2])) for q in qs]
    if any(q == (None, 'all', ()) for q in qs):
        return ((None, 'all', ()),)
    out = []
    for q in qs:
        if q[0] is None and not q[2] and q in out:
            continue
        out.append(q)
    return tuple(out)


def sem_rule(r, comments=True):
    k = r[0]
    if k == 'charset':
        return ('charset', r[1])
    if k == 'import':
        return ('import', r[1], tuple(r[3]) if (r[3] and 'all' not in r[3]) else ('all',))
    if k == 'namespace':
        return ('namespace', r[1] or '', r[2])
    if k == 'style':
        return ('style', tuple((sem_selector(s), specificity(s)) for s in r[1]), tuple(sem_decl(d) for d in r[2]))
    if k == 'media':
        return ('media', canon_media(r[1]),
                tuple(x for x in (sem_rule(y, comments) for y in r[2]) if x is not None))
    if k == 'page':
        return ('page', r[1], tuple(sem_decl(d) for d in r[2]), tuple((m, tuple(sem_decl(d) for d in ds)) for m, ds in r[3]))
    if k == 'font-face':
        return ('font-face', tuple(sem_decl(d) for d in r[1]))
    if k == 'unknown':
        return ('unknown', r[1])
    if k == 'comment':
        return ('comment', r[1]) if comments else None
    raise AssertionError(r)


def sem_sheet(sheet, comments=True):
    return tuple(x for x in (sem_rule(r, comments) for r in sheet) if x is not None)
