"""implementation-side helpers: global-state hygiene, DOM projection,
exception classification, a worker pool with per-case timeouts."""
import logging
import multiprocessing as mp
import os
import sys
import time
import xml.dom

import cssutils
import cssutils.prodparser
import cssutils.tokenize2
import cssutils.serialize

cssutils.log.setLevel(logging.FATAL)

from harness.core import log as _log  # noqa: E402


def reset(raise_exceptions=True):
    """put the library's process-wide state into the documented default"""
    del cssutils.prodparser.savedTokens[:]
    cssutils.prodparser.tokenizer.clear()
    cssutils.log.raiseExceptions = raise_exceptions
    cssutils.log.enabled = True
    if type(cssutils.ser) is not cssutils.serialize.CSSSerializer:
        cssutils.ser = cssutils.serialize.CSSSerializer()
    cssutils.ser.prefs.useDefaults()
    s = cssutils.ser
    for attr, val in (('_level', 0), ('_selectors', []), ('_selectorlevel', 0)):
        if hasattr(s, attr):
            setattr(s, attr, val if not isinstance(val, list) else [])


def fresh_profiles():
    cssutils.profile = cssutils.profiles.Profiles(log=cssutils.log)


def exc_class(e):
    """small enum for exceptions"""
    if isinstance(e, xml.dom.DOMException):
        return 'DOM:' + type(e).__name__
    return 'Crash:' + type(e).__name__


TOKCODE = {n: i for i, n in enumerate([
    'BOM', 'S', 'URI', 'UNICODE-RANGE', 'IDENT', 'FUNCTION', 'DIMENSION', 'PERCENTAGE', 'NUMBER', 'HASH',
    'COMMENT', 'STRING', 'INVALID', 'ATKEYWORD', 'INCLUDES', 'DASHMATCH', 'PREFIXMATCH', 'SUFFIXMATCH',
    'SUBSTRINGMATCH', 'CDO', 'CDC', 'CHAR', 'EOF', 'CHARSET_SYM', 'FONT_FACE_SYM', 'MEDIA_SYM', 'IMPORT_SYM',
    'NAMESPACE_SYM', 'PAGE_SYM', 'VARIABLES_SYM'])}
TOKNAME = {v: k for k, v in TOKCODE.items()}


def tokenize(text, full=True, doc=True):
    t = cssutils.tokenize2.Tokenizer(doComments=doc)
    return list(t.tokenize(text, fullsheet=full))


# ---------------------------------------------------------------- projection

def _val_items(pv):
    out = []
    try:
        for v in pv:
            out.append((type(v).__name__, v.type, v.cssText))
    except Exception as e:  # projection must never hide a crash
        out.append(('ERR', type(e).__name__, str(e)[:60]))
    return tuple(out)


def proj_style(style):
    out = []
    for item in style.seq:
        v = item.value
        if isinstance(v, cssutils.css.Property):
            out.append(('P', v.literalname, v.name, v.propertyValue.cssText if v.propertyValue is not None else None,
                        _val_items(v.propertyValue) if v.propertyValue is not None else (), v.priority))
        elif isinstance(v, cssutils.css.CSSComment):
            out.append(('C', v.cssText))
        else:
            out.append(('U', item.type, str(getattr(v, 'cssText', v))))
    return tuple(out)


def proj_selector(sel):
    items = []
    for it in sel.seq:
        v = it.value
        if isinstance(v, tuple):
            v = tuple('*ANY*' if x == cssutils._ANYNS else x for x in v)
        items.append((it.type, v))
    return (sel.selectorText, tuple(items), tuple(sel.specificity))


def proj_media(ml):
    return (ml.mediaText, tuple(mq.mediaText for mq in ml))


def proj_rule(r):
    T = r.type
    C = cssutils.css.CSSRule
    if T == C.STYLE_RULE:
        return ('style', tuple(proj_selector(s) for s in r.selectorList), proj_style(r.style))
    if T == C.COMMENT:
        return ('comment', r.cssText)
    if T == C.CHARSET_RULE:
        return ('charset', r.encoding)
    if T == C.IMPORT_RULE:
        return ('import', r.href, proj_media(r.media), r.name, r.hreftype)
    if T == C.NAMESPACE_RULE:
        return ('namespace', r.prefix, r.namespaceURI)
    if T == C.MEDIA_RULE:
        return ('media', proj_media(r.media), r.name, tuple(proj_rule(x) for x in r.cssRules))
    if T == C.FONT_FACE_RULE:
        return ('font-face', proj_style(r.style))
    if T == C.PAGE_RULE:
        return ('page', r.selectorText, proj_style(r.style), tuple(proj_rule(x) for x in r.cssRules))
    if T == C.MARGIN_RULE:
        return ('margin', r.margin, proj_style(r.style))
    if T == C.VARIABLES_RULE:
        return ('variables', tuple((k, r.variables[k]) for k in r.variables.keys()), r.cssText)
    if T == C.UNKNOWN_RULE:
        return ('unknown', r.atkeyword, r.cssText)
    return ('other', T, r.cssText)


def proj_sheet(sheet):
    return tuple(proj_rule(r) for r in sheet.cssRules)


def jsonable(x):
    if isinstance(x, tuple):
        return [jsonable(i) for i in x]
    if isinstance(x, bytes):
        return x.decode('latin-1')
    return x


# ---------------------------------------------------------------- worker pool

def _worker(fn_path, conn):
    import importlib
    modname, fname = fn_path.rsplit('.', 1)
    fn = getattr(importlib.import_module(modname), fname)
    while True:
        try:
            msg = conn.recv()
        except EOFError:
            return
        if msg is None:
            return
        try:
            t0 = time.perf_counter()
            r = fn(msg)
            conn.send(('ok', r, time.perf_counter() - t0))
        except BaseException as e:  # noqa
            conn.send(('exc', '%s: %s' % (type(e).__name__, str(e)[:200]), 0.0))


class Pool:
    """run fn(case) in worker processes with a per-case timeout; a case that
    exceeds it is reported as ('timeout', ...) and the worker is replaced"""

    def __init__(self, fn_path, nproc=12):
        self.fn_path = fn_path
        self.nproc = nproc
        self.ctx = mp.get_context('fork')

    def _spawn(self):
        a, b = self.ctx.Pipe()
        p = self.ctx.Process(target=_worker, args=(self.fn_path, b), daemon=True)
        p.start()
        b.close()
        return [p, a, None, 0.0, 0.0]  # proc, conn, current index, start, limit

    def map(self, cases, timeout_fn):
        results = [None] * len(cases)
        workers = [self._spawn() for _ in range(min(self.nproc, max(1, len(cases))))]
        nxt = 0
        done = 0
        while done < len(cases):
            progressed = False
            for w in workers:
                p, conn, cur, st, lim = w
                if cur is None and nxt < len(cases):
                    conn.send(cases[nxt])
                    w[2], w[3], w[4] = nxt, time.time(), timeout_fn(cases[nxt])
                    nxt += 1
                    progressed = True
                elif cur is not None:
                    if conn.poll(0):
                        try:
                            results[cur] = conn.recv()
                        except EOFError:
                            results[cur] = ('died', 'worker died', 0.0)
                            p.kill()
                            w[:] = self._spawn()
                        else:
                            w[2] = None
                        done += 1
                        progressed = True
                    elif time.time() - st > lim:
                        p.kill()
                        p.join()
                        results[cur] = ('timeout', 'exceeded %.2fs' % lim, lim)
                        done += 1
                        w[:] = self._spawn()
                        progressed = True
                    elif not p.is_alive():
                        results[cur] = ('died', 'worker died (exit %s)' % p.exitcode, 0.0)
                        done += 1
                        w[:] = self._spawn()
                        progressed = True
            if not progressed:
                time.sleep(0.002)
        for w in workers:
            try:
                w[1].send(None)
            except Exception:
                pass
            w[0].join(timeout=0.5)
            if w[0].is_alive():
                w[0].kill()
        return results
