"""merge known_findings.d/*.json into known_findings.json (run by hand, never at check time)"""
import glob
import json
import os
import subprocess
import sys

V = os.path.dirname(os.path.dirname(os.path.abspath(__file__)))
COMMITS = dict(a.split('=', 1) for a in sys.argv[1:])   # patch-slug=commit
k = json.load(open(os.path.join(V, 'known_findings.json')))
have = {f['id'] for f in k['findings']}
for p in sorted(glob.glob(os.path.join(V, 'known_findings.d', '*.json'))):
    for f in json.load(open(p)).get('findings', []):
        if f['id'] in have:
            continue
        if f.get('status') == 'fixed':
            for slug, c in COMMITS.items():
                if slug in f.get('what', '') or slug in json.dumps(f):
                    f['commit'] = c
                    f['what'] = f['what'].replace('fixes/%s.patch' % slug, c).replace('%s.patch' % slug, c)
        k['findings'].append(f)
        have.add(f['id'])
    os.remove(p)
json.dump(k, open(os.path.join(V, 'known_findings.json'), 'w'), indent=1)
print(len(k['findings']), 'findings')
