"""Run the checks against the seeded changes under /verif/seeded/<id>/<variant>/.
usage: python3 harness/run_seeded.py [-jN] [Cxx[/variant] ...]
(-jN: N workers, each in its own scratch copy of /verif under /tmp, removed afterwards;
without -j the run happens in /verif itself and ends with ./check --setup)
For each: fresh scratch worktree of /repo, apply patch.diff, confirm the baseline
tests still pass and demo.py fails there (and passes on /repo), run ./check <id>
with VERIF_REPO pointing at the worktree, record the outcome in result.json, remove
the worktree.  Afterwards the Gen files are regenerated from /repo."""
import glob
import json
import os
import re
import subprocess
import sys
import time

V = os.path.dirname(os.path.dirname(os.path.abspath(__file__)))


def sh(cmd, **kw):
    p = subprocess.run(cmd, shell=True, stdout=subprocess.PIPE, stderr=subprocess.STDOUT, text=True, **kw)
    return p.returncode, p.stdout


def run_one(sdir, extra_checks=(), vdir=V):
    pid = sdir.rstrip('/').split('/')[-2]
    meta = {}
    try:
        meta = json.load(open(os.path.join(sdir, 'meta.json')))
    except Exception:
        pass
    wt = '/tmp/seedrun-%s-%s' % (pid, os.path.basename(sdir.rstrip('/')))
    sh('git -C /repo worktree remove --force %s' % wt)
    rc, out = sh('git -C /repo worktree add -q %s HEAD' % wt)
    res = {'property': pid, 'variant': os.path.basename(sdir.rstrip('/')), 'summary': meta.get('summary')}
    try:
        rc, out = sh('git -C %s apply %s' % (wt, os.path.join(sdir, 'patch.diff')))
        res['applies'] = rc == 0
        if rc != 0:
            res['error'] = out[-500:]
            return res
        rc, out = sh('cd %s && /venv/bin/python -m pytest -q -p no:cacheprovider 2>&1 | tail -1' % wt)
        res['pytest'] = out.strip()
        res['tests_pass'] = '410 passed' in out
        rc1, o1 = sh('cd %s && PYTHONPATH=%s /venv/bin/python demo.py' % (sdir, wt), timeout=300)
        rc0, o0 = sh('cd %s && PYTHONPATH=/repo /venv/bin/python demo.py' % sdir, timeout=300)
        res['demo_fails_with_change'] = rc1 != 0
        res['demo_passes_without'] = rc0 == 0
        checks = [pid] + list(extra_checks)
        res['checks'] = {}
        for c in checks:
            t0 = time.time()
            rc, out = sh('cd %s && VERIF_REPO=%s ./check %s --tier quick' % (vdir, wt, c), timeout=3600)
            lines = [l for l in out.split('\n') if l.startswith(('VIOLATION', 'OK ', 'FAIL ', 'KNOWN-FINDING'))]
            last = [l for l in lines if l.startswith(('OK ', 'FAIL '))]
            m = re.search(r'obligations=(\d+)/(\d+).*disagreements=(\d+) violations=(\d+)', last[-1]) if last else None
            viol = [l for l in lines if l.startswith('VIOLATION')]
            layers = []
            if m:
                if m.group(1) != m.group(2):
                    layers.append('proof/translation')
                if int(m.group(3)):
                    layers.append('correspondence')
            if any('no-failing-input-found' not in l for l in viol):
                layers.append('search')
            kinds = sorted({re.sub(r'-[0-9a-f]{10}\.json.*', '', l.split('replays/%s/' % c)[-1]) for l in viol})
            res['checks'][c] = {'exit': rc, 'caught': rc != 0, 'layers': layers, 'violation_kinds': kinds,
                                'summary_line': last[-1] if last else out[-300:], 'wall_s': round(time.time() - t0, 1)}
    finally:
        sh('git -C /repo worktree remove --force %s' % wt)
    with open(os.path.join(sdir, 'result.json'), 'w') as f:
        json.dump(res, f, indent=1)
    return res


def report(r):
    c = r.get('checks', {}).get(r['property'], {})
    print('%s/%s applies=%s tests=%s demo=%s/%s caught=%s layers=%s kinds=%s' % (
        r['property'], r['variant'], r.get('applies'), r.get('tests_pass'), r.get('demo_fails_with_change'),
        r.get('demo_passes_without'), c.get('caught'), c.get('layers'), c.get('violation_kinds')), flush=True)


def main(argv):
    jobs = 0
    top = 'seeded'
    for a in list(argv):
        if a.startswith('-j'):
            jobs = int(a[2:] or 4)
            argv.remove(a)
        elif a.startswith('--dir='):
            top = a[6:]
            argv.remove(a)
    sel = argv or ['']
    dirs = []
    for s in sel:
        dirs += sorted(d for d in glob.glob(os.path.join(V, top, '*', '*', '')) if s in d)
    if jobs:
        import queue
        import threading
        q = queue.Queue()
        for d in dirs:
            q.put(d)

        def worker(k):
            vdir = '/tmp/vcopy-%d-%d' % (os.getpid(), k)
            sh('rm -rf %s && mkdir -p %s && rsync -a --exclude .git --exclude .claude --exclude replays %s/ %s/' % (vdir, vdir, V, vdir))
            try:
                while True:
                    try:
                        d = q.get_nowait()
                    except queue.Empty:
                        return
                    report(run_one(d, vdir=vdir))
            finally:
                sh('rm -rf %s' % vdir)
        ts = [threading.Thread(target=worker, args=(k,)) for k in range(min(jobs, len(dirs)))]
        for t in ts:
            t.start()
        for t in ts:
            t.join()
        return 0
    for d in dirs:
        report(run_one(d))
    # put the generated files back to /repo's state
    sh('cd %s && ./check --setup' % V)
    return 0


if __name__ == '__main__':
    sys.exit(main(sys.argv[1:]))
