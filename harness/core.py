"""core of the /verif check machinery: build pipeline (regenerate -> coqc ->
extract -> ocaml), model driver, verdict/evidence protocol."""
import fcntl
import glob
import hashlib
import json
import os
import random
import re
import subprocess
import sys
import time

VERIF = os.path.dirname(os.path.dirname(os.path.abspath(__file__)))
REPO = os.environ.get('VERIF_REPO', '/repo')
COQ = os.path.join(VERIF, 'coq')
PY = '/venv/bin/python'
ENV = dict(os.environ, PYTHONPATH='%s:%s' % (REPO, VERIF), PYTHONHASHSEED='0',
           PYTHONDONTWRITEBYTECODE='1', CSSUTILS_VERIF='1')
DRIVER = os.path.join(COQ, 'Extract', 'model_driver')


def log(*a):
    print(*a, file=sys.stderr, flush=True)


def sh(cmd, cwd=None, timeout=None, env=None):
    p = subprocess.run(cmd, cwd=cwd, timeout=timeout, env=env or ENV, shell=isinstance(cmd, str),
                       stdout=subprocess.PIPE, stderr=subprocess.STDOUT, text=True)
    return p.returncode, p.stdout


# --------------------------------------------------------------------------
# build
# --------------------------------------------------------------------------

def coq_sources():
    out = []
    for d in ('Base', 'Gen', 'Model', 'Proofs', 'Props', 'Extract'):
        out += sorted(glob.glob(os.path.join(COQ, d, '*.v')))
    return [os.path.relpath(p, COQ) for p in out]


COQPROJECT_HEAD = """-Q . CssV
-arg -w -arg -notation-overridden,-deprecated-hint-without-locality,-deprecated-instance-without-locality,-unknown-option
"""


class BuildResult:
    def __init__(self):
        self.gen = None          # translator summary
        self.make_rc = None
        self.make_log = ''
        self.failed_files = []   # .v files whose compilation failed
        self.extract_ok = False
        self.wall = 0.0


def build(timeout=3000, jobs=16):
    """regenerate Gen from /repo, rebuild what changed (full .vo build),
    re-extract and rebuild the OCaml driver.  Serialised by a file lock."""
    t0 = time.time()
    res = BuildResult()
    os.makedirs(os.path.join(VERIF, '.cache'), exist_ok=True)
    lock = open(os.path.join(VERIF, '.cache', 'build.lock'), 'w')
    fcntl.flock(lock, fcntl.LOCK_EX)
    try:
        rc, out = sh([PY, '-m', 'translator.gen'], cwd=VERIF, timeout=900)
        try:
            res.gen = json.loads(out[out.index('{"ok"'):])
        except Exception:
            res.gen = {'ok': False, 'errors': {'translator': out[-2000:]}, 'files': {}}
        # _CoqProject / Makefile
        want = COQPROJECT_HEAD + '\n'.join(s for s in coq_sources() if not s.startswith('Extract/')) + '\n'
        cp = os.path.join(COQ, '_CoqProject')
        have = open(cp).read() if os.path.exists(cp) else None
        if have != want or not os.path.exists(os.path.join(COQ, 'Makefile')):
            with open(cp, 'w') as f:
                f.write(want)
            sh('coq_makefile -f _CoqProject -o Makefile', cwd=COQ, timeout=120)
        gen_entries()
        rc, out = sh('timeout %d make -k -j%d 2>&1' % (timeout, jobs), cwd=COQ, timeout=timeout + 60)
        res.make_rc, res.make_log = rc, out
        res.failed_files = sorted(set(re.findall(r'File "\./([^"]+\.v)", line \d+, characters [^\n]*\n(?:Error|Anomaly)', out))
                                  | set(re.findall(r'make.*\*\*\* \[[^\]]*: ([^\]\s]+)\.vo\] Error', out)))
        res.failed_files = [f if f.endswith('.v') else f + '.v' for f in res.failed_files]
        # extraction + driver (only when the models changed)
        ent_vo = os.path.join(COQ, 'Model', 'Entries.vo')
        ml = os.path.join(COQ, 'Extract', 'model.ml')
        if os.path.exists(ent_vo):
            if (not os.path.exists(DRIVER) or not os.path.exists(ml)
                    or os.path.getmtime(ent_vo) > os.path.getmtime(ml)
                    or os.path.getmtime(os.path.join(COQ, 'Extract', 'driver.ml')) > os.path.getmtime(DRIVER)):
                rc1, out1 = sh('coqc -w none -Q .. CssV Extract.v', cwd=os.path.join(COQ, 'Extract'), timeout=600)
                rc2, out2 = sh('ocamlfind ocamlopt -O3 -w -a model.mli model.ml driver.ml -o model_driver.tmp '
                               '&& mv model_driver.tmp model_driver',
                               cwd=os.path.join(COQ, 'Extract'), timeout=600)
                res.extract_ok = rc1 == 0 and rc2 == 0
                if not res.extract_ok:
                    res.make_log += '\n[extract]\n' + out1 + out2
            else:
                res.extract_ok = True
    finally:
        fcntl.flock(lock, fcntl.LOCK_UN)
        lock.close()
    res.wall = time.time() - t0
    return res


ENTRY_RE = re.compile(r'\(\*\s*ENTRY\s+(\d+)\s+([A-Za-z0-9_\']+)\s*\*\)')


def gen_entries():
    """Model/Entries.v is generated: every model file registers its flat
    integer entry points with a marker comment  (* ENTRY <opcode> <function> *)
    where function : list N -> list N."""
    regs = []
    for v in sorted(glob.glob(os.path.join(COQ, 'Model', '*.v'))):
        base = os.path.basename(v)[:-2]
        if base == 'Entries':
            continue
        for m in ENTRY_RE.finditer(open(v).read()):
            regs.append((int(m.group(1)), base, m.group(2)))
    regs.sort()
    codes = [r[0] for r in regs]
    assert len(codes) == len(set(codes)), 'duplicate ENTRY opcode: %r' % regs
    mods = sorted(set(r[1] for r in regs))
    text = ('(* Model/Entries.v - GENERATED by harness/core.py from the ENTRY markers of Model/*.v *)\n'
            'From Coq Require Import List NArith.\n'
            + ''.join('From CssV Require Model.%s.\n' % m for m in mods)
            + 'Import ListNotations.\nLocal Open Scope N_scope.\n\n'
            'Definition dispatch (op : N) (args : list N) : list N :=\n  match op with\n'
            + ''.join('  | %d => Model.%s.%s args\n' % (c, m, f) for c, m, f in regs)
            + '  | _ => [999999]\n  end.\n')
    path = os.path.join(COQ, 'Model', 'Entries.v')
    if not os.path.exists(path) or open(path).read() != text:
        with open(path, 'w') as f:
            f.write(text)


def vo_deps(vfile):
    """transitive CssV dependencies (as .v paths relative to coq/) of a file"""
    rc, out = sh('coqdep -Q . CssV -sort ' + ' '.join(coq_sources()), cwd=COQ, timeout=120)
    seen, todo = set(), [vfile]
    while todo:
        f = todo.pop()
        if f in seen:
            continue
        seen.add(f)
        try:
            src = open(os.path.join(COQ, f)).read()
        except OSError:
            continue
        for m in re.finditer(r'From CssV Require (?:Import|Export) ([^.]*(?:\.[A-Za-z_][^.\s]*)*)\.', src):
            for mod in m.group(1).split():
                todo.append(mod.replace('.', '/') + '.v')
    return sorted(seen)


def compile_props(pid):
    """compile Props/<pid>.v on its own; returns dict with obligations,
    discharged, assumptions (Print Assumptions output), log"""
    v = 'Props/%s.v' % pid
    src = open(os.path.join(COQ, v)).read()
    names = re.findall(r'^\s*(?:Theorem|Lemma|Corollary|Example|Fact)\s+([A-Za-z0-9_\']+)', src, re.M)
    rc, out = sh('timeout 900 coqc -Q . CssV -w -notation-overridden ' + v, cwd=COQ, timeout=960)
    ok = rc == 0
    assumptions = {}
    # Print Assumptions blocks: "Closed under the global context" or "Axioms:\n..."
    blocks = re.split(r'\n(?=Closed under the global context|Axioms:)', '\n' + out)
    pa = [b.strip() for b in blocks if b.startswith('Closed under') or b.startswith('Axioms:')]
    printed = re.findall(r'^\s*Print Assumptions\s+([A-Za-z0-9_\']+)', src, re.M)
    for n, b in zip(printed, pa):
        assumptions[n] = b
    failing = None
    if not ok:
        m = re.search(r'line (\d+), characters', out)
        if m:
            ln = int(m.group(1))
            upto = src.split('\n')[:ln]
            prev = re.findall(r'^\s*(?:Theorem|Lemma|Corollary|Example|Fact)\s+([A-Za-z0-9_\']+)', '\n'.join(upto), re.M)
            failing = prev[-1] if prev else None
    return {'file': v, 'names': names, 'obligations': len(names),
            'discharged': len(names) if ok else (names.index(failing) if failing in names else 0),
            'ok': ok, 'failing': failing, 'assumptions': assumptions, 'log': out[-3000:]}


# --------------------------------------------------------------------------
# extracted model
# --------------------------------------------------------------------------

class Model:
    """runs cases through the extracted OCaml model in batches"""

    def __init__(self):
        self.available = os.path.exists(DRIVER)

    def run(self, cases, timeout=600, shards=None):
        """cases: list of int lists (op first) -> list of int lists (None on failure)"""
        if not cases:
            return []
        shards = shards or min(16, max(1, len(cases) // 200))
        chunks = [cases[i::shards] for i in range(shards)]
        procs = []
        for ch in chunks:
            p = subprocess.Popen(['/bin/sh', '-c', 'ulimit -s unlimited 2>/dev/null; exec ' + DRIVER], stdin=subprocess.PIPE,
                                 stdout=subprocess.PIPE, text=True)
            procs.append((p, ch))
        import threading
        outs = [None] * len(procs)

        def feed(i, p, ch):
            data = '\n'.join(' '.join(map(str, c)) for c in ch) + '\n'
            try:
                o, _ = p.communicate(data, timeout=timeout)
            except subprocess.TimeoutExpired:
                p.kill()
                o = ''
            outs[i] = o
        ths = [threading.Thread(target=feed, args=(i, p, ch)) for i, (p, ch) in enumerate(procs)]
        for t in ths:
            t.start()
        for t in ths:
            t.join()
        res = [None] * len(cases)
        for si, o in enumerate(outs):
            lines = o.split('\n') if o else []
            for j, _ in enumerate(chunks[si]):
                idx = si + j * shards
                if j < len(lines) - (0 if o.endswith('\n') is False else 1) and lines[j].strip() != '-1':
                    try:
                        res[idx] = [int(x) for x in lines[j].split()]
                    except ValueError:
                        res[idx] = None
        return res


# --------------------------------------------------------------------------
# verdict / evidence
# --------------------------------------------------------------------------

def load_known():
    """known_findings.json plus (while a property is being built) known_findings.d/*.json"""
    out = []
    p = os.path.join(VERIF, 'known_findings.json')
    if os.path.exists(p):
        out += json.load(open(p)).get('findings', [])
    for f in sorted(glob.glob(os.path.join(VERIF, 'known_findings.d', '*.json'))):
        out += json.load(open(f)).get('findings', [])
    return out


class Ctx:
    def __init__(self, pid, tier, seed):
        self.pid, self.tier, self.seed = pid, tier, seed
        self.rng = random.Random(seed)
        self.t0 = time.time()
        self.violations = []       # (kind, case, detail)
        self.known_hits = {}       # finding id -> count
        self.disagreements = []    # correspondence failures
        self.broken = []           # broken obligations / translation / tie: (what, detail)
        self.cov = {'evaluations': 0, 'samples': [], 'rule': ''}
        self.distinct = set()
        self.trusted = []
        self.assumptions = []
        self.obl = {'obligations': 0, 'discharged': 0, 'names': []}
        self.extra = {}
        self.known = [k for k in load_known() if k.get('property') == pid and k.get('status') == 'known']
        self.model = Model()
        self.counters = {}

    # -- bookkeeping
    def count(self, key, n=1):
        self.counters[key] = self.counters.get(key, 0) + n

    def case(self, canon, nontrivial=True):
        """register one evaluated case; canon is a hashable/jsonable canonical form"""
        self.cov['evaluations'] += 1
        if nontrivial:
            self.distinct.add(hashlib.sha1(repr(canon).encode()).digest()[:8])

    def sample(self, s, limit=6):
        if len(self.cov['samples']) < limit:
            self.cov['samples'].append(s)

    def add_obligations(self, info):
        self.obl['obligations'] += info['obligations']
        self.obl['discharged'] += info['discharged']
        self.obl['names'] += info['names']
        for n, a in info['assumptions'].items():
            self.trusted.append('Print Assumptions %s: %s' % (n, ' '.join(a.split())))
        if not info['ok']:
            self.broken.append(('proof', 'Props file %s fails at %s: %s' % (info['file'], info['failing'], info['log'][-600:])))

    def violation(self, kind, case, detail, finding_pred=None):
        """a concrete failing input on the implementation.  If it falls in the
        class of a listed known finding it is only reported as such."""
        for k in self.known:
            pred = (finding_pred or {}).get(k['id'])
            if pred is not None and pred(kind, case, detail):
                self.known_hits[k['id']] = self.known_hits.get(k['id'], 0) + 1
                return False
        self.violations.append({'kind': kind, 'case': case, 'detail': detail})
        return True

    def disagree(self, what, case, impl, model):
        self.disagreements.append({'what': what, 'case': case, 'impl': impl, 'model': model})

    # -- finish
    def finish(self, level='proof'):
        os.makedirs(os.path.join(VERIF, 'evidence'), exist_ok=True)
        rdir = os.path.join(VERIF, 'replays', self.pid)
        lines = []
        exit_code = 0
        for k in self.known:
            if self.known_hits.get(k['id']):
                lines.append('KNOWN-FINDING: property=%s %s [%s, reproduced %d times]' % (
                    self.pid, k['what'], k['id'], self.known_hits[k['id']]))
        nviol = 0
        if self.violations:
            os.makedirs(rdir, exist_ok=True)
            seen = set()
            for v in self.violations:
                key = v['kind']
                if key in seen:
                    continue
                seen.add(key)
                h = hashlib.sha1(json.dumps(v, sort_keys=True, default=repr).encode()).hexdigest()[:10]
                path = os.path.join(rdir, '%s-%s.json' % (re.sub(r'[^A-Za-z0-9_.-]', '_', key)[:40], h))
                with open(path, 'w') as f:
                    json.dump({'property': self.pid, 'layer': 'implementation', **v,
                               'broken': self.broken, 'disagreements': self.disagreements[:5]}, f, indent=1, default=repr)
                lines.append('VIOLATION property=%s replay=%s' % (self.pid, os.path.relpath(path, VERIF)))
                nviol += 1
            exit_code = 1
        elif self.broken or self.disagreements:
            os.makedirs(rdir, exist_ok=True)
            blob = {'property': self.pid, 'layer': 'proof-or-tie', 'broken': self.broken,
                    'disagreements': self.disagreements[:20],
                    'note': 'a proof obligation, the translation or the model/implementation correspondence no longer '
                            'checks; the search on the implementation found no input violating the property itself'}
            h = hashlib.sha1(json.dumps(blob, sort_keys=True, default=repr).encode()).hexdigest()[:10]
            path = os.path.join(rdir, 'tie-%s.json' % h)
            with open(path, 'w') as f:
                json.dump(blob, f, indent=1, default=repr)
            lines.append('VIOLATION property=%s replay=%s no-failing-input-found' % (self.pid, os.path.relpath(path, VERIF)))
            nviol = 1
            exit_code = 1
        cov = dict(self.cov)
        cov['distinct_nontrivial'] = len(self.distinct)
        cov['obligations'] = self.obl['obligations']
        cov['discharged'] = self.obl['discharged']
        cov['obligation_names'] = self.obl['names']
        cov['checker_cmd'] = 'coq_makefile -f _CoqProject -o Makefile && make -k -j16 (coqc 8.16.1, full .vo); coqc Props/%s.v' % self.pid
        cov['trusted_base'] = self.trusted
        cov['correspondence_disagreements'] = len(self.disagreements)
        cov['known_findings_reproduced'] = self.known_hits
        cov['counters'] = self.counters
        cov.update(self.extra)
        ev = {'property_id': self.pid, 'tier': self.tier, 'seed': self.seed, 'level': level,
              'coverage': cov, 'assumptions': self.assumptions,
              'wall_s': round(time.time() - self.t0, 2), 'violations': nviol}
        with open(os.path.join(VERIF, 'evidence', '%s.json' % self.pid), 'w') as f:
            json.dump(ev, f, indent=1, default=repr)
        for l in lines:
            print(l, flush=True)
        print('%s %s tier=%s obligations=%d/%d evaluations=%d distinct=%d disagreements=%d violations=%d wall=%.1fs' % (
            'FAIL' if exit_code else 'OK', self.pid, self.tier, self.obl['discharged'], self.obl['obligations'],
            self.cov['evaluations'], len(self.distinct), len(self.disagreements), nviol, time.time() - self.t0), flush=True)
        return exit_code


def s2n(s):
    return [ord(c) for c in s]


def n2s(l):
    return ''.join(chr(c) for c in l)
