"""semantic projection of a parsed cssutils DOM onto the abstract form of
harness/gen_css.py (sem_sheet).  Nothing here depends on serialisation
preferences; numbers become exact Fractions of their shortest decimal form."""
from fractions import Fraction

import cssutils

COMB = {'child': '>', 'adjacent-sibling': '+', 'following-sibling': '~', 'descendant': ' '}
ATTROP = {'equals': '=', 'includes': '~=', 'dashmatch': '|=', 'prefixmatch': '^=', 'suffixmatch': '$=', 'substringmatch': '*='}


def frac(v):
    if isinstance(v, int):
        return Fraction(v)
    return Fraction(repr(v))


def sem_comp(v):
    T = type(v).__name__
    if T == 'DimensionValue':
        return ('num', frac(v.value), (v.dimension or '').lower())
    if T == 'ColorValue':
        if v.colorType == 'IDENT':
            return ('ident', v.cssText)
        return ('color', v.red, v.green, v.blue, frac(v.alpha))
    if T == 'URIValue':
        return ('url', v.uri)
    if T in ('CSSFunction', 'CSSCalc', 'MSValue', 'CSSVariable'):
        name = None
        items = []
        sep = ''
        first = True
        for it in v.seq:
            if it.type == 'FUNCTION':
                name = it.value[:-1].lower()
            elif it.type == 'CHAR' and it.value == ')':
                pass
            elif it.type in ('CHAR', 'operator') and it.value in (',', '/'):
                sep = it.value
            elif hasattr(it.value, 'cssText') and not isinstance(it.value, cssutils.css.CSSComment):
                items.append(('' if first else (sep or ' '), sem_comp(it.value)))
                first = False
                sep = ''
        return ('func', name, tuple(items))
    if T == 'Value':
        if v.type == 'STRING':
            return ('str', v.value)
        if v.type == 'UNICODE-RANGE':
            return ('urange', v.value.lower())
        return ('ident', v.value)
    return ('other', T, v.cssText)


def sem_value(pv):
    out = []
    sep = ''
    first = True
    for it in pv.seq:
        val = it.value
        if isinstance(val, cssutils.css.CSSComment):
            continue
        if it.type == 'operator':
            sep = val
            continue
        if hasattr(val, 'cssText'):
            out.append(('' if first else (sep or ' '), sem_comp(val)))
            first = False
            sep = ''
    return tuple(out)


def sem_decls(style):
    out = []
    for p in style.getProperties(all=True):
        out.append((p.name, sem_value(p.propertyValue), p.priority == 'important'))
    return tuple(out)


def style_comments(style):
    return tuple(i.value.cssText for i in style.seq if isinstance(i.value, cssutils.css.CSSComment))


def sem_selector(sel):
    comps = []
    cur_comb, el, simples = '', '', []
    items = list(sel.seq)
    i = 0
    started = False

    def flush():
        nonlocal el, simples, cur_comb
        comps.append((cur_comb, el, tuple(simples)))
        el, simples = '', []

    try:
        default_ns = dict(sel._namespaces.items()).get('')
    except Exception:  # noqa
        default_ns = None

    def qn(v, attr=False):
        """name, qualified when its namespace is not the one an unprefixed name would get"""
        if not isinstance(v, tuple):
            return v
        ns = v[0]
        if ns is None or (not attr and default_ns is not None and ns == default_ns):
            return v[1]
        if not isinstance(ns, str):
            return '{*}' + v[1]
        return '{%s}%s' % (ns, v[1])

    def parse_simple(i, neg=False):
        it = items[i]
        t, v = it.type, it.value
        if t in ('type-selector', 'negation-type-selector', 'universal', 'negation-universal'):
            return ('type', qn(v)), i + 1
        if t == 'id':
            return ('id', v[1:]), i + 1
        if t == 'class':
            return ('class', v[1:]), i + 1
        if t == 'attribute-start':
            name, op, val = '', '', ''
            i += 1
            while items[i].type != 'attribute-end':
                tt, vv = items[i].type, items[i].value
                if tt == 'attribute-selector':
                    name = qn(vv, attr=True)
                elif tt in ATTROP:
                    op = ATTROP[tt]
                elif tt in ('STRING', 'attribute-value', 'IDENT'):
                    val = vv
                i += 1
            return ('attr', name, op, val), i + 1
        if t == 'pseudo-class':
            if v.endswith('('):
                arg = ''
                i += 1
                while items[i].type != 'function-end':
                    arg += str(items[i].value)
                    i += 1
                return ('fpc', v[1:-1], arg.lower().replace(' ', '')), i + 1
            return ('pc', v[1:]), i + 1
        if t == 'pseudo-element':
            return ('pe', v.lstrip(':')), i + 1
        if t == 'negation-start':
            inner, j = parse_simple(i + 1, True)
            while items[j].type != 'negation-end':
                j += 1
            return ('not', inner), j + 1
        return ('other', t, str(v)), i + 1

    items = [it for it in items if it.type != 'COMMENT' and not isinstance(it.value, cssutils.css.CSSComment)]
    # white space next to another combinator (e.g. around a comment) is not a descendant combinator
    items = [it for k, it in enumerate(items)
             if not (it.type == 'descendant' and ((k + 1 < len(items) and items[k + 1].type in COMB) or
                                                  (k > 0 and items[k - 1].type in COMB and items[k - 1].type != 'descendant')))]
    while items and items[-1].type == 'descendant':
        items.pop()
    while i < len(items):
        it = items[i]
        t, v = it.type, it.value
        if t in COMB:
            flush()
            cur_comb = COMB[t]
            i += 1
            continue
        if t in ('type-selector', 'universal'):
            el = qn(v)
            i += 1
            continue
        s, i = parse_simple(i)
        simples.append(s)
    flush()
    return tuple(comps)


def strip_comments(t):
    import re
    return re.sub(r'/\*.*?\*/', '', t, flags=re.S).strip()


def media_queries(ml):
    """the MediaQuery objects of a list (iteration yields sequence items)"""
    out = []
    for it in ml:
        q = getattr(it, 'value', it)
        if hasattr(q, 'mediaType'):
            out.append(q)
    return out


def sem_media(ml):
    out = []
    for q in media_queries(ml):
        items = [(it.type, it.value) for it in q.seq if not isinstance(it.value, cssutils.css.CSSComment)]
        pre, mt, feats = None, None, []
        i = 0
        if items and items[0][0] == 'IDENT' and str(items[0][1]).lower() in ('only', 'not'):
            pre = str(items[0][1]).lower()
            i = 1
        if i < len(items) and items[i][0] == 'IDENT' and items[i][1] != '(':
            mt = str(items[i][1]).lower()
            i += 1
        while i < len(items):
            t, v = items[i]
            if t == 'CHAR' and v == '(':
                name = str(items[i + 1][1]).lower()
                val = None
                j = i + 2
                if items[j][1] == ':':
                    val = getattr(items[j + 1][1], 'cssText', items[j + 1][1])
                    j += 2
                feats.append((name, val))
                i = j + 1
            else:
                i += 1
        out.append((pre, mt, tuple(feats)))
    return tuple(out)


def sem_rule(r, comments=True):
    C = cssutils.css.CSSRule
    T = r.type
    if T == C.CHARSET_RULE:
        return ('charset', r.encoding)
    if T == C.IMPORT_RULE:
        return ('import', r.href, tuple(strip_comments(q.mediaText).lower() for q in media_queries(r.media)) or ('all',))
    if T == C.NAMESPACE_RULE:
        return ('namespace', r.prefix, r.namespaceURI)
    if T == C.STYLE_RULE:
        return ('style', tuple((sem_selector(s), tuple(s.specificity)) for s in r.selectorList), sem_decls(r.style))
    if T == C.MEDIA_RULE:
        return ('media', sem_media(r.media), tuple(x for x in (sem_rule(y, comments) for y in r.cssRules) if x is not None))
    if T == C.PAGE_RULE:
        return ('page', strip_comments(r.selectorText), sem_decls(r.style), tuple((m.margin, sem_decls(m.style)) for m in r.cssRules))
    if T == C.FONT_FACE_RULE:
        return ('font-face', sem_decls(r.style))
    if T == C.UNKNOWN_RULE:
        return ('unknown', r.atkeyword)
    if T == C.COMMENT:
        return ('comment', r.cssText[2:-2]) if comments else None
    return ('other', T, r.cssText)


def sem_sheet(sheet, comments=True):
    return tuple(x for x in (sem_rule(r, comments) for r in sheet.cssRules) if x is not None)
