"""recording the implementation's real slicing trace (Base._tokensupto2 calls on
the top-level token stream of a parse) and comparing it with Model/Slice.v and
Model/Blocks.v.  Pure harness-side instrumentation: /repo is not touched."""
import contextlib

import cssutils
import cssutils.util

from harness import impl
from harness.core import s2n

MODES = ['default', 'blockstartonly', 'blockendonly', 'mediaendonly', 'importmediaqueryendonly', 'mediaqueryendonly',
         'semicolon', 'propertynameendonly', 'propertyvalueendonly', 'propertypriorityendonly', 'selectorattendonly',
         'funcendonly', 'listseponly']


def enc_tokens(toks):
    out = []
    for t in toks:
        out += [impl.TOKCODE[t[0]], len(t[1])] + s2n(t[1])
    return out


def impl_slice(tokens, mode, start):
    """direct call of the implementation's _tokensupto2 on a token list"""
    b = cssutils.util.Base()
    kw = {} if mode == 'default' else {mode: True}
    it = iter(tokens[1:] if start else tokens)
    res = b._tokensupto2(it, starttoken=tokens[0] if start else None, **kw)
    return len(res)


@contextlib.contextmanager
def record_top_level():
    """records (mode, starttoken type, n tokens taken) for every _tokensupto2 call
    that reads from the FIRST tokenizer created inside the with-block"""
    rec = {'top': None, 'calls': []}
    orig_upto = cssutils.util.Base._tokensupto2
    orig_tok = cssutils.util.Base._tokenize2

    def tokenize2(self, textortokens):
        g = orig_tok(self, textortokens)
        if rec['top'] is None and g is not None:
            rec['top'] = g
        return g

    def upto(self, tokenizer, starttoken=None, **kw):
        res = orig_upto(self, tokenizer, starttoken, **kw)
        if tokenizer is not None and tokenizer is rec['top']:
            mode = [k for k, v in kw.items() if v and k != 'separateEnd']
            rec['calls'].append((mode[0] if mode else 'default', starttoken[0] if starttoken else None,
                                 len(res) if not kw.get('separateEnd') else len(res[0]) + (1 if res[1] else 0)))
        return res
    cssutils.util.Base._tokensupto2 = upto
    cssutils.util.Base._tokenize2 = tokenize2
    try:
        yield rec
    finally:
        cssutils.util.Base._tokensupto2 = orig_upto
        cssutils.util.Base._tokenize2 = orig_tok


def impl_sheet_trace(text):
    """lengths of the statements the sheet-level loop cut out"""
    impl.reset(raise_exceptions=False)
    with record_top_level() as rec:
        sheet = cssutils.css.CSSStyleSheet()
        toks = impl.tokenize(text, True, True)
        sheet.cssText = iter(toks)
    return toks, [c[2] for c in rec['calls'] if c[0] == 'default']


def impl_decl_trace(text):
    """(kind, n) events of the declaration loop: 1 = property slice, 3 = unexpected, 5 = at-rule"""
    impl.reset(raise_exceptions=False)
    with record_top_level() as rec:
        style = cssutils.css.CSSStyleDeclaration()
        toks = impl.tokenize(text, False, True)
        style.cssText = iter(toks)
    out = []
    for mode, st, n in rec['calls']:
        if mode == 'semicolon':
            out.append((1, n))
        elif mode == 'propertyvalueendonly':
            out.append((3, n))
        elif mode == 'default':
            out.append((5, n))
    return toks, out


def model_events(o, kinds):
    """decode entry_decl_split / entry_sheet_split output, keep the events of the given kinds"""
    if not o:
        return None
    ev = [(o[i], o[i + 1]) for i in range(1, len(o) - 1, 2)]
    return o[0], [e for e in ev if e[0] in kinds]


def correspondence(ctx, texts, do_slices=True):
    """run the three differential checks over the given texts; registers disagreements on ctx"""
    cases, keys = [], []
    rng = ctx.rng
    for text in texts:
        try:
            toks, strace = impl_sheet_trace(text)
            cases.append([42] + enc_tokens(toks))
            keys.append(('sheet_split', text, strace))
        except Exception as e:  # a crash here is C01's business; the tie just skips it
            ctx.count('slicing_skipped_' + type(e).__name__)
        try:
            toks, dtrace = impl_decl_trace(text)
            cases.append([41] + enc_tokens(toks))
            keys.append(('decl_split', text, dtrace))
        except Exception as e:
            ctx.count('slicing_skipped_' + type(e).__name__)
        if do_slices:
            toks = impl.tokenize(text, True, True)
            if toks:
                for _ in range(2):
                    mode = rng.randrange(len(MODES))
                    start = rng.random() < 0.5
                    k = rng.randrange(len(toks))
                    sub = toks[k:]
                    n = impl_slice(sub, MODES[mode], start)
                    cases.append([40, mode, 1 if start else 0] + enc_tokens(sub))
                    keys.append(('slice', (text, MODES[mode], start, k), n))
    if not ctx.model.available:
        ctx.broken.append(('correspondence', 'extracted model not available'))
        return 0
    outs = ctx.model.run(cases)
    agree = 0
    for (what, case, want), o in zip(keys, outs):
        if what == 'slice':
            ok = o == [want]
            got = o
        elif what == 'sheet_split':
            r = model_events(o, (7,))
            got = r and (r[0], [n for _, n in r[1]])
            ok = got == (0, want)
        else:
            r = model_events(o, (1, 3, 5))
            got = r and (r[0], [(k, n + (1 if k == 1 else 0)) for k, n in r[1]])
            # the model reports DProp with the trailing ; stripped: compare on the raw slice length instead
            ok = r is not None and r[0] == 0 and len(r[1]) == len(want) and all(
                a[0] == b[0] and (a[1] == b[1] or (a[0] == 1 and a[1] + 1 == b[1])) for a, b in zip(r[1], want))
        if ok:
            agree += 1
        else:
            ctx.disagree(what, {'case': case}, want, got)
    return agree, len(keys)
