#!/bin/sh
# usage: apply_fix.sh <patch file>  — apply to /repo, run the baseline tests, commit with the patch's header as message
set -e
P="$1"
cd /repo
git apply --check "$P"
git apply "$P"
N=$(/venv/bin/python -m pytest -q -p no:cacheprovider 2>&1 | tail -1)
echo "$N"
case "$N" in
  *"410 passed"*) ;;
  *) echo "TESTS CHANGED - reverting"; git checkout -- .; exit 1;;
esac
MSG=$(awk '/^diff --git/{exit} {print}' "$P")
git commit -qam "$MSG"
git log --oneline | head -1
