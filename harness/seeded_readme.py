"""write seeded/README.md from the result.json files"""
import glob
import json
import os

V = os.path.dirname(os.path.dirname(os.path.abspath(__file__)))
try:
    HIST = json.load(open(os.path.join(V, 'seeded', 'HISTORY.json')))
except Exception:
    HIST = {}
rows = []
for f in sorted(glob.glob(os.path.join(V, 'seeded', '*', '*', 'result.json'))):
    r = json.load(open(f))
    c = r.get('checks', {}).get(r['property'], {})
    rows.append((r['property'], r['variant'], (r.get('summary') or '')[:160].replace('|', '/').replace('\n', ' '),
                 'yes' if r.get('tests_pass') else 'NO', 'yes' if (r.get('demo_fails_with_change') and r.get('demo_passes_without')) else 'NO',
                 'caught' if c.get('caught') else 'MISSED', ', '.join(c.get('layers', [])) or '-', ', '.join(c.get('violation_kinds', []))[:120],
                 HIST.get('%s/%s' % (r['property'], r['variant']), {}).get('first_run', 'caught'),
                 HIST.get('%s/%s' % (r['property'], r['variant']), {}).get('strengthening', '-')))
with open(os.path.join(V, 'seeded', 'README.md'), 'w') as f:
    f.write('# Seeded changes\n\nEach directory `seeded/<property>/<variant>/` holds a change to jaraco/cssutils written by an independent sub-agent that '
            'was given only the property text and a scratch worktree: `patch.diff` (applies to /repo HEAD), `demo.py` (fails with the change, passes without), '
            '`meta.json` (what it needs to manifest) and `result.json` (what `harness/run_seeded.py` observed: baseline tests, demo in both directions, '
            'and the outcome of `VERIF_REPO=<patched tree> ./check <property> --tier quick`).\n\n'
            'Layers: *proof/translation* = a regenerated definition changed and an obligation no longer checks; *correspondence* = extracted model and '
            'implementation disagree; *search* = a property oracle found a concrete failing input (the replay).\n\n')
    f.write('Variants a, b: first round; c, d: second round (agents told what a, b were and asked for other mechanisms); e, f: third round (told about a-d, asked for what a reviewer would least expect); g, h: fourth round (DOM-only paths, second errors, aliasing, boundaries); i, j: fifth round (clauses and observation points no earlier seed touched). *first run* is the outcome '
            'when the seed first met the check; where it was not a catch by a concrete failing input, *strengthening* says what was added to the '
            'check afterwards (generators and oracles only - no check was loosened); the other columns are the current outcome.\n\n')
    f.write('| property | variant | change | 410 tests pass | demo ok | check | layers | violation kinds | first run | strengthening |\n|---|---|---|---|---|---|---|---|---|---|\n')
    for r in rows:
        f.write('| %s |\n' % ' | '.join(r))
    n = len(rows)
    caught = sum(1 for r in rows if r[5] == 'caught')
    f.write('\n%d of %d seeded changes are caught by the quick check of their property.\n' % (caught, n))
print(open(os.path.join(V, 'seeded', 'README.md')).read()[-400:])

# ---- benign refactorings
brows = []
for f in sorted(glob.glob(os.path.join(V, 'benign', '*', '*', 'result.json'))):
    r = json.load(open(f))
    c = r.get('checks', {}).get(r['property'], {})
    brows.append((r['property'], r['variant'], (r.get('summary') or '')[:200].replace('|', '/').replace('\n', ' '),
                  'yes' if r.get('tests_pass') else 'NO',
                  'passes' if not c.get('caught') else ('VIOLATION with a failing input' if 'search' in c.get('layers', []) else 'broken tie (no-failing-input-found)'),
                  ', '.join(c.get('layers', [])) or '-'))
if brows:
    with open(os.path.join(V, 'benign', 'README.md'), 'w') as f:
        f.write('# Benign refactorings\n\nBehaviour-preserving rewrites of jaraco/cssutils written by independent sub-agents (property text and a scratch '
                'worktree only), each with a differential `demo.py` whose digest is the same on both trees. A check should pass on them; when the rewrite '
                'changes the shape of code that a fail-closed translator reads, the tie breaks and the check reports `VIOLATION ... no-failing-input-found` '
                '(the protocol for a tie that no longer checks), never a violation with a failing input.\n\n')
        f.write('| property | variant | rewrite | 410 tests pass | check | layers |\n|---|---|---|---|---|---|\n')
        for r in brows:
            f.write('| %s |\n' % ' | '.join(r))
        f.write('\n%d of %d pass; %d break a tie; %d violations with a failing input.\n' % (
            sum(1 for r in brows if r[4] == 'passes'), len(brows), sum(1 for r in brows if r[4].startswith('broken')),
            sum(1 for r in brows if r[4].startswith('VIOLATION'))))
    print(open(os.path.join(V, 'benign', 'README.md')).read()[-120:])
