"""writes MANIFEST.json from the table below (single source of truth)"""
import json
import os

VERIF = os.path.dirname(os.path.dirname(os.path.abspath(__file__)))

TECH = 'Coq 8.16 theorems on a model (tables/regexes regenerated from source + hand model); extracted-model vs implementation correspondence; oracle search for the failing input'

CHECKS = {
    'C05': dict(
        text='Machine-checked (Coq, closed under the global context): for every text over Unicode code points the tokenizer model '
             'is total (no production list can get stuck: generated productions non-nullable and first-character cover by vm_compute), '
             'its spans tile the input, positions are the LF-counting advance over preceding spans (leading BOM zero-width), values are '
             'the span resp. its one-pass escape decoding, full-sheet mode ends in exactly one EOF. The lexical tables, regexes and literal sets are '
             'regenerated from cssproductions.py/tokenize2.py/helper.py on every run; the loop model is tied to Tokenizer.tokenize by '
             'differential runs of the extracted model. The recover-known-token-sequences clause (T5) and error-message positions are covered by the oracle search only.',
        note='Trusted: Coq kernel + vm_compute; translator/regex2coq.py with CPython re._parser as front end and per-class code-point queries; '
             'ExtrOcamlBasic extraction + 40-line OCaml driver; hand model of the tokenize loop (validated by correspondence on every run, not verified); '
             'independent reference escape decoder in the oracle.',
        design='7/C05'),
}

NOT_YET = {}


def main():
    props = [json.loads(l) for l in open(os.path.join(VERIF, 'properties.jsonl'))]
    checks = []
    na = []
    for p in props:
        pid = p['id']
        if pid in CHECKS:
            c = CHECKS[pid]
            checks.append({
                'property_id': pid,
                'quick_cmd': './check %s --tier quick' % pid,
                'thorough_cmd': './check %s --tier thorough' % pid,
                'evidence_file': 'evidence/%s.json' % pid,
                'replay_cmd_template': './check %s --replay {path}' % pid,
                'engine': 'coq-model+correspondence+search',
                'level_claimed': {'category': 'proof', 'text': c['text'], 'design_ref': 'DESIGN.md section ' + c['design']},
                'level_note': c['note'],
                'technique': c.get('technique', TECH),
            })
        else:
            na.append({'property_id': pid, 'reason': NOT_YET.get(pid, 'check not built yet (work in progress); no claim is made')})
    m = {
        'version': 1,
        'setup_cmd': './check --setup',
        'hooks': {
            'guard': 'CSSUTILS_VERIF',
            'enable': 'no source hooks are needed; checks run /repo in place with PYTHONPATH=/repo PYTHONHASHSEED=0 (CSSUTILS_VERIF=1 is exported but read by nothing)',
            'baseline_off_cmd': 'cd /repo && /venv/bin/python -m pytest -ra -q -p no:cacheprovider --timeout=900 --continue-on-collection-errors',
            'source_commits': [],
            'add_only': True,
        },
        'engines': [
            {'name': 'coq-model', 'path': 'coq', 'serves_properties': sorted(CHECKS), 'kind_free_text': 'Coq 8.16.1 development: Base (regex matcher, chars), Gen (regenerated from /repo every run), Model (executable hand models), Proofs, Props (statement-only files with Print Assumptions)'},
            {'name': 'translator', 'path': 'translator', 'serves_properties': sorted(CHECKS), 'kind_free_text': 'Python: regenerates coq/Gen/*.v from the live objects and ASTs of /repo; fail-closed'},
            {'name': 'correspondence', 'path': 'harness', 'serves_properties': sorted(CHECKS), 'kind_free_text': 'extracted OCaml model (coq/Extract) run against the implementation on generated cases; canonicalised diff'},
            {'name': 'search', 'path': 'harness/props', 'serves_properties': sorted(CHECKS), 'kind_free_text': 'property oracles evaluated directly on the implementation to find the concrete failing input (exploration, never counted as proof)'},
        ],
        'checks': checks,
        'not_applicable': na,
        'notes': 'See DESIGN.md. known_findings.json lists recorded/fixed defects; fix commits in /repo start with "fix:".',
    }
    with open(os.path.join(VERIF, 'MANIFEST.json'), 'w') as f:
        json.dump(m, f, indent=1)


if __name__ == '__main__':
    main()
