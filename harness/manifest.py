"""writes MANIFEST.json from the table below (single source of truth)"""
import json
import os

VERIF = os.path.dirname(os.path.dirname(os.path.abspath(__file__)))

TECH = 'Coq 8.16 theorems on a model (tables/regexes regenerated from source + hand model); extracted-model vs implementation correspondence; oracle search for the failing input'

def collect():
    import glob
    import importlib
    import sys
    sys.path.insert(0, VERIF)
    out = {}
    for f in sorted(glob.glob(os.path.join(VERIF, 'harness', 'props', 'c[0-9][0-9].py'))):
        pid = os.path.basename(f)[:-3].upper()
        mod = importlib.import_module('harness.props.' + pid.lower())
        if hasattr(mod, 'MANIFEST'):
            out[pid] = mod.MANIFEST
    return out


CHECKS = collect()

NOT_YET = {}


def main():
    props = [json.loads(l) for l in open(os.path.join(VERIF, 'properties.jsonl'))]
    checks = []
    na = []
    for p in props:
        pid = p['id']
        if pid in CHECKS:
            c = CHECKS[pid]
            checks.append({
                'property_id': pid,
                'quick_cmd': './check %s --tier quick' % pid,
                'thorough_cmd': './check %s --tier thorough' % pid,
                'evidence_file': 'evidence/%s.json' % pid,
                'replay_cmd_template': './check %s --replay {path}' % pid,
                'engine': 'coq-model+correspondence+search',
                'level_claimed': {'category': 'proof', 'text': c['text'], 'design_ref': 'DESIGN.md section ' + c['design']},
                'level_note': c['note'],
                'technique': c.get('technique', TECH),
            })
        else:
            na.append({'property_id': pid, 'reason': NOT_YET.get(pid, 'check not built yet (work in progress); no claim is made')})
    m = {
        'version': 1,
        'setup_cmd': './check --setup',
        'hooks': {
            'guard': 'CSSUTILS_VERIF',
            'enable': 'no source hooks are needed; checks run /repo in place with PYTHONPATH=/repo PYTHONHASHSEED=0 (CSSUTILS_VERIF=1 is exported but read by nothing)',
            'baseline_off_cmd': 'cd /repo && /venv/bin/python -m pytest -ra -q -p no:cacheprovider --timeout=900 --continue-on-collection-errors',
            'source_commits': [],
            'add_only': True,
        },
        'engines': [
            {'name': 'coq-model', 'path': 'coq', 'serves_properties': sorted(CHECKS), 'kind_free_text': 'Coq 8.16.1 development: Base (regex matcher, chars), Gen (regenerated from /repo every run), Model (executable hand models), Proofs, Props (statement-only files with Print Assumptions)'},
            {'name': 'translator', 'path': 'translator', 'serves_properties': sorted(CHECKS), 'kind_free_text': 'Python: regenerates coq/Gen/*.v from the live objects and ASTs of /repo; fail-closed'},
            {'name': 'correspondence', 'path': 'harness', 'serves_properties': sorted(CHECKS), 'kind_free_text': 'extracted OCaml model (coq/Extract) run against the implementation on generated cases; canonicalised diff'},
            {'name': 'search', 'path': 'harness/props', 'serves_properties': sorted(CHECKS), 'kind_free_text': 'property oracles evaluated directly on the implementation to find the concrete failing input (exploration, never counted as proof)'},
        ],
        'checks': checks,
        'not_applicable': na,
        'notes': 'See DESIGN.md. known_findings.json lists recorded/fixed defects; fix commits in /repo start with "fix:".',
    }
    with open(os.path.join(VERIF, 'MANIFEST.json'), 'w') as f:
        json.dump(m, f, indent=1)


if __name__ == '__main__':
    main()
