"""C16: selector trees, their expected specificity, and a path-driven renderer
that mirrors Model/Selector.v `render` position by position: it writes the
text AND the flat encoding (tree with the token values used + the finite
spelling table) that Model/SelectorRender.v decodes (ENTRY 163).

selector = [compound, (comb, compound)*]
compound = dict(head, simples, pe);  head = None | ('type', ns, name) | ('univ', ns)
simple   = ('id', n) | ('class', n) | ('attr', ns, n, op, val) | ('pc', word) | ('pfn', word, args) | ('not', arg)
pe       = (two_colon, word, args | None);   ns in (None, '*', '')
names are (spelling, token value) pairs; words are ASCII keywords respelled at render time;
args are typed tokens (kind, text)."""
from harness import gen_text as G

LEGACY = ['first-line', 'first-letter', 'before', 'after']
PCLASSES = ['hover', 'focus', 'link', 'visited', 'active', 'first-child', 'last-child', 'root', 'empty', 'checked',
            'enabled', 'disabled', 'target', 'only-child', 'x-y']
PFUNCS = ['nth-child', 'nth-last-child', 'nth-of-type', 'nth-last-of-type', 'lang', 'f', 'dir', 'x-fn']
PELEMS = ['selection', 'first-line', 'first-letter', 'before', 'after', 'marker', 'x-pe']
ATTOPS = ['=', '~=', '|=', '^=', '$=', '*=']
P, M = ('plus', '+'), ('minus', '-')
ANB = [[('ident', 'odd')], [('ident', 'even')], [('dim', '2n'), P, ('num', '1')], [('dim', '2n'), ('num', '+1')],
       [('ident', '-n'), P, ('num', '3')], [('ident', 'n')], [('num', '+5')], [('dim', '-2n-1')],
       [('dim', '2n'), M, ('num', '1')], [('ident', 'de')], [('ident', 'en-US')], [('string', '"x"')], [('num', '3')],
       [M, ('ident', 'n')], [P, ('ident', 'n'), P, ('num', '2')], [('dim', '1.5em')], [('ident', 'a'), ('ident', 'b')],
       [('dim', '0n'), ('num', '+0')], [('string', "'a b'"), ('ident', 'x')], [('num', '2'), ('ident', 'of')]]
ARGK = {'num': 0, 'dim': 1, 'string': 2, 'ident': 3, 'plus': 4, 'minus': 5}


def s2n(s):
    return [ord(c) for c in s]


def name(rng, start=True, escapes=True):
    for _ in range(20):
        sp, val = G.gen_name(rng, start=start, maxlen=4, escapes=escapes)
        low = val.lower().replace('\\', '')
        if low in ('u', 'url', 'not', 'and') or low.startswith('u+'):
            continue
        if sp.endswith('\r'):
            continue      # a hex escape terminated by CR would swallow a following LF (CRLF is one terminator)
        return sp, val
    return 'x', 'x'


def respell(rng, word):
    """a spelling of an ASCII keyword that normalises to it: letter case, simple and hex escapes.
    -> (spelling, token value)"""
    sp = val = ''
    for c in word:
        r = rng.random()
        if r < 0.55:
            sp += c; val += c
        elif r < 0.8:
            sp += c.upper(); val += c.upper()
        elif r < 0.9 and c not in '0123456789abcdefABCDEF-' and c.isalpha():
            sp += '\\' + c; val += '\\' + c
        else:
            d = rng.choice([c, c.upper()])
            sp += '\\%x ' % ord(d); val += d
    return sp, val


def string_body(rng, quote):
    """string content without backslashes in its value (how a backslash is serialised is the string property's
    business, not C16's); hex escapes of letters only.  -> (spelling, value)"""
    sp = val = ''
    for _ in range(rng.randrange(0, 6)):
        r = rng.random()
        if r < 0.7:
            c = G.pick(rng, 'abc xyz019;{}()[]/*@#.,:-_%!>+~|=')
            sp += c; val += c
        elif r < 0.8:
            c = "'" if quote == '"' else '"'
            sp += c; val += c
        elif r < 0.9:
            c = G.pick(rng, G.NONASCII[:6])
            sp += c; val += c
        else:
            c = G.pick(rng, 'ghxyzGH')
            sp += '\\%x ' % ord(c); val += c
    return sp, val


def gen_ns(rng):
    r = rng.random()
    return None if r < 0.8 else ('*' if r < 0.92 else '')


def gen_attr(rng):
    n = name(rng)
    if rng.random() < 0.35:
        return ('attr', gen_ns(rng), n, None, None)
    op = rng.choice(ATTOPS)
    if rng.random() < 0.5:
        v = ('ident', name(rng))
    else:
        q = rng.choice('"\'')
        s, v_ = string_body(rng, q)
        v = ('string', (q + s + q, q + v_ + q))
    return ('attr', gen_ns(rng), n, op, v)


def gen_args(rng):
    return list(rng.choice(ANB))


def gen_simple(rng, allow_not=True):
    r = rng.random()
    if r < 0.2:
        return ('id', name(rng, start=rng.random() < 0.7))
    if r < 0.45:
        return ('class', name(rng))
    if r < 0.65:
        return gen_attr(rng)
    if r < 0.77:
        return ('pc', rng.choice(PCLASSES))
    if r < 0.86:
        return ('pfn', rng.choice(PFUNCS), gen_args(rng))
    if not allow_not:
        return ('class', name(rng))
    k = rng.random()
    if k < 0.25:
        arg = ('type', gen_ns(rng), name(rng))
    elif k < 0.33:
        arg = ('univ', gen_ns(rng))
    else:
        arg = gen_simple(rng, allow_not=False)
    return ('not', arg)


def gen_compound(rng, last):
    r = rng.random()
    head = None if r < 0.3 else (('univ', gen_ns(rng)) if r < 0.42 else ('type', gen_ns(rng), name(rng)))
    simples = [gen_simple(rng) for _ in range(rng.choice([0, 0, 1, 1, 1, 2, 2, 3, 4]))]
    pe = None
    if rng.random() < (0.3 if last else 0.05):
        nm = rng.choice(PELEMS)
        two = True if nm not in LEGACY else rng.random() < 0.5
        pe = (two, nm, gen_args(rng) if (two and rng.random() < 0.2) else None)
    if head is None and not simples and pe is None:
        simples = [('class', name(rng))]
    return dict(head=head, simples=simples, pe=pe)


def gen_selector(rng, maxc=4):
    n = rng.choice([1, 1, 1, 2, 2, 3, maxc])
    sel = [gen_compound(rng, n == 1)]
    for i in range(1, n):
        sel.append((rng.choice([' ', ' ', '>', '+', '~']), gen_compound(rng, i == n - 1)))
    return sel


def count_simple(s):
    k = s[0]
    if k == 'id':
        return (1, 0, 0)
    if k in ('class', 'attr'):
        return (0, 1, 0)
    if k in ('pc', 'pfn', 'univ'):
        return (0, 0, 0)       # cssutils (and the property text) do not count pseudo-classes
    if k == 'type':
        return (0, 0, 1)
    if k == 'not':
        return count_simple(s[1])
    raise ValueError(k)


def count(sel):
    """(0, ids, classes + attributes, types + pseudo-elements) by construction"""
    b = c = d = 0
    comps = [sel[0]] + [x[1] for x in sel[1:]]
    for comp in comps:
        if comp['head'] and comp['head'][0] == 'type':
            d += 1
        if comp['pe']:
            d += 1
        for s in comp['simples']:
            x = count_simple(s)
            b, c, d = b + x[0], c + x[1], d + x[2]
    return (0, b, c, d)


def enc_str(s):
    return [len(s)] + s2n(s)


NSK = {None: 0, '*': 1, '': 2}


def needs_sep(prev, nxt):
    """would the two argument tokens fuse when written without a separator?"""
    pk, pt = prev
    nk, nt = nxt
    if pk == 'string' or nk == 'string':
        return False
    if nk in ('num', 'dim') and nt[0] == '+' and pk in ('num', 'dim', 'ident'):
        return False
    if nk == 'plus':
        return False
    if pk == 'plus' and nk == 'ident' and nt[0] not in '0123456789':
        return False
    return True


class R:
    """one rendering of a tree: level 0 = canonical (no optional white space / comments, keywords as is),
    level 1 = random spelling.  Positions are the paths of Model/Selector.v (sub / gap / cgap)."""

    def __init__(self, rng, level):
        self.rng, self.level = rng, level
        self.fills, self.nots, self.descs = {}, {}, {}

    # ---- spelling choices
    def comment(self):
        body = ''.join(G.pick(self.rng, 'ab *\n/{};x,>+~[]():.#') for _ in range(self.rng.randrange(0, 5))).replace('*/', '* /')
        return '/*' + body + '*/'

    def ws(self):
        return ''.join(G.pick(self.rng, G.WS) for _ in range(self.rng.randrange(1, 3)))

    def gap(self, path, p=0.3, force=False, edge_ws=True, comments_only=False):
        """choose, record and write the fillers at a position"""
        items = []
        if self.level:
            while self.rng.random() < p:
                if (items and items[-1][0] == 0) or self.rng.random() < 0.4:
                    items.append((1, self.comment()))
                else:
                    items.append((0, self.ws()))
        if not edge_ws:
            while items and items[0][0] == 0:
                items.pop(0)
            while items and items[-1][0] == 0:
                items.pop()
        if force and not [i for i in items if not (comments_only and i[0] == 0)]:
            items = [(0, ' ')]
        if items:
            self.fills[tuple(path)] = items
        return ''.join(t for k, t in items if not (comments_only and k == 0))

    def kw(self, word):
        return (word, word) if self.level == 0 else respell(self.rng, word)

    # ---- tree
    def nsp(self, ns):
        return ('' if ns is None else ns + '|'), [NSK[ns]]

    def args(self, pre, args):
        text, enc = '', [len(args)]
        for j, a in enumerate(args):
            kind = a[0]
            enc += [ARGK[kind]] + (enc_str(a[1]) if kind not in ('plus', 'minus') else [])
            text += a[1]
            last = j == len(args) - 1
            text += self.gap(pre + [j + 1], p=0.4, force=(not last) and needs_sep(a, args[j + 1]))
        return text, enc

    def atom(self, pre, s):
        k = s[0]
        if k == 'id':
            return '#' + s[1][0], [0] + enc_str('#' + s[1][1])
        if k == 'class':
            return '.' + s[1][0], [1] + enc_str(s[1][1])
        if k == 'attr':
            _, ns, n, op, v = s
            nt, ne = self.nsp(ns)
            text = '[' + self.gap(pre + [0]) + nt + n[0] + self.gap(pre + [1])
            enc = [2] + ne + enc_str(n[1])
            if op:
                text += op + self.gap(pre + [2]) + v[1][0] + self.gap(pre + [3])
                enc += [1, ATTOPS.index(op), 0 if v[0] == 'ident' else 1] + enc_str(v[1][1])
            else:
                enc += [0]
            return text + ']', enc
        if k == 'pc':
            sp, val = self.kw(s[1])
            return ':' + sp, [3] + enc_str(val)
        if k == 'pfn':
            sp, val = self.kw(s[1])
            g0 = self.gap(pre + [0])
            at, ae = self.args(pre, s[2])
            return ':' + sp + '(' + g0 + at + ')', [4] + enc_str(val + '(') + ae
        raise ValueError(k)

    def negarg(self, pre, s):
        if s[0] == 'type':
            nt, ne = self.nsp(s[1])
            return nt + s[2][0], [1] + ne + enc_str(s[2][1])
        if s[0] == 'univ':
            nt, ne = self.nsp(s[1])
            return nt + '*', [2] + ne
        t, e = self.atom(pre, s)
        return t, [0] + e

    def part(self, pre, s):
        if s[0] != 'not':
            t, e = self.atom(pre, s)
            return t, [0] + e
        sp, val = self.kw('not')
        if val + '(' != 'not(':
            self.nots[tuple(pre)] = val + '('
        g0 = self.gap(pre + [0])
        t, e = self.negarg(pre + [1], s[1])
        g2 = self.gap(pre + [2])
        return ':' + sp + '(' + g0 + t + g2 + ')', [1] + e

    def compound(self, pre, c):
        text, enc = '', []
        h = c['head']
        if h is None:
            enc += [0]
        elif h[0] == 'type':
            nt, ne = self.nsp(h[1])
            text += nt + h[2][0]
            enc += [1] + ne + enc_str(h[2][1])
        else:
            nt, ne = self.nsp(h[1])
            text += nt + '*'
            enc += [2] + ne
        enc += [len(c['simples'])]
        for i, s in enumerate(c['simples']):
            text += self.gap(pre + [0, 0, i], p=0.15, comments_only=True)
            t, e = self.part(pre + [0, 1, i], s)
            text += t
            enc += e
        if c['pe']:
            two, nm, args = c['pe']
            text += self.gap(pre + [1], p=0.15, comments_only=True)
            sp, val = self.kw(nm)
            text += ('::' if two else ':') + sp
            enc += [1, 1 if two else 0]
            if args is None:
                enc += enc_str(val) + [0]
            else:
                g0 = self.gap(pre + [2, 0])
                at, ae = self.args(pre + [2], args)
                text += '(' + g0 + at + ')'
                enc += enc_str(val + '(') + [1] + ae
        else:
            enc += [0]
        return text, enc

    def selector(self, sel):
        text = self.gap([0])
        t, enc = self.compound([1], sel[0])
        text += t
        enc += [len(sel) - 1]
        for i, (cb, c) in enumerate(sel[1:]):
            pre = [2, 0, i]
            if cb == ' ':
                w = self.ws() if self.level else ' '
                if w != ' ':
                    self.descs[tuple(pre)] = w
                text += self.gap(pre + [0], p=0.15, edge_ws=False) + w + self.gap(pre + [1], p=0.15, edge_ws=False)
            else:
                text += self.gap(pre + [0]) + cb + self.gap(pre + [1])
            enc += [{' ': 0, '>': 1, '+': 2, '~': 3}[cb]]
            t, e = self.compound([2, 1, i], c)
            text += t
            enc += e
        text += self.gap([3])
        return text, enc

    def spelling_enc(self):
        out = [len(self.fills)]
        for path, items in self.fills.items():
            out += [len(path)] + list(path) + [len(items)]
            for k, t in items:
                out += [k] + enc_str(t)
        for table in (self.nots, self.descs):
            out.append(len(table))
            for path, s in table.items():
                out += [len(path)] + list(path) + enc_str(s)
        return out


def render(rng, sel, level):
    """-> (text, flat encoding of tree + spelling for ENTRY 163)"""
    r = R(rng, level)
    text, enc = r.selector(sel)
    return text, enc + r.spelling_enc()
