"""generators of CSS text: token sequences with known types/values, and
malformed character soup.  Every choice comes from the rng passed in."""

HEX = '0123456789abcdefABCDEF'
NMSTART = 'abcdefghijklmnopqrstuvwxyzABCDEFGHIJKLMNOPQRSTUVWXYZ_'
NMCHAR = NMSTART + '0123456789-'
NONASCII = ['ä', 'ÿ', 'Ā', 'K', 'İ', '中', '\U0001f600', ' ', ' ', '﻿']
WS = [' ', '\t', '\n', '\r', '\f', '\r\n']
RESERVED_AT = ['import', 'media', 'page', 'namespace', 'font-face', 'variables']
UNITS = ['px', 'em', 'ex', '%', 'pt', 'cm', 'mm', 'in', 'pc', 'deg', 's', 'ms', 'Hz', 'kHz', 'rad', 'grad', 'x', 'e1', 'E', '-a']


def pick(rng, xs):
    return xs[rng.randrange(len(xs))]


def esc_char(rng, c, allow_simple=True, hexonly=False):
    """spell one name character, possibly as an escape.
    returns (spelling, value as the tokenizer's unicodesub leaves it, ends_with_hex_escape)"""
    r = rng.random()
    if r < 0.80 and not hexonly:
        return c, c, False
    if r < 0.93 or hexonly or not allow_simple or c in HEX or c in '\n\r\f':
        h = '%x' % ord(c)
        if rng.random() < 0.3:
            h = h.upper()
        k = rng.randrange(5)
        if k == 4:
            # directly followed by a character that is Unicode white space but a plain name character in CSS
            w = pick(rng, ['\xa0', '\x85', '\u2028', '\u3000', '\u2003'])
            return '\\' + h.rjust(pick(rng, [len(h), 6]), '0') + w, c + w, False
        if k == 0:
            h = h.rjust(6, '0')
            return '\\' + h + pick(rng, [' ', '\n', '\t']), c, False    # six digits; one following blank is eaten
        if k == 1:
            return '\\' + h + ' ', c, False    # terminator eaten
        if k == 2:
            t = pick(rng, ['\t', '\n', '\r\n', '\f', '\r'])
            return '\\' + h + t, c, False
        return '\\' + h.rjust(rng.randrange(len(h), 7), '0') + ' ', c, False
    return '\\' + c, '\\' + c, False


def gen_name(rng, start=True, maxlen=6, escapes=True):
    n = rng.randrange(1, maxlen + 1)
    sp, val = '', ''
    pre = pick(rng, ['', '', '', '-', '--']) if start else ''
    sp += pre
    val += pre
    for i in range(n):
        pool = NMSTART if (i == 0 and start) else NMCHAR
        c = pick(rng, pool) if rng.random() < 0.9 else pick(rng, NONASCII[:7])
        if escapes:
            s, v, _ = esc_char(rng, c)
        else:
            s, v = c, c
        sp += s
        val += v
    return sp, val


def gen_num(rng):
    sign = pick(rng, ['', '', '', '+', '-'])
    k = rng.randrange(4)
    if k == 0:
        body = str(rng.randrange(0, 10 ** rng.randrange(1, 8)))
    elif k == 1:
        body = '%d.%s' % (rng.randrange(0, 1000), ''.join(pick(rng, '0123456789') for _ in range(rng.randrange(1, 7))))
    elif k == 2:
        body = '.' + ''.join(pick(rng, '0123456789') for _ in range(rng.randrange(1, 7)))
    else:
        body = pick(rng, ['0', '00', '0.0', '007', '1.50', '10', '0.5'])
    return sign + body


def gen_string_body(rng, quote, maxlen=8, continuation=True):
    sp, val = '', ''
    for _ in range(rng.randrange(0, maxlen)):
        r = rng.random()
        if r < 0.6:
            c = pick(rng, 'abc xyz019;{}()/*@#.,:-_%!')
            sp += c; val += c
        elif r < 0.68:
            other = "'" if quote == '"' else '"'
            sp += other; val += other
        elif r < 0.76:
            sp += '\\' + quote; val += '\\' + quote      # kept raw by the tokenizer
        elif r < 0.82 and continuation:
            nl = pick(rng, ['\n', '\r\n', '\r', '\f'])
            sp += '\\' + nl                               # line continuation: removed by cleanstring
        elif r < 0.90:
            c = pick(rng, 'gz "\'\\\nä')
            s, v, _ = esc_char(rng, c, hexonly=True)
            sp += s; val += v
        elif r < 0.95:
            c = pick(rng, NONASCII)
            sp += c; val += c
        else:
            c = pick(rng, 'gGzZ-!\\')
            sp += '\\' + c; val += '\\' + c
    return sp, val


def gen_token(rng, escapes=True):
    """-> dict(type, text, value, glue) ; glue = True if a following space
    would be swallowed by a trailing hex escape (needs a comment separator)"""
    k = rng.randrange(22)
    if k == 0:
        s, v = gen_name(rng, escapes=escapes)
        if v.lower().replace('\\', '') in ('url', 'u') or v.lower().startswith('u+'):
            s = v = 'x' + v.replace('\\', '')
        return dict(type='IDENT', text=s, value=v)
    if k == 1:
        s, v = gen_name(rng, escapes=escapes)
        if v.lower().replace('\\', '') == 'url':
            s = v = 'f'
        return dict(type='FUNCTION', text=s + '(', value=v + '(')
    if k == 2:
        if rng.random() < 0.5:
            nm = pick(rng, RESERVED_AT)
            sp = ''.join(c.upper() if rng.random() < 0.3 else c for c in nm)
            ty = {'import': 'IMPORT_SYM', 'media': 'MEDIA_SYM', 'page': 'PAGE_SYM', 'namespace': 'NAMESPACE_SYM',
                  'font-face': 'FONT_FACE_SYM', 'variables': 'VARIABLES_SYM', 'charset': 'ATKEYWORD'}[nm]
            return dict(type=ty, text='@' + sp, value='@' + sp)
        s, v = gen_name(rng, escapes=False)
        if v.lower() in RESERVED_AT or v.lower() == 'charset':
            s = v = v + 'x'
        if rng.random() < 0.3:
            # a hex escape ended by a line break inside the keyword (the value of an at-keyword is its source text)
            c = pick(rng, 'ghijkxyz')
            s = s + '\\%x%s' % (ord(c), pick(rng, ['\n', '\r\n', ' ', '\t'])) + 'q'
        return dict(type='ATKEYWORD', text='@' + s, value='@' + s)
    if k == 3:
        s, v = gen_name(rng, start=False, escapes=escapes)
        return dict(type='HASH', text='#' + s, value='#' + v)
    if k in (4, 5):
        q = pick(rng, ['"', "'"])
        s, v = gen_string_body(rng, q)
        return dict(type='STRING', text=q + s + q, value=q + v + q)
    if k == 6:
        if rng.random() < 0.5:
            q = pick(rng, ['"', "'"])
            s, v = gen_string_body(rng, q, 5, continuation=False)
            w1, w2 = pick(rng, ['', ' ', '\n ']), pick(rng, ['', ' ', '\t'])
            head = pick(rng, ['url(', 'URL(', 'uRl(', 'u\\rl(', '\\75 rl('])
            hv = {'\\75 rl(': 'url('}.get(head, head)
            return dict(type='URI', text=head + w1 + q + s + q + w2 + ')', value=hv + w1 + q + v + q + w2 + ')')
        body = ''.join(pick(rng, 'abc/._-~:?&=%#!$*+019') for _ in range(rng.randrange(0, 8)))
        return dict(type='URI', text='url(' + body + ')', value='url(' + body + ')')
    if k == 7:
        n = gen_num(rng)
        return dict(type='NUMBER', text=n, value=n)
    if k == 8:
        n = gen_num(rng)
        return dict(type='PERCENTAGE', text=n + '%', value=n + '%')
    if k == 9:
        n = gen_num(rng)
        s, v = gen_name(rng, escapes=escapes, maxlen=3)
        if s[0] in 'eE' and False:
            pass
        return dict(type='DIMENSION', text=n + s, value=n + v)
    if k == 10:
        a = ''.join(pick(rng, '0123456789abcdefABCDEF?') for _ in range(rng.randrange(1, 7)))
        t = pick(rng, ['U+', 'u+']) + a
        if rng.random() < 0.4:
            t += '-' + ''.join(pick(rng, HEX) for _ in range(rng.randrange(1, 7)))
        return dict(type='UNICODE-RANGE', text=t, value=t)
    if k == 11:
        op = pick(rng, [('INCLUDES', '~='), ('DASHMATCH', '|='), ('PREFIXMATCH', '^='), ('SUFFIXMATCH', '$='),
                        ('SUBSTRINGMATCH', '*='), ('CDO', '<!--'), ('CDC', '-->')])
        return dict(type=op[0], text=op[1], value=op[1])
    if k == 12:
        body = ''.join(pick(rng, 'ab *\n/{};"\'\\x') for _ in range(rng.randrange(0, 8)))
        body = body.replace('*/', '* /')
        # "\" followed by hex would be decoded: keep comments free of hex escapes
        body = body.replace('\\a', '\\ g').replace('\\b', '\\ g')
        return dict(type='COMMENT', text='/*' + body + '*/', value='/*' + body + '*/')
    if k == 13:
        w = ''.join(pick(rng, WS) for _ in range(rng.randrange(1, 4)))
        return dict(type='S', text=w, value=w)
    c = pick(rng, ',:;{}>[]()+~*.=/!&<|^$`?')
    return dict(type='CHAR', text=c, value=c)


def ends_with_hex_escape(text):
    import re
    return re.search(r'\\[0-9a-fA-F]{1,6}$', text) is not None


def render_tokens(rng, toks):
    """join tokens with unambiguous separators; returns (text, expected list
    of (type, value)) including the separators"""
    out = []
    text = ''
    for i, t in enumerate(toks):
        if i > 0:
            prev = toks[i - 1]
            if prev['type'] == 'S' or t['type'] == 'S' or ends_with_hex_escape(prev['text']):
                # S next to S would fuse; put a comment in between
                sep = '/**/'
            elif rng.random() < 0.6:
                sep = ' '
            else:
                sep = '/**/'
            if sep == ' ':
                out.append(('S', ' '))
            else:
                out.append(('COMMENT', '/**/'))
            text += sep
        text += t['text']
        out.append((t['type'], t['value']))
    return text, out


SOUP = list('abcuUrRlL019-+.%#@!*/\\"\'(){}[];:,<>=~|^$ \n\t\r\f?&_eE') + NONASCII + ['\x00', '\x7f', '\ud800']
FRAGMENTS = ['/*', '*/', 'url(', '@charset ', '@import', '@media', '@namespace', '@page', '@font-face', '@variables',
             '<!--', '-->', '\\', '\\41 ', '\\000041', '\\\n', 'u+', 'U+0-7F', 'and(', 'AND (', '!important', 'rgb(',
             'var(', 'calc(', 'expression(', 'progid:', '1e3', '.5', '-.5em', '+1', '--x', '-\\-', '"\\"', "'\\'",
             'a{b:c}', '@x{', '}', '{', ';', '@\\6d\nedia', '@\\70\npage ', '@x\\41\n', '@\\69\r\nmport', '"\n"', "'\n'", '"x\n"x', "'a\n;b:'a",
             '*|*|*', 'p|*|*', 'a|b|c', '*|*|b', '||', '|*|', '@x \\7d ', '\\7d ', '\\7b ', '@x \\7b y;', '@foo url() bar;', '@import url(', '@namespace url(',
             '@x url( ) ;', 'url()', 'url( )', 'rgb(' + '9' * 308 + '%,1%,1%)', 'hsl(' + '9' * 308 + ',' + '9' * 308 + '%,1%)', '@charset "idna";', '#fff\\a ', 'color:#abcdef\\a;', '#fff\\\n', 'rgb(1,2,3\\a )', 'red\\a ', '@x url({) a b;', '@x {url(})}', 'url({)', 'url(})', '@x "}";', '@x {"}"}', '"{"', '"}"', "'}'", '@charset "hex";', '@charset "idna";',
             '@charset "undefined";', '@charset "rot13";', '@charset "css";', "@charset'foo';", '@CHARSET "foo";', '@charset"foo";', '@charset  "foo";', '9' * 400 + '.5px', '9' * 5000, 'rgb(' + '9' * 400 + '.5%,1%,1%)', 'calc(', 'calc(calc(1',
             '1e400', '-' + '9' * 330, 'hsl(' + '9' * 400 + ',1%,1%)', 'rgb(' + '9' * 400 + '%,1%,1%)', 'rgba(1,1,1,' + '9' * 400 + ')',
             '@import "http://[x";', '@import url(//[);', 'url(http://[x)', '@import "http://a:b/";', '@namespace p ""; @namespace p "v"; p|a{}', '﻿', '\xfe\xff', '\xef\xbb\xbf', ':not(', '::', '|', '*|', '~=']


def gen_soup(rng, maxlen=24):
    n = rng.randrange(0, maxlen)
    out = []
    for _ in range(n):
        if rng.random() < 0.3:
            out.append(pick(rng, FRAGMENTS))
        else:
            out.append(pick(rng, SOUP))
    return ''.join(out)


SHEETS = [
    'a { color: red; top: 1px }',
    '@charset "utf-8"; @import url(x.css) screen, print; @namespace p "http://x"; p|a, b > c { margin: 0 -1px .5em 10% }',
    '@media screen and (min-width: 100px) { a:hover::before { content: "x\\"y"; background: url( "a b.png" ) #fff } }',
    '@page :first { margin: 1in; @top-left { content: "t" } } @font-face { font-family: "X"; src: url(x.ttf) }',
    'a[b~="c"]:not(.d)#e + f ~ g { font: 12px/1.5 "Arial", sans-serif !important; color: rgba(1,2,3,.5) }',
    '/* c1 */ a { /* c2 */ left: calc(1px + 2%); x: U+0-7F, u+4?? } @unknown x { y } <!-- b {} -->',
    '@variables { c: #f00 } a { color: var(c); width: expression(1+1) }',
]


def gen_truncation(rng):
    s = pick(rng, SHEETS)
    k = rng.randrange(0, len(s) + 1)
    return s[:k]
