(* driver: one case per line "op a1 a2 ..." (decimal ints) -> one line of ints *)
open Model

let rec pos_of_int (n : int) : positive =
  if n = 1 then XH
  else if n land 1 = 0 then XO (pos_of_int (n lsr 1))
  else XI (pos_of_int (n lsr 1))

let n_of_int (n : int) : n = if n = 0 then N0 else Npos (pos_of_int n)

let rec int_of_pos (p : positive) : int =
  match p with XH -> 1 | XO q -> 2 * int_of_pos q | XI q -> 2 * int_of_pos q + 1

let int_of_n (x : n) : int = match x with N0 -> 0 | Npos p -> int_of_pos p

let () =
  let buf = Buffer.create 65536 in
  (try
     while true do
       let line = input_line stdin in
       let parts = List.filter (fun s -> s <> "") (String.split_on_char ' ' line) in
       (match parts with
        | [] -> print_newline ()
        | op :: args ->
          let res =
            try Some (dispatch (n_of_int (int_of_string op))
                        (List.map (fun a -> n_of_int (int_of_string a)) args))
            with Stack_overflow -> None in
          Buffer.clear buf;
          (match res with
           | None -> Buffer.add_string buf "-1"
           | Some r ->
             List.iteri (fun i x ->
                 if i > 0 then Buffer.add_char buf ' ';
                 Buffer.add_string buf (string_of_int (int_of_n x))) r);
          print_string (Buffer.contents buf);
          print_newline ())
     done
   with End_of_file -> ())
