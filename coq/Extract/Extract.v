(* Extraction of the executable models.  ExtrOcamlBasic only: bool, option,
   unit, list, prod, sumbool are mapped to OCaml natives; numbers (nat, N,
   positive, Z) stay the extracted inductives.  No Extract Constant. *)
From Coq Require Import ExtrOcamlBasic.
From CssV Require Import Model.Entries.
Extraction "model.ml" dispatch.
