(* Proofs/TokenizerFacts.v — the tokenizer model is total, tiles its input,
   keeps positions and values; for every text.  Facts about the *generated*
   tables enter only through boolean checks decided by vm_compute, so a
   language-preserving rewrite of the macros leaves the proofs intact. *)
From Coq Require Import List NArith Bool Arith Lia.
From CssV Require Import Base.Regex Base.Chars Base.Tokens Gen.GenLex Model.Tokenizer
  Proofs.RegexFacts Proofs.CharsFacts.
Import ListNotations.
Local Open Scope N_scope.

Definition valid_text (s : str) : Prop := Forall (fun c => c <= 1114111) s.

(* ---- decidable facts about the generated tables ---- *)
Definition nonnull_check : bool := forallb (fun p => negb (nullable (snd p))) productions.
Lemma nonnull_ok : nonnull_check = true. Proof. vm_compute. reflexivity. Qed.

Definition cover_cls : cls :=
  flat_map (fun p => if tokty_eqb (fst p) T_IDENT then [] else sure_first (snd p)) (tl productions).
Lemma cover_ok : covers cover_cls 0 1114111 = true. Proof. vm_compute. reflexivity. Qed.

Lemma uri_nonnull : nullable (prod_of T_URI) = false. Proof. vm_compute. reflexivity. Qed.
Lemma fast_no_lf : mem_char 10 fastchars = false. Proof. vm_compute. reflexivity. Qed.
Lemma atk_not_decoding :
  forallb (fun p => negb (kind_in (snd p) decoding_kinds)) atkeywords = true.
Proof. vm_compute. reflexivity. Qed.
Lemma syms_not_decoding :
  kind_in T_CHARSET_SYM decoding_kinds = false /\ kind_in T_ATKEYWORD decoding_kinds = false.
Proof. vm_compute. split; reflexivity. Qed.

Lemma prods_nonnull name r : In (name, r) (tl productions) -> nullable r = false.
Proof.
  intros Hin. pose proof nonnull_ok as H. unfold nonnull_check in H.
  rewrite forallb_forall in H. assert (Hin' : In (name, r) productions).
  { destruct productions; [contradiction|now right]. }
  specialize (H _ Hin'). cbn [snd] in H. now destruct (nullable r).
Qed.

(* ---- the production scan ---- *)
Lemma scan_none F full doc prods s :
  scan_prods F full doc prods s = ScNone ->
  forall name r, In (name, r) prods -> tokty_eqb name T_IDENT = false -> pm F r s = None.
Proof.
  induction prods as [|[n r0] rest IH]; intros H name r Hin Hid; [contradiction|].
  cbn [scan_prods] in H.
  destruct (full && tokty_eqb n T_CHAR && starts_with s_comment_open s
            && matches F (prod_of T_COMMENT) (s ++ s_comment_close) && doc); [discriminate|].
  destruct (pm F r0 s) as [[found after]|] eqn:E.
  - destruct (tokty_eqb n T_IDENT && negb (str_eqb (lower found) s_and)
              && match after with c :: _ => c =? 40 | [] => false end) eqn:Es; [|discriminate].
    destruct Hin as [Heq|Hin].
    + inversion Heq; subst. rewrite Hid in Es. discriminate.
    + now apply (IH H name r).
  - destruct Hin as [Heq|Hin].
    + now inversion Heq; subst.
    + now apply (IH H name r).
Qed.

Lemma scan_tok F full doc prods s name found :
  scan_prods F full doc prods s = ScTok name found ->
  exists r after, In (name, r) prods /\ pm F r s = Some (found, after).
Proof.
  induction prods as [|[n r0] rest IH]; intros H; cbn [scan_prods] in H; [discriminate|].
  destruct (full && tokty_eqb n T_CHAR && starts_with s_comment_open s
            && matches F (prod_of T_COMMENT) (s ++ s_comment_close) && doc); [discriminate|].
  destruct (pm F r0 s) as [[f after]|] eqn:E.
  - destruct (tokty_eqb n T_IDENT && negb (str_eqb (lower f) s_and)
              && match after with c :: _ => c =? 40 | [] => false end).
    + destruct (IH H) as (r & a & Hin & Hp). exists r, a. split; [now right|assumption].
    + inversion H; subst. exists r0, after. split; [now left|assumption].
  - destruct (IH H) as (r & a & Hin & Hp). exists r, a. split; [now right|assumption].
Qed.

Lemma scan_nofull_nocomment F doc prods s f : scan_prods F false doc prods s <> ScComment f.
Proof.
  induction prods as [|[n r0] rest IH]; cbn [scan_prods]; [discriminate|].
  cbn [andb]. destruct (pm F r0 s) as [[f' after]|]; [|exact IH].
  destruct (tokty_eqb n T_IDENT && negb (str_eqb (lower f') s_and)
            && match after with c :: _ => c =? 40 | [] => false end); [exact IH|discriminate].
Qed.

Lemma scan_not_stuck F full doc c t :
  c <= 1114111 -> scan_prods (S F) full doc (tl productions) (c :: t) <> ScNone.
Proof.
  intros Hc Hs.
  assert (Hm : cls_mem c cover_cls = true).
  { apply (covers_sound _ _ _ cover_ok). lia. }
  unfold cover_cls in Hm. apply cls_mem_flat_map in Hm.
  destruct Hm as ([name r] & Hin & Hm). cbn [fst snd] in Hm.
  destruct (tokty_eqb name T_IDENT) eqn:Eid; [discriminate|].
  pose proof (scan_none _ _ _ _ _ Hs name r Hin Eid) as Hn.
  revert Hn. now apply pm_sure_first.
Qed.

(* ---- completion and classification keep `found` a non-empty prefix ---- *)
Lemma first_uri_nonempty F s ends f : first_uri F s ends = Some f -> f <> [].
Proof.
  induction ends as [|e es IH]; cbn [first_uri]; [discriminate|].
  destruct (pm F (prod_of T_URI) (s ++ e)) as [[f' a]|] eqn:E; [|exact IH].
  intros H; inversion H; subst. eapply pm_progress; [exact uri_nonnull|exact E].
Qed.

Lemma complete_nonempty F full name found s n1 f1 :
  found <> [] -> complete F full name found s = (n1, f1) -> f1 <> [].
Proof.
  intros Hne. unfold complete. destruct full; [|intros H; inversion H; now subst].
  destruct (tokty_eqb name T_INVALID && str_eqb found s).
  - intros H; inversion H; subst. destruct found; [congruence|discriminate].
  - destruct (tokty_eqb name T_FUNCTION && str_eqb (normalize_u found) s_url_open).
    + destruct (first_uri F s uri_ends) as [f|] eqn:E; intros H; inversion H; subst; [|assumption].
      eapply first_uri_nonempty; eassumption.
    + intros H; inversion H; now subst.
Qed.

Lemma classify_found name found s n f v :
  classify name found s = (n, f, v) ->
  f = found \/ (f = found ++ [32] /\ starts_with [32] (skipn (length found) s) = true).
Proof.
  unfold classify. destruct (kind_in name decoding_kinds).
  - intros H; inversion H; now left.
  - destruct (tokty_eqb name T_ATKEYWORD); [|intros H; inversion H; now left].
    destruct (assoc_str (normalize_u found) atkeywords); [intros H; inversion H; now left|].
    destruct (str_eqb found s_charset && starts_with [32] (skipn (length found) s)) eqn:E;
      intros H; inversion H; subst; [right|now left].
    apply andb_true_iff in E. now split.
Qed.

Lemma classify_nonempty name found s n f v :
  found <> [] -> classify name found s = (n, f, v) -> f <> [].
Proof.
  intros Hne H. apply classify_found in H. destruct H as [->|[-> _]]; [assumption|].
  destruct found; [congruence|discriminate].
Qed.

Lemma skipn_shorter {A} (f s : list A) : f <> [] -> s <> [] ->
  (length (skipn (length f) s) < length s)%nat.
Proof.
  intros Hf Hs. rewrite skipn_length. destruct f; [congruence|]. destruct s; [congruence|].
  cbn [length]. lia.
Qed.

Lemma valid_skipn n s : valid_text s -> valid_text (skipn n s).
Proof.
  unfold valid_text. rewrite !Forall_forall. intros H x Hx. apply H.
  rewrite <- (firstn_skipn n s). apply in_or_app. now right.
Qed.

Lemma prefix_skip {A} (s f a : list A) : s = f ++ a -> f ++ skipn (length f) s = s.
Proof. intros ->. now rewrite skipn_app, skipn_all, Nat.sub_diag. Qed.

(* ---- T1: totality ---- *)
Lemma loop_done F full doc : forall fuel afS s line col,
  valid_text s -> (length s < fuel)%nat -> snd (loop fuel (S F) full doc afS s line col) = Done.
Proof.
  induction fuel as [|fu IH]; intros afS s line col Hv Hl; [lia|]. cbn [loop].
  destruct s as [|c t]; [reflexivity|].
  destruct (mem_char c fastchars).
  - destruct (loop fu (S F) full doc false t line (col + 1)) as [r st] eqn:E. cbn [snd].
    assert (H : snd (loop fu (S F) full doc false t line (col + 1)) = Done).
    { apply IH; [now inversion Hv|cbn [length] in Hl; lia]. }
    now rewrite E in H.
  - destruct (scan_prods (S F) full doc (tl productions) (c :: t)) as [name0 found0|f|] eqn:Es.
    + destruct (complete (S F) full name0 found0 (c :: t)) as [name1 found1] eqn:Ec.
      destruct (classify name1 found1 (c :: t)) as [[name found] value] eqn:Ek.
      destruct (advance line col found) as [line' col'].
      set (afS' := if doc || negb (tokty_eqb name T_COMMENT) then tokty_eqb name T_S else afS).
      destruct (loop fu (S F) full doc afS' (skipn (length found) (c :: t)) line' col') as [r st] eqn:E.
      cbn [snd].
      assert (Hne : found <> []).
      { apply scan_tok in Es. destruct Es as (r0 & a & Hin & Hp).
        eapply classify_nonempty; [|exact Ek]. eapply complete_nonempty; [|exact Ec].
        eapply pm_progress; [|exact Hp]. eapply prods_nonnull; exact Hin. }
      assert (H : snd (loop fu (S F) full doc afS' (skipn (length found) (c :: t)) line' col') = Done).
      { apply IH; [now apply valid_skipn|].
        assert (length (skipn (length found) (c :: t)) < length (c :: t))%nat
          by (apply skipn_shorter; [assumption|discriminate]). lia. }
      now rewrite E in H.
    + reflexivity.
    + exfalso. revert Es. apply scan_not_stuck. now inversion Hv.
Qed.

Theorem tokenize_total text full doc :
  valid_text text -> snd (tokenize_items text full doc) = Done.
Proof.
  intros Hv. unfold tokenize_items.
  set (F := (length text + 4)%nat).
  assert (HF : F = S (length text + 3)) by (unfold F; lia).
  destruct productions as [|[bname br] prods'] eqn:Ep; [discriminate|].
  set (bomres := match pm F br text with
                 | Some (found, rest) => ([(Some (mkTok bname found 1 1), found)], rest)
                 | None => ([], text) end).
  assert (Hs1 : valid_text (snd bomres)).
  { unfold bomres. destruct (pm F br text) as [[found rest]|] eqn:E; cbn [snd]; [|assumption].
    apply pm_split in E. subst text. unfold valid_text in *. apply Forall_app in Hv. tauto. }
  destruct bomres as [bom s1]. cbn [snd] in Hs1.
  set (csres := if starts_with s_charset_sp s1
       then ([(Some (mkTok T_CHARSET_SYM s_charset_sp 1 1), s_charset_sp)],
             skipn (length s_charset_sp) s1, 1 + Nlen s_charset_sp)
       else ([], s1, 1)).
  assert (Hs2 : valid_text (snd (fst csres))).
  { unfold csres. destruct (starts_with s_charset_sp s1); cbn [fst snd]; [now apply valid_skipn|assumption]. }
  destruct csres as [[cs s2] col2]. cbn [fst snd] in Hs2.
  destruct (loop (S (length s2)) F full doc false s2 1 col2) as [r st] eqn:E. cbn [snd].
  assert (H : snd (loop (S (length s2)) F full doc false s2 1 col2) = Done).
  { rewrite HF. apply loop_done; [assumption|lia]. }
  now rewrite E in H.
Qed.

(* ---- T2: tiling (nothing skipped, nothing read twice) ---- *)
Lemma loop_tiling F doc : forall fuel afS s line col,
  snd (loop fuel F false doc afS s line col) = Done ->
  concat (map snd (fst (loop fuel F false doc afS s line col))) = s.
Proof.
  induction fuel as [|fu IH]; intros afS s line col; cbn [loop]; [discriminate|].
  destruct s as [|c t]; [reflexivity|].
  destruct (mem_char c fastchars).
  - specialize (IH false t line (col + 1)).
    destruct (loop fu F false doc false t line (col + 1)) as [r st]. cbn [fst snd] in *.
    intros H. cbn [map concat snd app]. now rewrite (IH H).
  - destruct (scan_prods F false doc (tl productions) (c :: t)) as [name0 found0|f|] eqn:Es.
    + unfold complete.
      destruct (classify name0 found0 (c :: t)) as [[name found] value] eqn:Ek.
      destruct (advance line col found) as [line' col'].
      set (afS' := if doc || negb (tokty_eqb name T_COMMENT) then tokty_eqb name T_S else afS).
      specialize (IH afS' (skipn (length found) (c :: t)) line' col').
      destruct (loop fu F false doc afS' (skipn (length found) (c :: t)) line' col') as [r st].
      cbn [fst snd] in *. intros H. cbn [map concat snd]. rewrite (IH H).
      apply scan_tok in Es. destruct Es as (r0 & a & Hin & Hp). apply pm_split in Hp.
      apply classify_found in Ek. destruct Ek as [->|[-> Hsp]].
      * now apply (prefix_skip _ _ a).
      * rewrite Hp in Hsp. rewrite skipn_app, Nat.sub_diag, skipn_all in Hsp. cbn [skipn app] in Hsp.
        apply starts_with_split in Hsp. cbn [length skipn app] in Hsp.
        apply (prefix_skip _ _ (skipn 1 a)). rewrite Hp. rewrite Hsp at 1. now rewrite <- app_assoc.
    + exfalso. now apply (scan_nofull_nocomment F doc (tl productions) (c :: t) f).
    + discriminate.
Qed.

Theorem tokenize_tiling text doc :
  snd (tokenize_items text false doc) = Done ->
  concat (map snd (fst (tokenize_items text false doc))) = text.
Proof.
  unfold tokenize_items. set (F := (length text + 4)%nat).
  destruct productions as [|[bname br] prods'] eqn:Ep; [discriminate|].
  destruct (match pm F br text with
            | Some (found, rest) => ([(Some (mkTok bname found 1 1), found)], rest)
            | None => ([], text) end) as [bom s1] eqn:Eb.
  assert (Hb : concat (map snd bom) ++ s1 = text).
  { destruct (pm F br text) as [[found rest]|] eqn:E; inversion Eb; subst; cbn; [|reflexivity].
    apply pm_split in E. now rewrite app_nil_r. }
  destruct (if starts_with s_charset_sp s1
       then ([(Some (mkTok T_CHARSET_SYM s_charset_sp 1 1), s_charset_sp)],
             skipn (length s_charset_sp) s1, 1 + Nlen s_charset_sp)
       else ([], s1, 1)) as [[cs s2] col2] eqn:Ec.
  assert (Hc : concat (map snd cs) ++ s2 = s1).
  { destruct (starts_with s_charset_sp s1) eqn:E; inversion Ec; subst; cbn [map concat snd]; [|reflexivity].
    apply starts_with_split in E. rewrite app_nil_r. symmetry. exact E. }
  pose proof (loop_tiling F doc (S (length s2)) false s2 1 col2) as Hl.
  destruct (loop (S (length s2)) F false doc false s2 1 col2) as [r st]. cbn [fst snd] in *.
  intros H. rewrite !map_app, !concat_app, (Hl H), Hc. exact Hb.
Qed.

(* ---- T3: positions ---- *)
Fixpoint positions_ok (line col : N) (l : list item) : Prop :=
  match l with
  | [] => True
  | (ot, f) :: r =>
    (match ot with Some t => Tokens.line t = line /\ Tokens.col t = col | None => True end)
    /\ positions_ok (fst (advance line col f)) (snd (advance line col f)) r
  end.

Lemma Nlen_app a b : Nlen (a ++ b) = Nlen a + Nlen b.
Proof. unfold Nlen. rewrite app_length. lia. Qed.

Lemma count0_fst c s : count_char c s = 0 -> fst (after_last c s) = false.
Proof.
  intros H. destruct (fst (after_last c s)) eqn:E; [|reflexivity].
  apply after_last_some in E. contradiction.
Qed.

Lemma countn0_fst c s : count_char c s <> 0 -> fst (after_last c s) = true.
Proof.
  intros H. destruct (fst (after_last c s)) eqn:E; [reflexivity|].
  apply after_last_none in E. destruct E. contradiction.
Qed.

(* position tracking is compositional: advancing over a then b is advancing
   over a ++ b, so a token's (line, col) is a function of the text before it *)
Theorem advance_app l c a b :
  advance (fst (advance l c a)) (snd (advance l c a)) b = advance l c (a ++ b).
Proof.
  unfold advance. rewrite count_char_app, after_last_app, Nlen_app.
  destruct (count_char 10 a =? 0) eqn:Ea; destruct (count_char 10 b =? 0) eqn:Eb; cbn [fst snd].
  - apply N.eqb_eq in Ea, Eb. rewrite Ea, Eb. cbn. f_equal. lia.
  - apply N.eqb_eq in Ea. apply N.eqb_neq in Eb. rewrite Ea.
    rewrite N.add_0_l. rewrite (proj2 (N.eqb_neq _ _) Eb).
    now rewrite (countn0_fst _ _ Eb).
  - apply N.eqb_neq in Ea. apply N.eqb_eq in Eb. rewrite Eb, N.add_0_r.
    rewrite (proj2 (N.eqb_neq _ _) Ea). rewrite (count0_fst _ _ Eb). cbn [fst snd].
    rewrite Nlen_app. f_equal. lia.
  - apply N.eqb_neq in Ea, Eb.
    assert (H : count_char 10 a + count_char 10 b =? 0 = false) by (apply N.eqb_neq; lia).
    rewrite H, (countn0_fst _ _ Eb). cbn [fst snd]. f_equal. lia.
Qed.

Lemma mem_char_neq c d l : mem_char c l = true -> mem_char d l = false -> c <> d.
Proof. intros H1 H2 ->. congruence. Qed.

Lemma loop_positions F doc : forall fuel afS s line col,
  positions_ok line col (fst (loop fuel F false doc afS s line col)).
Proof.
  induction fuel as [|fu IH]; intros afS s line col; cbn [loop]; [exact I|].
  destruct s as [|c t]; [exact I|].
  destruct (mem_char c fastchars) eqn:Ef.
  - specialize (IH false t line (col + 1)).
    destruct (loop fu F false doc false t line (col + 1)) as [r st]. cbn [fst snd positions_ok] in *.
    split; [now split|].
    assert (Hc : c <> 10) by (eapply mem_char_neq; [exact Ef|exact fast_no_lf]).
    unfold advance. cbn [count_char]. apply N.eqb_neq in Hc. rewrite Hc. cbn [fst snd].
    replace (col + Nlen [c]) with (col + 1) by (unfold Nlen; cbn; lia). exact IH.
  - destruct (scan_prods F false doc (tl productions) (c :: t)) as [name0 found0|f|] eqn:Es;
      [|exfalso; now apply (scan_nofull_nocomment F doc (tl productions) (c :: t) f)|exact I].
    unfold complete.
    destruct (classify name0 found0 (c :: t)) as [[name found] value].
    destruct (advance line col found) as [line' col'] eqn:Ea.
    set (afS' := if doc || negb (tokty_eqb name T_COMMENT) then tokty_eqb name T_S else afS).
    specialize (IH afS' (skipn (length found) (c :: t)) line' col').
    destruct (loop fu F false doc afS' (skipn (length found) (c :: t)) line' col') as [r st].
    cbn [fst snd positions_ok] in *. rewrite Ea. cbn [fst snd]. split; [|exact IH].
    destruct ((doc || negb (tokty_eqb name T_COMMENT)) && negb (afS && tokty_eqb name T_S)); [now split|exact I].
Qed.

(* a leading BOM token is zero-width for column counting (the repository's
   own tests pin that); every other token carries the position obtained by
   advancing (1,1) over the spans before it *)
Theorem tokenize_positions text doc :
  exists bom rest, fst (tokenize_items text false doc) = bom ++ rest
    /\ (length bom <= 1)%nat
    /\ Forall (fun i => match fst i with
                       | Some t => ty t = T_BOM /\ line t = 1 /\ col t = 1
                       | None => False end) bom
    /\ positions_ok 1 1 rest.
Proof.
  unfold tokenize_items. set (F := (length text + 4)%nat).
  assert (Hp : exists prods', productions = (T_BOM, snd (hd (T_BOM, Eps) productions)) :: prods')
    by (eexists; vm_compute; reflexivity).
  destruct Hp as (prods' & Ep). rewrite Ep. set (br := snd (hd (T_BOM, Eps) productions)).
  destruct (match pm F br text with
            | Some (found, rest) => ([(Some (mkTok T_BOM found 1 1), found)], rest)
            | None => ([], text) end) as [bom s1] eqn:Eb.
  exists bom.
  assert (Hb : (length bom <= 1)%nat /\ Forall (fun i => match fst i with
                       | Some t => ty t = T_BOM /\ line t = 1 /\ col t = 1
                       | None => False end) bom).
  { destruct (pm F br text) as [[found rest]|]; inversion Eb; subst; cbn [length]; split; try lia;
      repeat constructor. }
  destruct (starts_with s_charset_sp s1) eqn:Ec.
  - pose proof (loop_positions F doc (S (length (skipn (length s_charset_sp) s1))) false
                  (skipn (length s_charset_sp) s1) 1 (1 + Nlen s_charset_sp)) as Hl.
    destruct (loop _ F false doc false (skipn (length s_charset_sp) s1) 1 (1 + Nlen s_charset_sp)) as [r st].
    eexists. split; [reflexivity|]. split; [tauto|]. split; [tauto|].
    cbn [fst snd app positions_ok] in *. split; [now split|].
    replace (advance 1 1 s_charset_sp) with (1, 1 + Nlen s_charset_sp) by (vm_compute; reflexivity).
    exact Hl.
  - pose proof (loop_positions F doc (S (length s1)) false s1 1 1) as Hl.
    destruct (loop (S (length s1)) F false doc false s1 1 1) as [r st].
    eexists. split; [reflexivity|]. split; [tauto|]. split; [tauto|]. exact Hl.
Qed.

(* ---- T4: values ---- *)
Definition value_ok (i : item) : Prop :=
  match fst i with
  | None => True
  | Some t =>
    if kind_in (ty t) decoding_kinds
    then val t = (if kind_in (ty t) cleaning_kinds then unicodesub_string (snd i) else unicodesub (snd i))
    else val t = snd i
  end.

Lemma assoc_str_in k l v : assoc_str k l = Some v -> exists k', In (k', v) l.
Proof.
  induction l as [|[k0 v0] l IH]; cbn [assoc_str]; [discriminate|].
  destruct (str_eqb k k0).
  - intros H; inversion H; subst. exists k0. now left.
  - intros H. destruct (IH H) as (k' & Hin). exists k'. now right.
Qed.

Lemma classify_value name found s n f v :
  classify name found s = (n, f, v) ->
  value_ok (Some (mkTok n v 0 0), f).
Proof.
  unfold classify, value_ok. cbn [fst snd ty val].
  destruct (kind_in name decoding_kinds) eqn:Ed.
  - intros H; inversion H; subst. now rewrite Ed.
  - destruct (tokty_eqb name T_ATKEYWORD).
    + destruct (assoc_str (normalize_u found) atkeywords) as [sym|] eqn:Ea.
      * intros H; inversion H; subst. apply assoc_str_in in Ea. destruct Ea as (k' & Hin).
        pose proof atk_not_decoding as Hn. rewrite forallb_forall in Hn. specialize (Hn _ Hin).
        cbn [snd] in Hn. destruct (kind_in n decoding_kinds); [discriminate|reflexivity].
      * destruct (str_eqb found s_charset && starts_with [32] (skipn (length found) s));
          intros H; inversion H; subst.
        -- now rewrite (proj1 syms_not_decoding).
        -- now rewrite (proj2 syms_not_decoding).
    + intros H; inversion H; subst. now rewrite Ed.
Qed.

Lemma char_not_decoding : kind_in T_CHAR decoding_kinds = false.
Proof. vm_compute. reflexivity. Qed.

Lemma loop_values F doc : forall fuel afS s line col,
  Forall value_ok (fst (loop fuel F false doc afS s line col)).
Proof.
  induction fuel as [|fu IH]; intros afS s line col; cbn [loop]; [constructor|].
  destruct s as [|c t]; [constructor|].
  destruct (mem_char c fastchars).
  - specialize (IH false t line (col + 1)).
    destruct (loop fu F false doc false t line (col + 1)) as [r st]. cbn [fst snd] in *.
    constructor; [|exact IH]. unfold value_ok. cbn [fst snd ty val]. now rewrite char_not_decoding.
  - destruct (scan_prods F false doc (tl productions) (c :: t)) as [name0 found0|f|] eqn:Es;
      [|exfalso; now apply (scan_nofull_nocomment F doc (tl productions) (c :: t) f)|constructor].
    unfold complete.
    destruct (classify name0 found0 (c :: t)) as [[name found] value] eqn:Ek.
    destruct (advance line col found) as [line' col'].
    set (afS' := if doc || negb (tokty_eqb name T_COMMENT) then tokty_eqb name T_S else afS).
    specialize (IH afS' (skipn (length found) (c :: t)) line' col').
    destruct (loop fu F false doc afS' (skipn (length found) (c :: t)) line' col') as [r st].
    cbn [fst snd] in *. constructor; [|exact IH].
    destruct ((doc || negb (tokty_eqb name T_COMMENT)) && negb (afS && tokty_eqb name T_S)); [|exact I].
    apply classify_value in Ek. exact Ek.
Qed.

(* ---- full-sheet mode: exactly one EOF, and it is last ---- *)
Definition not_eof (i : item) : Prop :=
  match fst i with Some t => tokty_eqb (ty t) T_EOF = false | None => True end.
Definition is_eof (i : item) : Prop :=
  match fst i with Some t => ty t = T_EOF | None => False end.

Lemma prod_names_not_eof :
  forallb (fun p => negb (tokty_eqb (fst p) T_EOF)) productions = true.
Proof. vm_compute. reflexivity. Qed.
Lemma atk_not_eof : forallb (fun p => negb (tokty_eqb (snd p) T_EOF)) atkeywords = true.
Proof. vm_compute. reflexivity. Qed.

Lemma complete_name F full name found s n1 f1 :
  complete F full name found s = (n1, f1) -> n1 = name \/ n1 = T_STRING \/ n1 = T_URI.
Proof.
  unfold complete. destruct full; [|intros H; inversion H; now left].
  destruct (tokty_eqb name T_INVALID && str_eqb found s); [intros H; inversion H; tauto|].
  destruct (tokty_eqb name T_FUNCTION && str_eqb (normalize_u found) s_url_open);
    [|intros H; inversion H; now left].
  destruct (first_uri F s uri_ends); intros H; inversion H; tauto.
Qed.

Lemma classify_name_not_eof name found s n f v :
  tokty_eqb name T_EOF = false -> classify name found s = (n, f, v) -> tokty_eqb n T_EOF = false.
Proof.
  intros Hn. unfold classify. destruct (kind_in name decoding_kinds); [intros H; inversion H; now subst|].
  destruct (tokty_eqb name T_ATKEYWORD); [|intros H; inversion H; now subst].
  destruct (assoc_str (normalize_u found) atkeywords) as [sym|] eqn:Ea.
  - intros H; inversion H; subst. apply assoc_str_in in Ea. destruct Ea as (k' & Hin).
    pose proof atk_not_eof as Hq. rewrite forallb_forall in Hq. specialize (Hq _ Hin).
    cbn [snd] in Hq. now destruct (tokty_eqb n T_EOF).
  - destruct (str_eqb found s_charset && starts_with [32] (skipn (length found) s));
      intros H; inversion H; subst; reflexivity.
Qed.

Lemma loop_eof F doc : forall fuel afS s line col,
  snd (loop fuel F true doc afS s line col) = Done ->
  exists init e, fst (loop fuel F true doc afS s line col) = init ++ [e]
                 /\ Forall not_eof init /\ is_eof e.
Proof.
  induction fuel as [|fu IH]; intros afS s line col; cbn [loop]; [discriminate|].
  destruct s as [|c t].
  - intros _. exists [], (Some (mkTok T_EOF [] line col), []). repeat split. constructor.
  - destruct (mem_char c fastchars).
    + specialize (IH false t line (col + 1)).
      destruct (loop fu F true doc false t line (col + 1)) as [r st]. cbn [fst snd] in *.
      intros H. destruct (IH H) as (init & e & -> & Hi & He).
      exists ((Some (mkTok T_CHAR [c] line col), [c]) :: init), e. repeat split; [|assumption].
      constructor; [reflexivity|assumption].
    + destruct (scan_prods F true doc (tl productions) (c :: t)) as [name0 found0|f|] eqn:Es.
      * destruct (complete F true name0 found0 (c :: t)) as [name1 found1] eqn:Ec.
        destruct (classify name1 found1 (c :: t)) as [[name found] value] eqn:Ek.
        destruct (advance line col found) as [line' col'].
        set (afS' := if doc || negb (tokty_eqb name T_COMMENT) then tokty_eqb name T_S else afS).
        specialize (IH afS' (skipn (length found) (c :: t)) line' col').
        destruct (loop fu F true doc afS' (skipn (length found) (c :: t)) line' col') as [r st].
        cbn [fst snd] in *. intros H. destruct (IH H) as (init & e & -> & Hi & He).
        eexists (_ :: init), e. repeat split; [|assumption].
        constructor; [|assumption]. unfold not_eof. cbn [fst].
        destruct ((doc || negb (tokty_eqb name T_COMMENT)) && negb (afS && tokty_eqb name T_S)); [|exact I]. cbn [ty].
        eapply classify_name_not_eof; [|exact Ek].
        apply complete_name in Ec. destruct Ec as [->|[->| ->]]; try reflexivity.
        apply scan_tok in Es. destruct Es as (r0 & a & Hin & _).
        pose proof prod_names_not_eof as Hq. rewrite forallb_forall in Hq.
        assert (Hin' : In (name0, r0) productions) by (destruct productions; [contradiction|now right]).
        specialize (Hq _ Hin'). cbn [fst] in Hq. now destruct (tokty_eqb name0 T_EOF).
      * intros _. exists [(Some (mkTok T_COMMENT f line col), f)], (Some (mkTok T_EOF [] line col), []).
        repeat split. constructor; [reflexivity|constructor].
      * discriminate.
Qed.

Theorem tokenize_eof text doc :
  snd (tokenize_items text true doc) = Done ->
  exists init e, fst (tokenize_items text true doc) = init ++ [e]
                 /\ Forall not_eof init /\ is_eof e.
Proof.
  unfold tokenize_items. set (F := (length text + 4)%nat).
  destruct productions as [|[bname br] prods'] eqn:Ep; [discriminate|].
  assert (Hbn : tokty_eqb bname T_EOF = false).
  { pose proof prod_names_not_eof as Hq. rewrite Ep in Hq. cbn [forallb fst] in Hq.
    apply andb_true_iff in Hq. now destruct (tokty_eqb bname T_EOF). }
  destruct (match pm F br text with
            | Some (found, rest) => ([(Some (mkTok bname found 1 1), found)], rest)
            | None => ([], text) end) as [bom s1] eqn:Eb.
  assert (Hb : Forall not_eof bom).
  { destruct (pm F br text) as [[found rest]|]; inversion Eb; subst; repeat constructor. exact Hbn. }
  destruct (if starts_with s_charset_sp s1
       then ([(Some (mkTok T_CHARSET_SYM s_charset_sp 1 1), s_charset_sp)],
             skipn (length s_charset_sp) s1, 1 + Nlen s_charset_sp)
       else ([], s1, 1)) as [[cs s2] col2] eqn:Ec.
  assert (Hc : Forall not_eof cs).
  { destruct (starts_with s_charset_sp s1); inversion Ec; subst; repeat constructor. }
  pose proof (loop_eof F doc (S (length s2)) false s2 1 col2) as Hl.
  destruct (loop (S (length s2)) F true doc false s2 1 col2) as [r st]. cbn [fst snd] in *.
  intros H. destruct (Hl H) as (init & e & -> & Hi & He).
  exists (bom ++ cs ++ init), e. rewrite <- !app_assoc. repeat split; [|assumption].
  apply Forall_app. split; [assumption|]. apply Forall_app. now split.
Qed.

(* ---- witnesses: what the pinned tree gets wrong ---- *)
(* an escaped backslash followed by a hex digit stays what it is (this was
   wrong before the fix: commit in /repo): the STRING  "\\a"  keeps its value *)
Example escaped_backslash_hex_ok :
  map (fun t => (tokty_code (ty t), val t)) (tokenize [34; 92; 92; 97; 34] false true)
  = [(11, [34; 92; 92; 97; 34])].
Proof. vm_compute. reflexivity. Qed.
