(* Proofs/SelectorAtoms.v — simple selectors, :not( ), heads and pseudo-elements
   through the state machine, in the root and in the negation context. *)
From Coq Require Import List NArith ZArith Bool Arith Lia.
From CssV Require Import Base.Regex Base.Chars Base.Tokens Gen.GenLex Gen.GenSelector Model.Tokenizer Model.Selector
  Proofs.SelectorMachine Proofs.SelectorSteps.
Import ListNotations.
Local Open Scope N_scope.

Definition kctx (neg : bool) : list context := if neg then [CNegation] else [].
(* what is expected before / after a simple selector *)
Definition entry (neg : bool) (e : exp) : Prop :=
  if neg then e = E_negation_arg else (e = sss \/ e = sssc \/ e = sss2c).
Definition exit_ (neg : bool) (e : exp) : Prop :=
  if neg then e = E_negationend else (e = sss2c \/ e = sssc).

Ltac cases_entry neg He :=
  destruct neg; cbn in He; [subst | destruct He as [He|[He|He]]; subst].

Lemma run1 t s : run [t] s = step (Some s) t.
Proof. reflexivity. Qed.

(* ---- the tail of a functional pseudo:  S* expression ')' *)
Lemma run_fn_tail sp args (neg el : bool) s :
  okst s -> ctx s = (if el then CPseudoElement else CPseudoClass) :: kctx neg ->
  ex s = E_expressionstart -> args_ok args = true ->
  exists s', run (pgap sp 0 ++ p_args sp 0 args ++ [pk T_CHAR s_rparen]) s = Some s'
    /\ ctx s' = kctx neg /\ okst s' /\ spec3 s' = spec3 s /\ seq s' <> []
    /\ ex s' = (if neg then E_negationend else if el then E_combinator else sssc).
Proof.
  intros Ho Hc Hx Ha. unfold args_ok in Ha. apply andb_true_iff in Ha as [Hne Ha].
  assert (Hin : in_pseudo s = true) by (unfold in_pseudo, is_ctx, top; rewrite Hc; destruct el; reflexivity).
  rewrite run_app.
  destruct (gap_quiet sp 0%nat s Ho) as (s1 & E1 & A1 & X1); [unfold quietb; rewrite Hin; reflexivity|].
  rewrite E1. rewrite run_app.
  assert (Hin1 : in_pseudo s1 = true) by (rewrite (in_pseudo_same s s1); [exact Hin|apply A1]).
  destruct (run_args sp args 0%nat s1) as (s2 & E2 & A2 & _ & Y2); [apply A1|exact Hin1|exact Ha|].
  rewrite E2. assert (X2 : ex s2 = E_expression) by (apply Y2; destruct args; [discriminate|discriminate]).
  pose proof (adv_trans _ _ _ _ _ A1 A2) as A. destruct A as (C & O & S & N).
  change (cadd c0 c0) with c0 in S. rewrite cadd_c0_r in S.
  rewrite Hc in C. rewrite run1.
  destruct O as [Hw Hp]. dst s2. cbn in C, X2, Hw, Hp, S. subst.
  destruct el, neg; cbn; (eexists; split; [reflexivity|]); cbn; repeat split; try discriminate; exact S.
Qed.

(* ---- attribute selectors *)
Lemma run_nsp_attr p n s :
  okst s -> hd_error (ctx s) = Some CAttrib -> ex s = E_attname ->
  exists s', run (p_nsp_ident p n) s = Some s' /\ adv s s' c0 /\ ex s' = E_attcombinator /\ seq s' <> [].
Proof.
  intros Ho Hc Hx. opn s Ho. cbn in Hc, Hx. subst.
  destruct k as [|[] k]; try discriminate Hc. destruct p; cbn; go.
Qed.

Lemma run_att_tail sp (neg : bool) ov s :
  okst s -> ctx s = CAttrib :: kctx neg -> ex s = E_attcombinator ->
  match ov with None => True | Some (_, AvIdent v) => vok v = true | Some (_, AvString v) => vok v = true end ->
  exists s', run ((match ov with
                   | None => []
                   | Some (o, v) => pt_of (op_tok o) :: pgap sp 2 ++ pt_of (av_tok v) :: pgap sp 3
                   end) ++ [pk T_CHAR s_rbracket]) s = Some s'
    /\ ctx s' = kctx neg /\ okst s' /\ spec3 s' = spec3 s /\ seq s' <> [] /\ exit_ neg (ex s').
Proof.
  intros Ho Hc Hx Hv. destruct ov as [[o v]|].
  - (* operator, value *)
    cbn [app]. rewrite <- app_assoc. cbn [app]. rewrite run_cons.
    assert (E0 : exists s0, step (Some s) (pt_of (op_tok o)) = Some s0 /\ adv s s0 c0 /\ ex s0 = E_attvalue).
    { opn s Ho. cbn in Hc, Hx. subst. destruct o; cbn; go. }
    destruct E0 as (s0 & E0 & A0 & X0). rewrite E0. rewrite run_app.
    assert (Hq0 : quietb s0 = true).
    { unfold quietb, in_pseudo, is_ctx, top. destruct A0 as [-> _]. rewrite Hc. reflexivity. }
    destruct (gap_quiet sp 2%nat s0) as (s1 & E1 & A1 & X1); [apply A0|exact Hq0|].
    rewrite E1. rewrite run_cons.
    assert (E2 : exists s2, step (Some s1) (pt_of (av_tok v)) = Some s2 /\ adv s1 s2 c0 /\ ex s2 = E_attend).
    { pose proof (adv_trans _ _ _ _ _ A0 A1) as (C & O & _). rewrite Hc in C. rewrite X0 in X1.
      opn s1 O. cbn in C, X1. subst.
      destruct v as [v|v]; [cbn; go|]. destruct v as [|q v]; [discriminate Hv|]. cbn. go. }
    destruct E2 as (s2 & E2 & A2 & X2). rewrite E2. rewrite run_app.
    pose proof (adv_trans _ _ _ _ _ A0 (adv_trans _ _ _ _ _ A1 A2)) as A02.
    assert (Hq2 : quietb s2 = true).
    { unfold quietb, in_pseudo, is_ctx, top. destruct A02 as [-> _]. rewrite Hc. reflexivity. }
    destruct (gap_quiet sp 3%nat s2) as (s3 & E3 & A3 & X3); [apply A2|exact Hq2|].
    rewrite E3. rewrite run1.
    pose proof (adv_trans _ _ _ _ _ A02 A3) as (C & O & S & N). rewrite Hc in C. rewrite X2 in X3.
    change (cadd (cadd c0 (cadd c0 c0)) c0) with c0 in S. rewrite cadd_c0_r in S.
    destruct O as [Hw Hp]. dst s3. cbn in C, X3, Hw, Hp, S. subst.
    destruct neg; cbn; (eexists; split; [reflexivity|]); cbn; repeat split; try discriminate; auto.
  - cbn [app]. rewrite run1. opn s Ho. cbn in Hc, Hx. subst.
    destruct neg; cbn; (eexists; split; [reflexivity|]); cbn; repeat split; try discriminate; auto.
Qed.

Lemma run_attr sp (neg : bool) p n ov s :
  okst s -> ctx s = kctx neg -> entry neg (ex s) -> atom_ok (AAttr p n ov) = true ->
  exists s', run (p_atom sp (AAttr p n ov)) s = Some s' /\ adv s s' (0, 1, 0) /\ exit_ neg (ex s') /\ seq s' <> [].
Proof.
  intros Ho Hc He Ha. cbn [p_atom]. rewrite run_cons.
  assert (E0 : exists s0, step (Some s) (pk T_CHAR s_lbracket) = Some s0
                          /\ ctx s0 = CAttrib :: kctx neg /\ okst s0 /\ spec3 s0 = cadd (spec3 s) (0, 1, 0)
                          /\ ex s0 = E_attname /\ seq s0 <> []).
  { opn s Ho. cbn in Hc. subst. cases_entry neg He; cbn; (eexists; split; [reflexivity|fin]). }
  destruct E0 as (s0 & E0 & C0 & O0 & S0 & X0 & N0). rewrite E0. rewrite run_app.
  assert (Hq0 : quietb s0 = true) by (unfold quietb, in_pseudo, is_ctx, top; rewrite C0; reflexivity).
  destruct (gap_quiet sp 0%nat s0 O0 Hq0) as (s1 & E1 & A1 & X1).
  rewrite E1. rewrite run_app.
  destruct (run_nsp_attr p n s1) as (s2 & E2 & A2 & X2 & N2);
    [apply A1|destruct A1 as [-> _]; rewrite C0; reflexivity|congruence|].
  rewrite E2. rewrite run_app.
  pose proof (adv_trans _ _ _ _ _ A1 A2) as A12.
  assert (Hq2 : quietb s2 = true).
  { unfold quietb, in_pseudo, is_ctx, top. destruct A12 as [-> _]. rewrite C0. reflexivity. }
  destruct (gap_quiet sp 1%nat s2) as (s3 & E3 & A3 & X3); [apply A2|exact Hq2|].
  rewrite E3.
  pose proof (adv_trans _ _ _ _ _ A12 A3) as A13.
  destruct (run_att_tail sp neg ov s3) as (s4 & E4 & C4 & O4 & S4 & N4 & X4).
  - apply A3.
  - destruct A13 as [-> _]. exact C0.
  - congruence.
  - cbn in Ha. apply andb_true_iff in Ha as [_ Ha]. destruct ov as [[o [v|v]]|]; auto.
  - rewrite E4. exists s4. split; [reflexivity|]. split; [|split; [exact X4|exact N4]].
    repeat split; try apply O4.
    + congruence.
    + rewrite S4. destruct A13 as (_ & _ & S13 & _). rewrite S13, S0. cnt.
    + intros _. exact N4.
Qed.

(* ---- id, class, pseudo-class, functional pseudo-class *)
Lemma run_atom sp (neg : bool) a s :
  okst s -> ctx s = kctx neg -> entry neg (ex s) -> atom_ok a = true ->
  exists s', run (p_atom sp a) s = Some s' /\ adv s s' (count_atom a) /\ exit_ neg (ex s') /\ seq s' <> [].
Proof.
  intros Ho Hc He Ha. destruct a as [h|n|p n ov|n|f args].
  - cbn [p_atom]. rewrite run1. opn s Ho. cbn in Hc. subst. cases_entry neg He; cbn; go.
  - cbn [p_atom]. rewrite run1. opn s Ho. cbn in Hc. subst. cases_entry neg He; cbn; go.
  - apply run_attr; assumption.
  - (* pseudo-class *)
    cbn [p_atom count_atom]. rewrite run1. cbn in Ha. unfold pc_ok, pval_ok in Ha.
    apply andb_true_iff in Ha as [Ha E2]. apply andb_true_iff in Ha as [_ Ha]. apply andb_true_iff in Ha as [E1 E3].
    apply negb_true_iff in E1, E2, E3.
    unfold step. cbn [pty_ pv]. unfold p_pseudo. cbv zeta.
    remember (normalize (s_colon ++ n)) as v eqn:Hv. clear Hv.
    rewrite E1, E2. opn s Ho. cbn in Hc. subst.
    cases_entry neg He; with_strategy opaque [str_eqb] cbn; rewrite ?E3; cbn; go.
  - (* functional pseudo-class *)
    cbn [p_atom count_atom]. rewrite run_cons. cbn in Ha. apply andb_true_iff in Ha as [Hf Hargs].
    unfold fn_ok, pfn_ok in Hf.
    apply andb_true_iff in Hf as [_ Hf]. apply andb_true_iff in Hf as [Hf E2].
    apply andb_true_iff in Hf as [E1 E3]. apply negb_true_iff in E2, E3.
    assert (E0 : exists s0, step (Some s) (mkP PPseudoClass (s_colon ++ f)) = Some s0
                            /\ ctx s0 = CPseudoClass :: kctx neg /\ okst s0 /\ spec3 s0 = spec3 s
                            /\ ex s0 = E_expressionstart).
    { unfold step. cbn [pty_ pv]. unfold p_pseudo. cbv zeta.
      remember (normalize (s_colon ++ f)) as v eqn:Hv. clear Hv.
      rewrite E1, E2. opn s Ho. cbn in Hc. subst.
      cases_entry neg He; with_strategy opaque [str_eqb] cbn; rewrite ?E3; cbn;
        (eexists; split; [reflexivity|fin]). }
    destruct E0 as (s0 & E0 & C0 & O0 & S0 & X0). rewrite E0.
    destruct (run_fn_tail sp args neg false s0 O0 C0 X0 Hargs) as (s1 & E1' & C1 & O1 & S1 & N1 & X1).
    rewrite E1'. exists s1. split; [reflexivity|]. split; [|split; [|exact N1]].
    + repeat split; try apply O1; [congruence|rewrite S1, S0; cnt|auto].
    + destruct neg; cbn; [exact X1|right; exact X1].
Qed.
