(* Proofs/SliceFacts.v — facts about bracket-aware slicing, for every mode,
   counter state and token list. *)
From Coq Require Import List NArith ZArith Bool Arith Lia.
From CssV Require Import Base.Regex Base.Chars Base.Tokens Model.Slice.
Import ListNotations.

(* the slice is a prefix: nothing skipped, nothing read twice *)
Lemma scan_split m : forall toks c, fst (scan m c toks) ++ snd (scan m c toks) = toks.
Proof.
  induction toks as [|t r IH]; intros c; cbn [scan]; [reflexivity|].
  destruct (tokty_eqb (ty t) T_EOF); [reflexivity|].
  destruct (stops m (count_tok c t) t); [reflexivity|].
  specialize (IH (count_tok c t)). destruct (scan m (count_tok c t) r) as [a b].
  cbn [fst snd app] in *. now rewrite IH.
Qed.

(* progress: a non-empty stream always yields at least one token *)
Lemma scan_nonempty m c t r : fst (scan m c (t :: r)) <> [].
Proof.
  cbn [scan]. destruct (tokty_eqb (ty t) T_EOF); [discriminate|].
  destruct (stops m (count_tok c t) t); [discriminate|].
  destruct (scan m (count_tok c t) r). discriminate.
Qed.

Lemma scan_rest_le m : forall toks c, (length (snd (scan m c toks)) <= length toks)%nat.
Proof.
  intros toks c. pose proof (scan_split m toks c) as H.
  rewrite <- H at 2. rewrite app_length. lia.
Qed.

Lemma scan_rest_lt m c t r : (length (snd (scan m c (t :: r))) < length (t :: r))%nat.
Proof.
  pose proof (scan_split m (t :: r) c) as H. pose proof (scan_nonempty m c t r) as Hn.
  rewrite <- H at 2. rewrite app_length. destruct (fst (scan m c (t :: r))); [congruence|].
  cbn [length]. lia.
Qed.

Theorem tokensupto2_split m start toks :
  fst (tokensupto2 m start toks) ++ snd (tokensupto2 m start toks)
  = match start with Some t => t :: toks | None => toks end.
Proof.
  unfold tokensupto2. destruct start as [t|].
  - pose proof (scan_split m toks (count_start (mode_init m (Some t)) t)) as H.
    destruct (scan m _ toks) as [a b]. cbn [fst snd app] in *. now rewrite H.
  - apply scan_split.
Qed.

Theorem tokensupto2_rest_le m start toks :
  (length (snd (tokensupto2 m start toks)) <= length toks)%nat.
Proof.
  unfold tokensupto2. destruct start as [t|]; [|apply scan_rest_le].
  pose proof (scan_rest_le m toks (count_start (mode_init m (Some t)) t)) as H.
  destruct (scan m _ toks) as [a b]. exact H.
Qed.

(* never reads past EOF: an EOF token can only be the last one taken *)
Lemma scan_eof_last m : forall toks c,
  Forall (fun t => tokty_eqb (ty t) T_EOF = false) (removelast (fst (scan m c toks))).
Proof.
  induction toks as [|t r IH]; intros c; cbn [scan]; [constructor|].
  destruct (tokty_eqb (ty t) T_EOF) eqn:E; [constructor|].
  destruct (stops m (count_tok c t) t); [constructor|].
  specialize (IH (count_tok c t)).
  destruct r as [|t' r'].
  - cbn [scan fst removelast]. constructor.
  - pose proof (scan_nonempty m (count_tok c t) t' r') as Hn.
    destruct (scan m (count_tok c t) (t' :: r')) as [a b]. cbn [fst] in *.
    destruct a as [|a0 a']; [congruence|]. cbn [removelast] in *.
    constructor; assumption.
Qed.

(* ---- skipping over a body that never triggers the stop condition ---- *)
Fixpoint no_stop (m : mode) (c : cnt) (body : list tok) : bool :=
  match body with
  | [] => true
  | t :: r => negb (tokty_eqb (ty t) T_EOF) && negb (stops m (count_tok c t) t)
              && no_stop m (count_tok c t) r
  end.

Theorem scan_skip m : forall body c e rest,
  no_stop m c body = true ->
  (tokty_eqb (ty e) T_EOF = true \/ stops m (count_tok (final_cnt c body) e) e = true) ->
  scan m c (body ++ e :: rest) = (body ++ [e], rest).
Proof.
  induction body as [|t r IH]; intros c e rest Hn He; cbn [app scan].
  - cbn [final_cnt fold_left] in He. destruct (tokty_eqb (ty e) T_EOF); [reflexivity|].
    destruct He as [He|He]; [discriminate|]. now rewrite He.
  - cbn [no_stop] in Hn. apply andb_true_iff in Hn. destruct Hn as [Hn Hr].
    apply andb_true_iff in Hn. destruct Hn as [H1 H2].
    apply negb_true_iff in H1, H2. rewrite H1, H2.
    rewrite (IH (count_tok c t) e rest Hr); [reflexivity|]. exact He.
Qed.

(* counters are additive, so a balanced body returns them to where they were *)
Definition cnt_add (a b : cnt) : cnt :=
  mkCnt (brace a + brace b) (bracket a + bracket b) (parant a + parant b).

Lemma count_tok_add c d t : count_tok (cnt_add c d) t = cnt_add c (count_tok d t).
Proof.
  unfold count_tok, cnt_add.
  destruct (is_delim 123 t); [cbn; f_equal; lia|].
  destruct (is_delim 125 t); [cbn; f_equal; lia|].
  destruct (is_delim 91 t); [cbn; f_equal; lia|].
  destruct (is_delim 93 t); [cbn; f_equal; lia|].
  destruct (is_delim 40 t || tokty_eqb (ty t) T_FUNCTION); [cbn; f_equal; lia|].
  destruct (is_delim 41 t); [cbn; f_equal; lia|]. reflexivity.
Qed.

Lemma final_cnt_add toks : forall c d, final_cnt (cnt_add c d) toks = cnt_add c (final_cnt d toks).
Proof.
  unfold final_cnt. induction toks as [|t r IH]; intros c d; cbn [fold_left]; [reflexivity|].
  now rewrite count_tok_add, IH.
Qed.

Lemma cnt_add_zero c : cnt_add c (mkCnt 0 0 0) = c.
Proof. destruct c. unfold cnt_add. cbn. f_equal; lia. Qed.

Theorem balanced_restores c toks :
  final_cnt (mkCnt 0 0 0) toks = mkCnt 0 0 0 -> final_cnt c toks = c.
Proof.
  intros H. rewrite <- (cnt_add_zero c) at 1. rewrite final_cnt_add, H. apply cnt_add_zero.
Qed.
