(* Proofs/CodecRt16le.v — every code point below 0x110000 round-trips through
   the UTF-16-LE character encoder / one-character decoder of Model/Codec.v
   (one kernel VM evaluation, at Qed). *)
From Coq Require Import NArith.
From CssV Require Import Model.Codec Proofs.CodecChars.

Lemma char_rt_u16le : all_code_points (enc_utf16 false) (take_utf16 false) = true.
Proof. vm_cast_no_check (eq_refl true). Qed.
