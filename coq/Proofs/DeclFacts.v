(* Proofs/DeclFacts.v — the declaration-block model obeys the
   ordered-multimap-with-cascade discipline, for every state (hence every
   history). *)
From Coq Require Import List NArith Bool Arith Lia.
From CssV Require Import Base.Regex Base.Chars Base.Tokens Gen.GenProps Model.Tokenizer Model.Decl
  Proofs.CharsFacts.
Import ListNotations.
Local Open Scope N_scope.

Lemma str_eqb_refl a : str_eqb a a = true.
Proof. unfold str_eqb. induction a as [|x a IH]; [reflexivity|]. now rewrite N.eqb_refl, IH. Qed.

Lemma str_eqb_spec a b : str_eqb a b = true <-> a = b.
Proof. split; [apply str_eqb_eq|intros ->; apply str_eqb_refl]. Qed.

Lemma str_eqb_sym a b : str_eqb a b = str_eqb b a.
Proof.
  destruct (str_eqb a b) eqn:E.
  - apply str_eqb_eq in E. subst. now rewrite str_eqb_refl.
  - destruct (str_eqb b a) eqn:E2; [|reflexivity]. apply str_eqb_eq in E2. subst.
    now rewrite str_eqb_refl in E.
Qed.

Definition mem (n : str) (l : list str) : bool := existsb (str_eqb n) l.

Lemma mem_In n l : mem n l = true <-> In n l.
Proof.
  unfold mem. rewrite existsb_exists. split.
  - intros (x & Hx & He). apply str_eqb_eq in He. now subst.
  - intros H. exists n. split; [assumption|apply str_eqb_refl].
Qed.

Lemma mem_app n a b : mem n (a ++ b) = mem n a || mem n b.
Proof. unfold mem. apply existsb_app. Qed.

(* ---- effective property: last !important entry of the name, else last entry ---- *)
Definition has_name (n : str) (i : ditem) : bool :=
  match i with DP p => str_eqb n (nm p) | DC _ => false end.
Definition is_important (i : ditem) : bool :=
  match i with DP p => prio p | DC _ => false end.
Definition as_prop (o : option ditem) : option prop :=
  match o with Some (DP p) => Some p | _ => None end.

(* scanning the reversed list = looking from the end *)
Definition effective_spec (d : decl) (n : str) : option prop :=
  match find (fun i => has_name n i && is_important i) (rev d) with
  | Some i => as_prop (Some i)
  | None => as_prop (find (has_name n) (rev d))
  end.

Lemma get_scan_spec l n found :
  get_scan l n found =
  match find (fun i => has_name n i && is_important i) l with
  | Some i => as_prop (Some i)
  | None => match found with
            | Some f => Some f
            | None => as_prop (find (has_name n) l)
            end
  end.
Proof.
  revert found. induction l as [|[p|c] l IH]; intros found; cbn [get_scan find has_name is_important].
  - now destruct found.
  - destruct (str_eqb n (nm p)) eqn:En; cbn [andb].
    + destruct (prio p) eqn:Ep; [reflexivity|]. rewrite IH.
      destruct (find _ l); [reflexivity|]. now destruct found.
    + apply IH.
  - apply IH.
Qed.

Theorem get_property_effective d name :
  get_property d name = effective_spec d (normalize name).
Proof. unfold get_property, effective_spec. now rewrite get_scan_spec. Qed.

Lemma filter_filter_and {A} (f g : A -> bool) l :
  filter f (filter g l) = filter (fun x => g x && f x) l.
Proof.
  induction l as [|x l IH]; cbn [filter]; [reflexivity|].
  destruct (g x); cbn [filter andb]; [|exact IH]. destruct (f x); now rewrite IH.
Qed.

(* ---- names: ordered set, a name sits where it was last declared ---- *)
Definition drop (n : str) (l : list str) : list str := filter (fun x => negb (str_eqb x n)) l.

Lemma nnames_rev_acc r : forall acc,
  nnames_rev r acc = acc ++ filter (fun n => negb (mem n acc)) (nnames_rev r []).
Proof.
  induction r as [|[p|c] r IH]; intros acc; cbn [nnames_rev existsb app].
  - now rewrite app_nil_r.
  - fold (mem (nm p) acc).
    rewrite (IH [nm p]). cbn [app filter].
    destruct (mem (nm p) acc) eqn:Em.
    + cbn [negb]. rewrite IH. f_equal.
      rewrite filter_filter_and. apply filter_ext_in. intros x _.
      destruct (mem x acc) eqn:Ex; cbn [negb andb]; [now rewrite andb_false_r|].
      rewrite andb_true_r. unfold mem. cbn [existsb]. rewrite orb_false_r.
      destruct (str_eqb x (nm p)) eqn:E; [|reflexivity].
      apply str_eqb_eq in E. subst. congruence.
    + cbn [negb]. rewrite IH. rewrite <- app_assoc. cbn [app]. f_equal. f_equal.
      rewrite filter_filter_and. apply filter_ext_in. intros x _.
      rewrite mem_app. unfold mem at 2 3. cbn [existsb]. rewrite !orb_false_r.
      now rewrite negb_orb, andb_comm.
  - apply IH.
Qed.

Lemma filter_rev' {A} (f : A -> bool) l : rev (filter f l) = filter f (rev l).
Proof.
  induction l as [|x l IH]; cbn [filter rev]; [reflexivity|].
  rewrite filter_app. cbn [filter]. destruct (f x); cbn [rev]; rewrite IH; [reflexivity|].
  now rewrite app_nil_r.
Qed.

Theorem nnames_nil : nnames [] = [].
Proof. reflexivity. Qed.

(* appending a declaration puts its name last and removes any earlier
   position of it; comments do not matter *)
Theorem nnames_app_prop d p : nnames (d ++ [DP p]) = drop (nm p) (nnames d) ++ [nm p].
Proof.
  unfold nnames. rewrite rev_app_distr. cbn [rev app nnames_rev existsb].
  rewrite (nnames_rev_acc (rev d) [nm p]). cbn [app rev]. 
  rewrite filter_rev'. f_equal. unfold drop. apply filter_ext. intros x.
  unfold mem. cbn [existsb]. now rewrite orb_false_r.
Qed.

Theorem nnames_app_comment d c : nnames (d ++ [DC c]) = nnames d.
Proof. unfold nnames. rewrite rev_app_distr. reflexivity. Qed.

Lemma In_drop x n l : In x (drop n l) <-> In x l /\ x <> n.
Proof.
  unfold drop. rewrite filter_In. split; intros [H1 H2]; split; try assumption.
  - intros ->. now rewrite str_eqb_refl in H2.
  - destruct (str_eqb x n) eqn:E; [|reflexivity]. apply str_eqb_eq in E. contradiction.
Qed.

(* every name set in the block is listed, exactly once *)
Theorem nnames_complete d n :
  In n (nnames d) <-> exists p, In (DP p) d /\ nm p = n.
Proof.
  induction d as [|i d IH] using rev_ind.
  - cbn. split; [contradiction|]. intros (p & [] & _).
  - destruct i as [p|c].
    + rewrite nnames_app_prop, in_app_iff, In_drop, IH. cbn [In]. split.
      * intros [[(q & Hq & Hn) _]|[Hn|[]]].
        -- exists q. split; [apply in_or_app; now left|assumption].
        -- exists p. split; [apply in_or_app; right; now left|assumption].
      * intros (q & Hq & Hn). apply in_app_or in Hq. destruct Hq as [Hq|[Hq|[]]].
        -- destruct (str_eqb n (nm p)) eqn:E.
           ++ apply str_eqb_eq in E. right. now left.
           ++ left. split; [now exists q|]. intros ->. now rewrite str_eqb_refl in E.
        -- inversion Hq; subst. right. now left.
    + rewrite nnames_app_comment, IH. split; intros (q & Hq & Hn); exists q; split; try assumption.
      * apply in_or_app. now left.
      * apply in_app_or in Hq. destruct Hq as [Hq|[Hq|[]]]; [assumption|discriminate].
Qed.

Theorem nnames_nodup d : NoDup (nnames d).
Proof.
  induction d as [|i d IH] using rev_ind; [constructor|].
  destruct i as [p|c]; [|now rewrite nnames_app_comment].
  rewrite nnames_app_prop.
  assert (Hd : NoDup (drop (nm p) (nnames d))) by (apply NoDup_filter; assumption).
  assert (Hn : ~ In (nm p) (drop (nm p) (nnames d))) by (rewrite In_drop; tauto).
  clear IH. induction (drop (nm p) (nnames d)) as [|x l IHl]; cbn [app].
  - constructor; [intros []|constructor].
  - inversion Hd; subst. constructor.
    + rewrite in_app_iff. intros [H|[H|[]]]; [contradiction|]. apply Hn. now left.
    + apply IHl; [assumption|]. intros H. apply Hn. now right.
Qed.

(* length / item / keys / membership all enumerate nnames: agreement is by
   definition in the model (and checked against the implementation's four
   separate code paths by the correspondence run) *)
Theorem contains_spec d name : contains d name = true <-> In (normalize name) (nnames d).
Proof. unfold contains. apply mem_In. Qed.

(* ---- removal ---- *)
Theorem remove_deletes_all d name p :
  In (DP p) (fst (remove_property d name)) -> nm p <> normalize name.
Proof.
  unfold remove_property. cbn [fst]. rewrite filter_In. intros [_ H] E. rewrite E in H.
  now rewrite str_eqb_refl in H.
Qed.

Theorem remove_keeps_others d name i :
  In i d -> (forall p, i = DP p -> nm p <> normalize name) ->
  In i (fst (remove_property d name)).
Proof.
  unfold remove_property. cbn [fst]. intros Hin Hn. rewrite filter_In. split; [assumption|].
  destruct i as [p|c]; [|reflexivity]. destruct (str_eqb (nm p) (normalize name)) eqn:E; [|reflexivity].
  apply str_eqb_eq in E. exfalso. now apply (Hn p).
Qed.

Theorem remove_is_filter d name :
  fst (remove_property d name)
  = filter (fun i => negb (has_name (normalize name) i)) d.
Proof.
  unfold remove_property. cbn [fst]. apply filter_ext. intros [p|c]; cbn [has_name]; [|reflexivity].
  now rewrite str_eqb_sym.
Qed.

Theorem remove_returns_effective d name :
  snd (remove_property d name)
  = match effective_spec d (normalize name) with Some p => Some (pval p) | None => None end.
Proof. unfold remove_property, get_value. cbn [snd]. now rewrite get_property_effective. Qed.

Theorem removed_name_gone d name :
  ~ In (normalize name) (nnames (fst (remove_property d name))).
Proof.
  rewrite nnames_complete. intros (p & Hp & Hn). now apply remove_deletes_all in Hp.
Qed.

(* ---- set: update the effective entry in place, else append ---- *)
Definition key (i : ditem) : (str * str) + N :=
  match i with DP p => inl (lit p, nm p) | DC c => inr c end.

Lemma update_nth_keys l k f :
  (forall p, lit (f p) = lit p /\ nm (f p) = nm p) ->
  map key (update_nth l k f) = map key l.
Proof.
  intros Hf. revert k. induction l as [|[p|c] l IH]; intros [|k]; cbn [update_nth map key]; try reflexivity.
  - destruct (Hf p) as [-> ->]. reflexivity.
  - now rewrite IH.
  - now rewrite IH.
Qed.

Lemma get_scan_some l n : forall f, get_scan l n (Some f) <> None.
Proof.
  induction l as [|[p|c] l IH]; intros f; cbn [get_scan]; [discriminate| |apply IH].
  destruct (str_eqb n (nm p)); [|apply IH]. destruct (prio p); [discriminate|apply IH].
Qed.

Lemma eff_index_some l n : forall i k, eff_index l n i (Some k) <> None.
Proof.
  induction l as [|[p|c] l IH]; intros i k; cbn [eff_index]; [discriminate| |apply IH].
  destruct (str_eqb n (nm p)); [|apply IH]. destruct (prio p); [discriminate|apply IH].
Qed.

Lemma eff_index_get l n : forall i,
  (eff_index l n i None = None <-> get_scan l n None = None).
Proof.
  induction l as [|[p|c] l IH]; intros i; cbn [eff_index get_scan].
  - tauto.
  - destruct (str_eqb n (nm p)).
    + destruct (prio p).
      * split; discriminate.
      * split; intros H; exfalso; [now apply eff_index_some in H|now apply get_scan_some in H].
    + apply IH.
  - apply IH.
Qed.

Theorem set_existing_in_place d name v pr :
  get_property d name <> None ->
  map key (set_property d name v pr) = map key d.
Proof.
  unfold get_property, set_property. intros H.
  destruct (eff_index (rev d) (normalize name) 0 None) as [k|] eqn:E.
  - rewrite map_rev, update_nth_keys; [now rewrite <- map_rev, rev_involutive|].
    intros p. now split.
  - apply eff_index_get in E. contradiction.
Qed.

Theorem set_absent_appends d name v pr :
  get_property d name = None ->
  set_property d name v pr = d ++ [DP (mkProp (lower name) (normalize name) v pr)].
Proof.
  unfold get_property, set_property. intros H.
  destruct (eff_index (rev d) (normalize name) 0 None) as [k|] eqn:E; [|reflexivity].
  assert (Hn : eff_index (rev d) (normalize name) 0 None = None) by (now apply eff_index_get).
  congruence.
Qed.

Theorem add_always_appends d name v pr :
  add_property d name v pr = d ++ [DP (mkProp (lower name) (normalize name) v pr)].
Proof. reflexivity. Qed.

(* ---- DOM (camel-case) names: exhaustive over the generated table ---- *)
Definition domname_check : bool :=
  forallb (fun n => match accessor_css_name accessor_table (to_dom_name n) with
                    | Some c => str_eqb c n | None => false end) known_names
  && forallb (fun p => str_eqb (to_dom_name (fst p)) (snd p)) (combine known_names dom_names)
  && Nat.eqb (length known_names) (length dom_names).

Lemma domname_check_ok : domname_check = true.
Proof. vm_compute. reflexivity. Qed.

(* attribute-style access by DOM name reaches exactly the hyphenated name *)
Theorem domname_access n :
  In n known_names -> accessor_css_name accessor_table (to_dom_name n) = Some n.
Proof.
  intros H. pose proof domname_check_ok as Hc. unfold domname_check in Hc.
  apply andb_true_iff in Hc. destruct Hc as [Hc _]. apply andb_true_iff in Hc. destruct Hc as [Hc _].
  rewrite forallb_forall in Hc. specialize (Hc n H).
  destruct (accessor_css_name accessor_table (to_dom_name n)) as [c|]; [|discriminate].
  apply str_eqb_eq in Hc. now subst.
Qed.

(* the inverse converter alone is NOT enough (found while proving this):
   overflow-x -> overflowX -> overflowX *)
Example to_css_name_not_inverse :
  to_css_name (to_dom_name [111;118;101;114;102;108;111;119;45;120]) <> [111;118;101;114;102;108;111;119;45;120].
Proof. vm_compute. discriminate. Qed.
