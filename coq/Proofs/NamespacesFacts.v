(* Proofs/NamespacesFacts.v — facts about Model/Namespaces.v, for every
   sheet state (hence every history) or for arbitrary operation lists. *)
From Coq Require Import List NArith Bool Arith Lia.
From CssV Require Import Base.Regex Base.Chars Proofs.CharsFacts Model.Namespaces.
Import ListNotations.
Local Open Scope N_scope.

(* ---------- strings ---------- *)
Lemma seqb_refl a : str_eqb a a = true.
Proof. unfold str_eqb. induction a as [|x a IH]; [reflexivity|]. now rewrite N.eqb_refl, IH. Qed.

Lemma seqb_spec a b : str_eqb a b = true <-> a = b.
Proof. split; [apply str_eqb_eq|intros ->; apply seqb_refl]. Qed.

Lemma seqb_false a b : str_eqb a b = false <-> a <> b.
Proof.
  split.
  - intros H E. subst. now rewrite seqb_refl in H.
  - intros H. destruct (str_eqb a b) eqn:E; [|reflexivity]. apply seqb_spec in E. contradiction.
Qed.

Lemma seqb_sym a b : str_eqb a b = str_eqb b a.
Proof.
  destruct (str_eqb a b) eqn:E.
  - apply seqb_spec in E. subst. now rewrite seqb_refl.
  - symmetry. apply seqb_false. apply seqb_false in E. congruence.
Qed.

Definition mem (u : str) (l : list str) : bool := existsb (str_eqb u) l.

Lemma mem_In u l : mem u l = true <-> In u l.
Proof.
  unfold mem. rewrite existsb_exists. split.
  - intros (x & Hx & He). apply seqb_spec in He. now subst.
  - intros H. exists u. split; [assumption|apply seqb_refl].
Qed.

Lemma mem_false u l : mem u l = false <-> ~ In u l.
Proof.
  split.
  - intros H Hi. apply mem_In in Hi. congruence.
  - intros H. destruct (mem u l) eqn:E; [|reflexivity]. apply mem_In in E. contradiction.
Qed.

(* ---------- dictionaries ---------- *)
Lemma lookup_In d k v : lookup d k = Some v -> In (k, v) d.
Proof.
  induction d as [|[k' v'] d IH]; cbn [lookup]; [discriminate|].
  destruct (str_eqb k k') eqn:E.
  - intros H. inversion H; subst. apply seqb_spec in E. subst. now left.
  - intros H. right. now apply IH.
Qed.

Lemma lookup_app d1 d2 k :
  lookup (d1 ++ d2) k = match lookup d1 k with Some v => Some v | None => lookup d2 k end.
Proof.
  induction d1 as [|[k' v'] d1 IH]; cbn [app lookup]; [reflexivity|].
  destruct (str_eqb k k'); [reflexivity|apply IH].
Qed.

Lemma lookup_dict_set d k v k' :
  lookup (dict_set d k v) k' = if str_eqb k' k then Some v else lookup d k'.
Proof.
  induction d as [|[k0 v0] d IH]; cbn [dict_set lookup].
  - reflexivity.
  - destruct (str_eqb k k0) eqn:E; cbn [lookup].
    + apply seqb_spec in E. subst k0. destruct (str_eqb k' k); reflexivity.
    + destruct (str_eqb k' k0) eqn:E0.
      * apply seqb_spec in E0. subst k0. rewrite seqb_sym, E. reflexivity.
      * apply IH.
Qed.

Lemma lookup_fold l : forall d0 k,
  lookup (fold_left (fun d kv => dict_set d (fst kv) (snd kv)) l d0) k
  = match lookup (rev l) k with Some v => Some v | None => lookup d0 k end.
Proof.
  induction l as [|[k0 v0] l IH]; intros d0 k; cbn [fold_left rev lookup fst snd].
  - reflexivity.
  - rewrite IH, lookup_app, lookup_dict_set. cbn [lookup].
    destruct (lookup (rev l) k); [reflexivity|]. destruct (str_eqb k k0); reflexivity.
Qed.

(* the dictionary built by a comprehension: for each key the LAST pair wins *)
Lemma lookup_dict_of l k : lookup (dict_of l) k = lookup (rev l) k.
Proof. unfold dict_of. rewrite lookup_fold. cbn [lookup]. now destruct (lookup (rev l) k). Qed.

Lemma keys_dict_set d k v :
  map fst (dict_set d k v) = if has_key d k then map fst d else map fst d ++ [k].
Proof.
  unfold has_key. induction d as [|[k0 v0] d IH]; cbn [dict_set lookup map fst app]; [reflexivity|].
  destruct (str_eqb k k0) eqn:E; cbn [map fst]; [reflexivity|].
  rewrite IH. destruct (lookup d k); reflexivity.
Qed.

Lemma has_key_In d k : has_key d k = false -> ~ In k (map fst d).
Proof.
  unfold has_key. induction d as [|[k0 v0] d IH]; cbn [lookup map fst In]; [tauto|].
  destruct (str_eqb k k0) eqn:E; [discriminate|]. intros H [H1|H1].
  - subst. now rewrite seqb_refl in E.
  - now apply IH.
Qed.

Lemma NoDup_snoc {A} (l : list A) x : NoDup l -> ~ In x l -> NoDup (l ++ [x]).
Proof.
  induction l as [|y l IH]; cbn [app]; intros Hd Hn.
  - constructor; [intros []|constructor].
  - inversion Hd; subst. constructor.
    + rewrite in_app_iff. intros [H|[H|[]]]; [contradiction|]. apply Hn. now left.
    + apply IH; [assumption|]. intros H. apply Hn. now right.
Qed.

Lemma keys_fold_nodup l : forall d0, NoDup (map fst d0) ->
  NoDup (map fst (fold_left (fun d kv => dict_set d (fst kv) (snd kv)) l d0)).
Proof.
  induction l as [|[k v] l IH]; intros d0 H; cbn [fold_left fst snd]; [assumption|].
  apply IH. rewrite keys_dict_set. destruct (has_key d0 k) eqn:E; [assumption|].
  apply NoDup_snoc; [assumption|now apply has_key_In].
Qed.

Lemma dict_of_keys_nodup l : NoDup (map fst (dict_of l)).
Proof. apply keys_fold_nodup. constructor. Qed.

Lemma In_lookup d k v : NoDup (map fst d) -> In (k, v) d -> lookup d k = Some v.
Proof.
  induction d as [|[k0 v0] d IH]; cbn [map fst In lookup]; [tauto|].
  intros Hd [H|H].
  - inversion H; subst. now rewrite seqb_refl.
  - inversion Hd; subst. destruct (str_eqb k k0) eqn:E.
    + apply seqb_spec in E. subst. exfalso. apply H2. apply (in_map fst) in H. exact H.
    + now apply IH.
Qed.

Lemma prefix_for_In d u p : prefix_for d u = Some p -> In (p, u) d.
Proof.
  induction d as [|[p0 u0] d IH]; cbn [prefix_for]; [discriminate|].
  destruct (str_eqb u u0) eqn:E.
  - intros H. inversion H; subst. apply seqb_spec in E. subst. now left.
  - intros H. right. now apply IH.
Qed.

Lemma prefix_for_None d u p : prefix_for d u = None -> ~ In (p, u) d.
Proof.
  induction d as [|[p0 u0] d IH]; cbn [prefix_for In]; [tauto|].
  destruct (str_eqb u u0) eqn:E; [discriminate|]. intros H [H1|H1].
  - inversion H1; subst. now rewrite seqb_refl in E.
  - now apply IH.
Qed.

(* ---------- unique_everseen by URI ---------- *)
Lemma uniq_spec l : forall seen p u,
  In (p, u) (uniq_by_uri l seen) <->
  exists l1 l2, l = l1 ++ (p, u) :: l2 /\ ~ In u (map snd l1) /\ mem u seen = false.
Proof.
  induction l as [|[p0 u0] l IH]; intros seen p u; cbn [uniq_by_uri].
  - split; [intros []|]. intros (l1 & l2 & H & _). now destruct l1.
  - fold (mem u0 seen). destruct (mem u0 seen) eqn:Es.
    + rewrite IH. split.
      * intros (l1 & l2 & -> & Hn & Hs). exists ((p0, u0) :: l1), l2. split; [reflexivity|]. split; [|assumption].
        cbn [map snd In]. intros [H|H]; [|contradiction]. subst. congruence.
      * intros (l1 & l2 & H & Hn & Hs). destruct l1 as [|x l1]; cbn [app] in H.
        -- inversion H; subst. congruence.
        -- inversion H; subst. exists l1, l2. split; [reflexivity|]. split; [|assumption].
           intros Hi. apply Hn. now right.
    + cbn [In]. rewrite IH. split.
      * intros [H|(l1 & l2 & -> & Hn & Hs)].
        -- inversion H; subst. exists [], l. repeat split; [intros []|assumption].
        -- unfold mem in Hs. cbn [existsb] in Hs. apply orb_false_iff in Hs. destruct Hs as [Hu Hs].
           exists ((p0, u0) :: l1), l2. split; [reflexivity|]. split; [|exact Hs].
           cbn [map snd In]. intros [H|H]; [|contradiction]. subst. now rewrite seqb_refl in Hu.
      * intros (l1 & l2 & H & Hn & Hs). destruct l1 as [|x l1]; cbn [app] in H.
        -- inversion H; subst. now left.
        -- inversion H; subst. right. exists l1, l2. split; [reflexivity|]. split.
           ++ intros Hi. apply Hn. now right.
           ++ unfold mem. cbn [existsb]. apply orb_false_iff. split; [|exact Hs].
              apply seqb_false. intros ->. apply Hn. now left.
Qed.

Lemma uniq_sub l seen p u : In (p, u) (uniq_by_uri l seen) -> In (p, u) l.
Proof. rewrite uniq_spec. intros (l1 & l2 & -> & _). apply in_or_app. right. now left. Qed.

Lemma uniq_not_seen l seen p u : In (p, u) (uniq_by_uri l seen) -> mem u seen = false.
Proof. rewrite uniq_spec. now intros (l1 & l2 & _ & _ & H). Qed.

Lemma uniq_nodup l : forall seen, NoDup (map snd (uniq_by_uri l seen)).
Proof.
  induction l as [|[p0 u0] l IH]; intros seen; cbn [uniq_by_uri]; [constructor|].
  destruct (existsb (str_eqb u0) seen); [apply IH|].
  cbn [map snd]. constructor; [|apply IH].
  intros H. apply in_map_iff in H. destruct H as ([p u] & Hu & Hi). cbn [snd] in Hu. subst u.
  apply uniq_not_seen in Hi. unfold mem in Hi. cbn [existsb] in Hi. now rewrite seqb_refl in Hi.
Qed.

Lemma uniq_complete l : forall seen u,
  In u (map snd l) -> mem u seen = false -> exists p, In (p, u) (uniq_by_uri l seen).
Proof.
  induction l as [|[p0 u0] l IH]; intros seen u; cbn [map snd In uniq_by_uri]; [tauto|].
  intros Hi Hs. fold (mem u0 seen). destruct (str_eqb u u0) eqn:E.
  - apply seqb_spec in E. subst u0. rewrite Hs. exists p0. now left.
  - destruct Hi as [Hi|Hi]; [subst; now rewrite seqb_refl in E|].
    destruct (mem u0 seen).
    + now apply IH.
    + destruct (IH (u0 :: seen) u Hi) as (p & Hp).
      * unfold mem. cbn [existsb]. now rewrite E.
      * exists p. now right.
Qed.

(* ---------- the mapping view ---------- *)
(* the last declaration of a URI wins *)
Theorem effective_spec s p u :
  In (p, u) (effective s) <->
  exists l1 l2, ns_list s = l1 ++ (p, u) :: l2 /\ ~ In u (map snd l2).
Proof.
  unfold effective. rewrite uniq_spec. split.
  - intros (l1 & l2 & H & Hn & _). exists (rev l2), (rev l1). split.
    + rewrite <- (rev_involutive (ns_list s)), H, rev_app_distr. cbn [rev]. now rewrite <- app_assoc.
    + rewrite map_rev, <- in_rev. exact Hn.
  - intros (l1 & l2 & H & Hn). exists (rev l2), (rev l1). split.
    + rewrite H, rev_app_distr. cbn [rev]. now rewrite <- app_assoc.
    + split; [|reflexivity]. rewrite map_rev, <- in_rev. exact Hn.
Qed.

Theorem effective_uris_distinct s : NoDup (map snd (effective s)).
Proof. apply uniq_nodup. Qed.

Lemma view_lookup s p : lookup (view s) p = lookup (rev (effective s)) p.
Proof. apply lookup_dict_of. Qed.

(* every entry of the mapping is an effective rule *)
Theorem view_sound s p u : lookup (view s) p = Some u -> In (p, u) (effective s).
Proof. rewrite view_lookup. intros H. apply lookup_In in H. now apply in_rev. Qed.

Lemma nodup_snd_inj (l : list (str * str)) p q u :
  NoDup (map snd l) -> In (p, u) l -> In (q, u) l -> p = q.
Proof.
  induction l as [|[p0 u0] l IH]; cbn [map snd In]; [tauto|].
  intros Hd [H1|H1] [H2|H2]; inversion Hd; subst.
  - congruence.
  - inversion H1; subst. exfalso. apply H3. apply (in_map snd) in H2. exact H2.
  - inversion H2; subst. exfalso. apply H3. apply (in_map snd) in H1. exact H1.
  - now apply IH.
Qed.

(* one prefix per URI *)
Theorem view_one_prefix_per_uri s p q u :
  lookup (view s) p = Some u -> lookup (view s) q = Some u -> p = q.
Proof.
  intros H1 H2. apply view_sound in H1. apply view_sound in H2.
  exact (nodup_snd_inj _ _ _ _ (effective_uris_distinct s) H1 H2).
Qed.

(* when no two effective rules share a prefix, the mapping IS the set of
   effective rules *)
Theorem view_complete s p u :
  NoDup (map fst (effective s)) -> In (p, u) (effective s) -> lookup (view s) p = Some u.
Proof.
  intros Hd Hi. rewrite view_lookup. apply In_lookup.
  - rewrite map_rev. apply NoDup_rev. exact Hd.
  - now apply in_rev in Hi.
Qed.

Theorem view_keys_distinct s : NoDup (map fst (view s)).
Proof. apply dict_of_keys_nodup. Qed.

(* with a duplicated prefix the dictionary keeps the EARLIER rule (the later
   one in reversed order) *)
Definition dup_sheet : sheet := [RNs [97] [117; 49]; RNs [97] [117; 50]].
Lemma view_complete_refuted_witness :
  In ([97], [117; 50]) (effective dup_sheet) /\ lookup (view dup_sheet) [97] = Some [117; 49].
Proof. vm_compute. split; [now left|reflexivity]. Qed.

Theorem view_complete_refuted :
  exists s p u, In (p, u) (effective s) /\ lookup (view s) p <> Some u.
Proof.
  exists dup_sheet, [97], [117; 50]. destruct view_complete_refuted_witness as [H1 H2].
  split; [exact H1|]. rewrite H2. discriminate.
Qed.

(* ---------- serialise, then resolve ---------- *)
Definition is_attr (k : kind) : bool := match k with KAttr => true | _ => false end.
Definition opt_is (o : option str) (u : str) : bool :=
  match o with Some v => str_eqb v u | None => false end.

(* the guard: what the serialisation can express faithfully
   - a URI must have a prefix in the mapping (be declared);
   - a name stored with namespace None (parsed without prefix while there was
     no default namespace) is only faithful while there is still no default
     [finding C15-default-after-parse];
   - an attribute whose URI is the default namespace's URI has no prefix to
     be written with [finding C15-attr-default-uri];
   - attribute items never carry None / '' (New.append stores a plain name) *)
Definition item_ok (m : dict) (i : sitem) : bool :=
  match i with
  | SPlain _ => true
  | SNs k RNone _ => negb (is_attr k) && negb (has_key m [])
  | SNs _ RAny _ => true
  | SNs k REmpty _ => negb (is_attr k)
  | SNs k (RUri u) _ =>
    match prefix_for m u with Some _ => true | None => false end
    && negb (is_attr k && opt_is (lookup m []) u)
  end.
Definition sel_ok (m : dict) (sel : selector) : bool := forallb (item_ok m) sel.

Lemma resolve_ser_item m i :
  NoDup (map fst m) -> item_ok m i = true -> resolve_item m (ser_item m i) = Some i.
Proof.
  intros Hk Hok. destruct i as [k r n|n]; [|reflexivity].
  destruct r as [| | |u]; cbn [item_ok] in Hok.
  - apply andb_true_iff in Hok. destruct Hok as [Ha Hd]. unfold has_key in Hd.
    cbn [ser_item]. destruct (lookup m []) eqn:El; [discriminate|].
    destruct k; try discriminate; cbn [resolve_item]; now rewrite El.
  - cbn [ser_item]. destruct (lookup m []); destruct k; reflexivity.
  - cbn [ser_item]. destruct (lookup m []); destruct k; try discriminate; reflexivity.
  - apply andb_true_iff in Hok. destruct Hok as [Hp Ha].
    destruct (prefix_for m u) as [p|] eqn:Ep; [|discriminate].
    pose proof (In_lookup _ _ _ Hk (prefix_for_In _ _ _ Ep)) as Hl.
    cbn [ser_item]. destruct (lookup m []) as [du|] eqn:Ed.
    + destruct (str_eqb du u) eqn:Edu.
      * apply seqb_spec in Edu. subst du. cbn [opt_is] in Ha. rewrite seqb_refl, andb_true_r in Ha.
        destruct k; try discriminate; cbn [resolve_item]; now rewrite Ed.
      * rewrite Ep. destruct p as [|c p].
        -- rewrite Hl in Ed. inversion Ed; subst. now rewrite seqb_refl in Edu.
        -- cbn [mk_pspec]. destruct k; cbn [resolve_item]; now rewrite Hl.
    + rewrite Ep. destruct p as [|c p]; [congruence|].
      cbn [mk_pspec]. destruct k; cbn [resolve_item]; now rewrite Hl.
Qed.

Lemma resolve_ser_sel m sel :
  NoDup (map fst m) -> sel_ok m sel = true -> resolve m (ser_sel m sel) = Some sel.
Proof.
  intros Hk. induction sel as [|i sel IH]; cbn [sel_ok forallb ser_sel map resolve]; [reflexivity|].
  intros H. apply andb_true_iff in H. destruct H as [Hi Hs].
  rewrite (resolve_ser_item _ _ Hk Hi). fold (ser_sel m sel). now rewrite (IH Hs).
Qed.

Theorem reserialise_resolves_guarded s sel :
  sel_ok (view s) sel = true -> resolve (view s) (ser_selector s sel) = Some sel.
Proof. apply resolve_ser_sel. apply view_keys_distinct. Qed.

(* the three ways the unguarded statement fails, by computation *)
Definition sh_default : sheet := [RNs [] [100]; RStyle false [[SNs KType RNone [97]]]].
Definition sh_attr : sheet := [RNs [] [117]; RStyle false [[SNs KAttr (RUri [117]) [121]]]].
Definition sh_undecl : sheet := [RStyle false [[SNs KType (RUri [104]) [97]]]].

Lemma reserialise_refuted_default :
  resolve (view sh_default) (ser_selector sh_default [SNs KType RNone [97]]) = Some [SNs KType REmpty [97]].
Proof. vm_compute. reflexivity. Qed.
Lemma reserialise_refuted_attr :
  resolve (view sh_attr) (ser_selector sh_attr [SNs KAttr (RUri [117]) [121]]) = Some [SPlain [121]].
Proof. vm_compute. reflexivity. Qed.
Lemma reserialise_refuted_undeclared :
  resolve (view sh_undecl) (ser_selector sh_undecl [SNs KType (RUri [104]) [97]]) = Some [SNs KType REmpty [97]].
Proof. vm_compute. reflexivity. Qed.

Theorem reserialise_resolves_refuted :
  exists s sel, In (RStyle false [sel]) s /\ resolve (view s) (ser_selector s sel) <> Some sel.
Proof.
  exists sh_default, [SNs KType RNone [97]]. split; [right; now left|].
  rewrite reserialise_refuted_default. discriminate.
Qed.

(* ---------- parsing selector text: prefixes, default namespace ---------- *)
Lemma resolve_none m t k p n :
  In (k, PPfx p, n) t -> lookup m p = None -> resolve m t = None.
Proof.
  induction t as [|x t IH]; cbn [In resolve]; [tauto|]. intros [H|H] Hl.
  - subst x. assert (E : resolve_item m (k, PPfx p, n) = None) by (destruct k; cbn [resolve_item]; now rewrite Hl).
    now rewrite E.
  - rewrite (IH H Hl). now destruct (resolve_item m x).
Qed.

Lemma resolve_list_none m ts t k p n :
  In t ts -> In (k, PPfx p, n) t -> lookup m p = None -> resolve_list m ts = None.
Proof.
  induction ts as [|x ts IH]; cbn [In resolve_list]; [tauto|]. intros [H|H] Hi Hl.
  - subst x. now rewrite (resolve_none _ _ _ _ _ Hi Hl).
  - rewrite (IH H Hi Hl). now destruct (resolve m x).
Qed.

Theorem undeclared_prefix_add s md ts t k p n :
  In t ts -> In (k, PPfx p, n) t -> lookup (view s) p = None ->
  step s (OAddStyle md ts) = (s, ENamespace).
Proof. intros H1 H2 H3. cbn [step]. now rewrite (resolve_list_none _ _ _ _ _ _ H1 H2 H3). Qed.

Theorem undeclared_prefix_set s i ts t k p n :
  In t ts -> In (k, PPfx p, n) t -> lookup (view s) p = None ->
  step s (OSetSel i ts) = (s, ENamespace).
Proof. intros H1 H2 H3. cbn [step]. now rewrite (resolve_list_none _ _ _ _ _ _ H1 H2 H3). Qed.

Theorem undeclared_prefix_attach s md d ts t k p n :
  In t ts -> In (k, PPfx p, n) t -> lookup d p = None ->
  step s (OAttach md d ts) = (s, ENamespace).
Proof. intros H1 H2 H3. cbn [step]. now rewrite (resolve_list_none _ _ _ _ _ _ H1 H2 H3). Qed.

(* unprefixed type / universal selectors take the default namespace of the
   moment they are parsed; unprefixed attributes never do *)
Theorem default_ns_element m k n :
  is_attr k = false ->
  resolve_item m (k, PNo, n)
  = Some (SNs k (match lookup m [] with Some u => RUri u | None => RNone end) n).
Proof. destruct k; [reflexivity|reflexivity|discriminate]. Qed.

Theorem default_ns_not_attributes m n : resolve_item m (KAttr, PNo, n) = Some (SPlain n).
Proof. reflexivity. Qed.

Theorem default_ns_serialised_bare m k u n :
  is_attr k = false -> lookup m [] = Some u ->
  ser_item m (SNs k (RUri u) n) = (k, PNo, n) /\
  resolve_item m (k, PNo, n) = Some (SNs k (RUri u) n).
Proof.
  intros Hk Hl. split.
  - cbn [ser_item]. now rewrite Hl, seqb_refl.
  - rewrite default_ns_element by assumption. now rewrite Hl.
Qed.

(* explicit prefix: always the URI the mapping gives, whatever the default *)
Theorem prefixed_resolves m k p u n :
  lookup m p = Some u -> resolve_item m (k, PPfx p, n) = Some (SNs k (RUri u) n).
Proof. intros H. destruct k; cbn [resolve_item]; now rewrite H. Qed.

(* ---------- list surgery ---------- *)
Lemma nth_split {A} (s : list A) : forall i r,
  nth_error s i = Some r ->
  s = firstn i s ++ r :: skipn (S i) s /\ remove_nth i s = firstn i s ++ skipn (S i) s.
Proof.
  induction s as [|x s IH]; intros [|i] r H; cbn [nth_error] in H; try discriminate.
  - inversion H; subst. split; reflexivity.
  - destruct (IH i r H) as [H1 H2]. cbn [firstn skipn remove_nth app]. split.
    + f_equal. exact H1.
    + f_equal. exact H2.
Qed.

Lemma insert_at_split {A} (x : A) (s : list A) : forall i,
  insert_at i x s = firstn i s ++ x :: skipn i s.
Proof.
  induction s as [|y s IH]; intros [|i]; cbn [insert_at firstn skipn app]; try reflexivity.
  f_equal. apply IH.
Qed.

Lemma ns_list_app a b : ns_list (a ++ b) = ns_list a ++ ns_list b.
Proof. unfold ns_list. apply flat_map_app. Qed.
Lemma all_items_app a b : all_items (a ++ b) = all_items a ++ all_items b.
Proof. unfold all_items. apply flat_map_app. Qed.

(* ---------- meaning frame: namespace operations never touch a style rule ---------- *)
Definition styles (s : sheet) : list rule := filter is_style s.

Lemma styles_app a b : styles (a ++ b) = styles a ++ styles b.
Proof. apply filter_app. Qed.

Lemma styles_drop a r b : is_style r = false -> styles (a ++ r :: b) = styles (a ++ b).
Proof. intros H. rewrite !styles_app. unfold styles at 2. cbn [filter]. now rewrite H. Qed.

Lemma styles_insert_ns i p u s : styles (insert_at i (RNs p u) s) = styles s.
Proof.
  rewrite insert_at_split, styles_drop by reflexivity. now rewrite firstn_skipn.
Qed.

Lemma styles_remove i s r :
  nth_error s i = Some r -> is_style r = false -> styles (remove_nth i s) = styles s.
Proof.
  intros H Hr. destruct (nth_split s i r H) as [H1 H2]. rewrite H2. rewrite H1 at 3.
  now rewrite styles_drop.
Qed.

Lemma clean_loop_styles items : forall todo done,
  styles (fst (clean_loop items done todo)) = styles (done ++ todo).
Proof.
  induction todo as [|x todo IH]; intros done; cbn [clean_loop].
  - cbn [fst]. now rewrite app_nil_r.
  - destruct x as [|p u|m sels].
    + rewrite IH, <- app_assoc. reflexivity.
    + destruct (has_item items p u).
      * rewrite IH, <- app_assoc. reflexivity.
      * destruct (guarded u (done ++ RNs p u :: todo)); cbn [fst]; [reflexivity|].
        rewrite IH. now rewrite styles_drop.
    + rewrite IH, <- app_assoc. reflexivity.
Qed.

Lemma clean_styles s : styles (fst (clean s)) = styles s.
Proof. unfold clean. now rewrite clean_loop_styles. Qed.

Lemma set_prefix_styles s : forall k p, styles (set_prefix s k p) = styles s.
Proof.
  induction s as [|x s IH]; intros k p; cbn [set_prefix]; [reflexivity|].
  destruct x as [|p' u|m sels].
  - unfold styles. cbn [filter is_style]. apply IH.
  - destruct k; unfold styles; cbn [filter is_style]; [reflexivity|apply IH].
  - unfold styles. cbn [filter is_style]. f_equal. apply IH.
Qed.

Lemma find_last_ns_spec s p : forall i0 acc i u,
  find_last_ns s p i0 acc = Some (i, u) ->
  acc = Some (i, u) \/ exists j, i = (i0 + j)%nat /\ nth_error s j = Some (RNs p u).
Proof.
  induction s as [|x s IH]; intros i0 acc i u; cbn [find_last_ns]; [now left|].
  destruct x as [|p' u'|m sels]; intros H; apply IH in H.
  - destruct H as [H|(j & -> & Hj)]; [now left|]. right. exists (S j). split; [lia|exact Hj].
  - destruct H as [H|(j & -> & Hj)].
    + destruct (str_eqb p p') eqn:E; [|now left]. inversion H; subst. apply seqb_spec in E. subst.
      right. exists 0%nat. split; [lia|reflexivity].
    + right. exists (S j). split; [lia|exact Hj].
  - destruct H as [H|(j & -> & Hj)]; [now left|]. right. exists (S j). split; [lia|exact Hj].
Qed.

Lemma find_last_ns_nth s p i u :
  find_last_ns s p 0 None = Some (i, u) -> nth_error s i = Some (RNs p u).
Proof.
  intros H. apply find_last_ns_spec in H. destruct H as [H|(j & -> & Hj)]; [discriminate|exact Hj].
Qed.

Lemma delete_rule_styles s i :
  match nth_error s i with Some (RStyle _ _) => False | _ => True end ->
  styles (fst (delete_rule s i)) = styles s.
Proof.
  unfold delete_rule. destruct (nth_error s i) as [[|p u|m sels]|] eqn:E; intros H; try contradiction.
  - cbn [fst]. now apply (styles_remove i s RCharset).
  - destruct (guarded u s); cbn [fst]; [reflexivity|]. now apply (styles_remove i s (RNs p u)).
  - reflexivity.
Qed.

Lemma clean_or_restore_styles s s' : styles s' = styles s -> styles (fst (clean_or_restore s s')) = styles s.
Proof.
  intros H. unfold clean_or_restore. pose proof (clean_styles s') as Hc.
  destruct (clean s') as [t r]; destruct r; cbn [fst] in *; try reflexivity. now rewrite Hc.
Qed.

Lemma insert_ns_styles s p u idx : styles (fst (insert_ns s p u idx)) = styles s.
Proof.
  unfold insert_ns.
  match goal with |- context [match ?x with inl _ => _ | inr _ => _ end] => destruct x as [i|e] end;
    [|reflexivity].
  destruct (lookup (view s) p) as [u'|]; [destruct (str_eqb u' u); [reflexivity|]|];
    now rewrite clean_or_restore_styles; [|apply styles_insert_ns].
Qed.

Definition ns_op_at (s : sheet) (o : op) : bool :=
  match o with
  | ONsSet _ _ | ONsDel _ | OInsNs _ _ _ | OSetPrefix _ _ => true
  | ODelRule i => match nth_error s i with Some (RStyle _ _) => false | _ => true end
  | _ => false
  end.
Fixpoint ns_history (s : sheet) (ops : list op) : bool :=
  match ops with
  | [] => true
  | o :: r => ns_op_at s o && ns_history (step_state s o) r
  end.

Theorem meaning_frame_step s o : ns_op_at s o = true -> styles (step_state s o) = styles s.
Proof.
  unfold step_state. destruct o as [p u|p|p u idx|i|m ts|i ts|k p|m d ts]; cbn [ns_op_at step]; intros H;
    try discriminate.
  - unfold ns_set. destruct (find_last_ns s p 0 None) as [[j ur]|].
    + destruct (has_key (view s) p); [destruct (str_eqb ur u)|]; reflexivity.
    + apply insert_ns_styles.
  - unfold ns_del. destruct (find_last_ns s p 0 None) as [[j ur]|] eqn:E; [|reflexivity].
    apply delete_rule_styles. now rewrite (find_last_ns_nth _ _ _ _ E).
  - apply insert_ns_styles.
  - apply delete_rule_styles. destruct (nth_error s i) as [[| |]|]; try exact I. discriminate.
  - cbn [fst]. apply set_prefix_styles.
Qed.

Theorem meaning_frame ops : forall s, ns_history s ops = true -> styles (run ops s) = styles s.
Proof.
  induction ops as [|o ops IH]; intros s H; cbn [run fold_left]; [reflexivity|].
  cbn [ns_history] in H. apply andb_true_iff in H. destruct H as [H1 H2].
  fold (run ops (step_state s o)). rewrite (IH _ H2). now apply meaning_frame_step.
Qed.

(* ---------- the delete guard ---------- *)
Definition used (s : sheet) (u : str) : Prop := exists k n, In (SNs k (RUri u) n) (all_items s).

Lemma used_uses s u : used s u -> uses_uri u s = true.
Proof.
  intros (k & n & H). unfold uses_uri. apply existsb_exists. exists (SNs k (RUri u) n).
  split; [exact H|]. cbn [item_uses]. apply seqb_refl.
Qed.

Theorem delete_used_rejected s i p u :
  nth_error s i = Some (RNs p u) -> used s u -> count_uri u s = 1%nat ->
  step s (ODelRule i) = (s, ENoMod).
Proof.
  intros Hn Hu Hc. cbn [step]. unfold delete_rule. rewrite Hn. unfold guarded.
  now rewrite (used_uses _ _ Hu), Hc.
Qed.

Theorem del_used_rejected s p i u :
  find_last_ns s p 0 None = Some (i, u) -> used s u -> count_uri u s = 1%nat ->
  step s (ONsDel p) = (s, ENoMod).
Proof.
  intros Hf Hu Hc. cbn [step]. unfold ns_del. rewrite Hf.
  exact (delete_used_rejected s i p u (find_last_ns_nth _ _ _ _ Hf) Hu Hc).
Qed.

Theorem del_unknown_prefix s p :
  find_last_ns s p 0 None = None -> step s (ONsDel p) = (s, ENamespace).
Proof. intros H. cbn [step]. unfold ns_del. now rewrite H. Qed.

(* ---------- every used URI keeps a declaring rule ---------- *)
Definition rule_declared (s : sheet) (u : str) : Prop := In u (map snd (ns_list s)).
Definition ur (s : sheet) : Prop := forall u, used s u -> rule_declared s u.

Lemma filter_len_pos {A} (f : A -> bool) l :
  length (filter f l) <> 0%nat -> exists x, In x l /\ f x = true.
Proof.
  induction l as [|x l IH]; cbn [filter length]; [congruence|].
  destruct (f x) eqn:E.
  - intros _. exists x. split; [now left|exact E].
  - intros H. destruct (IH H) as (y & Hy & Hf). exists y. split; [now right|exact Hf].
Qed.

Lemma drop_ns_ok a p u b :
  ur (a ++ RNs p u :: b) -> guarded u (a ++ RNs p u :: b) = false -> ur (a ++ b).
Proof.
  intros Hur Hg u' Hused.
  assert (Hu : used (a ++ RNs p u :: b) u').
  { destruct Hused as (k & n & H). exists k, n. rewrite all_items_app in *. exact H. }
  specialize (Hur u' Hu). unfold rule_declared in *. rewrite ns_list_app in *. cbn [ns_list flat_map ns_of app] in Hur.
  fold (ns_list b) in Hur. rewrite map_app in *. cbn [map snd] in Hur.
  apply in_app_iff in Hur. apply in_app_iff. destruct Hur as [H|[H|H]]; [now left| |now right].
  subst u'. unfold guarded in Hg. rewrite (used_uses _ _ Hu) in Hg. cbn [andb] in Hg.
  apply Nat.eqb_neq in Hg. unfold count_uri in Hg. rewrite ns_list_app in Hg.
  cbn [ns_list flat_map ns_of app] in Hg. fold (ns_list b) in Hg.
  rewrite filter_app, app_length in Hg. cbn [filter snd] in Hg. rewrite seqb_refl in Hg. cbn [length] in Hg.
  assert (Hx : length (filter (fun pu => str_eqb u (snd pu)) (ns_list a)) <> 0%nat \/
               length (filter (fun pu => str_eqb u (snd pu)) (ns_list b)) <> 0%nat) by lia.
  destruct Hx as [Hx|Hx]; apply filter_len_pos in Hx; destruct Hx as ([q v] & Hi & He);
    cbn [snd] in He; apply seqb_spec in He; subst v; [left|right]; apply (in_map snd) in Hi; exact Hi.
Qed.

Lemma drop_other_ok a r b : ur (a ++ r :: b) -> is_ns r = false -> ur (a ++ b).
Proof.
  intros Hur Hr u' (k & n & H).
  assert (Hu : used (a ++ r :: b) u').
  { exists k, n. rewrite all_items_app in *. apply in_app_iff in H. apply in_app_iff.
    destruct H as [H|H]; [now left|right]. cbn [all_items flat_map]. apply in_app_iff. now right. }
  specialize (Hur u' Hu). unfold rule_declared in *. rewrite ns_list_app in *.
  cbn [ns_list flat_map] in Hur. destruct r; try discriminate; exact Hur.
Qed.

Lemma add_ns_ok a p u b : ur (a ++ b) -> ur (a ++ RNs p u :: b).
Proof.
  intros Hur u' (k & n & H).
  assert (Hu : used (a ++ b) u') by (exists k, n; rewrite all_items_app in *; exact H).
  specialize (Hur u' Hu). unfold rule_declared in *. rewrite ns_list_app in *.
  cbn [ns_list flat_map ns_of app]. fold (ns_list b). rewrite map_app in *. cbn [map snd].
  apply in_app_iff in Hur. apply in_app_iff. destruct Hur as [H1|H1]; [now left|right; now right].
Qed.

Lemma delete_rule_ur s i : ur s -> ur (fst (delete_rule s i)).
Proof.
  intros Hur. unfold delete_rule. destruct (nth_error s i) as [r|] eqn:E; [|exact Hur].
  destruct (nth_split s i r E) as [H1 H2].
  destruct r as [|p u|m sels].
  - cbn [fst]. rewrite H2. rewrite H1 in Hur. now apply (drop_other_ok _ RCharset).
  - destruct (guarded u s) eqn:Eg; cbn [fst]; [exact Hur|]. rewrite H2.
    rewrite H1 in Hur, Eg. now apply (drop_ns_ok _ p u).
  - cbn [fst]. rewrite H2. rewrite H1 in Hur. now apply (drop_other_ok _ (RStyle m sels)).
Qed.

Lemma clean_loop_ur items : forall todo done,
  ur (done ++ todo) -> ur (fst (clean_loop items done todo)).
Proof.
  induction todo as [|x todo IH]; intros done Hur; cbn [clean_loop].
  - cbn [fst]. now rewrite app_nil_r in Hur.
  - destruct x as [|p u|m sels].
    + apply IH. now rewrite <- app_assoc.
    + destruct (has_item items p u).
      * apply IH. now rewrite <- app_assoc.
      * destruct (guarded u (done ++ RNs p u :: todo)) eqn:Eg; cbn [fst]; [exact Hur|].
        apply IH. now apply (drop_ns_ok _ p u).
    + apply IH. now rewrite <- app_assoc.
Qed.

Lemma insert_ns_ur s p u idx : ur s -> ur (fst (insert_ns s p u idx)).
Proof.
  intros Hur. unfold insert_ns.
  match goal with |- context [match ?x with inl _ => _ | inr _ => _ end] => destruct x as [i|e] end;
    [|exact Hur].
  assert (Hi : ur (insert_at i (RNs p u) s)).
  { rewrite insert_at_split. apply add_ns_ok. now rewrite firstn_skipn. }
  assert (Hc : ur (fst (clean (insert_at i (RNs p u) s)))) by (unfold clean; now apply clean_loop_ur).
  assert (Hr : ur (fst (clean_or_restore s (insert_at i (RNs p u) s)))).
  { unfold clean_or_restore. destruct (clean (insert_at i (RNs p u) s)) as [t r]. cbn [fst] in Hc.
    destruct r; cbn [fst]; assumption. }
  destruct (lookup (view s) p) as [u'|]; [destruct (str_eqb u' u); [exact Hur|]|]; exact Hr.
Qed.

Lemma set_prefix_items s : forall k p, all_items (set_prefix s k p) = all_items s.
Proof.
  induction s as [|x s IH]; intros k p; cbn [set_prefix]; [reflexivity|].
  destruct x as [|p' u|m sels]; [| destruct k |]; cbn [all_items flat_map rule_items app];
    try reflexivity; try (f_equal; apply IH); apply IH.
Qed.

Lemma set_prefix_uris s : forall k p, map snd (ns_list (set_prefix s k p)) = map snd (ns_list s).
Proof.
  induction s as [|x s IH]; intros k p; cbn [set_prefix]; [reflexivity|].
  destruct x as [|p' u|m sels]; [| destruct k |]; cbn [ns_list flat_map ns_of app map snd];
    try reflexivity; try (f_equal; apply IH); apply IH.
Qed.

Lemma set_sels_items s : forall i sels x,
  In x (all_items (set_sels s i sels)) -> In x (all_items s) \/ In x (concat sels).
Proof.
  induction s as [|r s IH]; intros i sels x; cbn [set_sels]; [now left|].
  destruct r as [|p u|m old].
  - cbn [all_items flat_map rule_items app]. apply IH.
  - cbn [all_items flat_map rule_items app]. apply IH.
  - destruct i as [|i]; cbn [all_items flat_map rule_items]; rewrite !in_app_iff.
    + intros [H|H]; [now right|left; now right].
    + intros [H|H]; [left; now left|]. apply IH in H. destruct H as [H|H]; [left; now right|now right].
Qed.

Lemma set_sels_ns s : forall i sels, ns_list (set_sels s i sels) = ns_list s.
Proof.
  induction s as [|r s IH]; intros i sels; cbn [set_sels]; [reflexivity|].
  destruct r as [|p u|m old]; [| |destruct i]; cbn [ns_list flat_map ns_of app];
    try reflexivity; try (f_equal; apply IH); apply IH.
Qed.

(* URIs produced by resolution come from the mapping used *)
Lemma resolve_item_uri m t k u n :
  resolve_item m t = Some (SNs k (RUri u) n) -> exists p, lookup m p = Some u.
Proof.
  destruct t as [[k0 ps] n0].
  destruct k0, ps as [| | |p]; cbn [resolve_item]; intros H; try discriminate;
    try (destruct (lookup m []) as [u0|] eqn:E; [|discriminate]; inversion H; subst; now exists []);
    try (destruct (lookup m p) as [u0|] eqn:E; [|discriminate]; inversion H; subst; now exists p).
Qed.

Lemma resolve_uri m : forall t sel k u n,
  resolve m t = Some sel -> In (SNs k (RUri u) n) sel -> exists p, lookup m p = Some u.
Proof.
  induction t as [|x t IH]; intros sel k u n; cbn [resolve].
  - intros H. inversion H; subst. intros [].
  - destruct (resolve_item m x) as [i|] eqn:Ei; [|discriminate].
    destruct (resolve m t) as [l|] eqn:El; [|discriminate].
    intros H. inversion H; subst. intros [Hi|Hi].
    + subst i. now apply resolve_item_uri in Ei.
    + now apply (IH l k u n).
Qed.

Lemma resolve_list_uri m : forall ts sels k u n,
  resolve_list m ts = Some sels -> In (SNs k (RUri u) n) (concat sels) -> exists p, lookup m p = Some u.
Proof.
  induction ts as [|x ts IH]; intros sels k u n; cbn [resolve_list].
  - intros H. inversion H; subst. intros [].
  - destruct (resolve m x) as [i|] eqn:Ei; [|discriminate].
    destruct (resolve_list m ts) as [l|] eqn:El; [|discriminate].
    intros H. inversion H; subst. cbn [concat]. rewrite in_app_iff. intros [Hi|Hi].
    + now apply (resolve_uri m x i k u n).
    + now apply (IH l k u n).
Qed.

Lemma view_value_declared s p u : lookup (view s) p = Some u -> rule_declared s u.
Proof.
  intros H. apply view_sound in H. unfold effective in H. apply uniq_sub in H.
  apply in_rev in H. apply (in_map snd) in H. exact H.
Qed.

Lemma append_style_ur s m sels :
  ur s -> (forall k u n, In (SNs k (RUri u) n) (concat sels) -> rule_declared s u) ->
  ur (s ++ [RStyle m sels]).
Proof.
  intros Hur Hnew u (k & n & H). unfold rule_declared. rewrite ns_list_app. cbn [ns_list flat_map ns_of].
  rewrite app_nil_r. rewrite all_items_app in H. cbn [all_items flat_map rule_items] in H.
  rewrite app_nil_r in H. apply in_app_iff in H. destruct H as [H|H].
  - apply Hur. now exists k, n.
  - now apply (Hnew k u n).
Qed.

Lemma set_sels_ur s i sels :
  ur s -> (forall k u n, In (SNs k (RUri u) n) (concat sels) -> rule_declared s u) ->
  ur (set_sels s i sels).
Proof.
  intros Hur Hnew u (k & n & H). unfold rule_declared. rewrite set_sels_ns.
  apply set_sels_items in H. destruct H as [H|H].
  - apply Hur. now exists k, n.
  - now apply (Hnew k u n).
Qed.

(* the one modelled operation that can bring in an undeclared URI: attaching
   a rule resolved against a foreign dictionary [finding C15-attach-undeclared] *)
Definition op_ok_at (s : sheet) (o : op) : bool :=
  match o with
  | OAttach _ d _ => forallb (fun kv => mem (snd kv) (map snd (ns_list s))) d
  | _ => true
  end.
Fixpoint ok_history (s : sheet) (ops : list op) : bool :=
  match ops with
  | [] => true
  | o :: r => op_ok_at s o && ok_history (step_state s o) r
  end.

Theorem used_declared_step s o : ur s -> op_ok_at s o = true -> ur (step_state s o).
Proof.
  intros Hur Hok. unfold step_state.
  destruct o as [p u|p|p u idx|i|m ts|i ts|k p|m d ts]; cbn [step].
  - unfold ns_set. destruct (find_last_ns s p 0 None) as [[j u0]|].
    + destruct (has_key (view s) p); [destruct (str_eqb u0 u)|]; exact Hur.
    + now apply insert_ns_ur.
  - unfold ns_del. destruct (find_last_ns s p 0 None) as [[j u0]|]; [|exact Hur]. now apply delete_rule_ur.
  - now apply insert_ns_ur.
  - now apply delete_rule_ur.
  - destruct (resolve_list (view s) ts) as [sels|] eqn:E; cbn [fst]; [|exact Hur].
    apply append_style_ur; [exact Hur|]. intros k u n H.
    destruct (resolve_list_uri _ _ _ _ _ _ E H) as (p & Hp). now apply (view_value_declared s p).
  - destruct (resolve_list (view s) ts) as [sels|] eqn:E; cbn [fst]; [|exact Hur].
    apply set_sels_ur; [exact Hur|]. intros k u n H.
    destruct (resolve_list_uri _ _ _ _ _ _ E H) as (p & Hp). now apply (view_value_declared s p).
  - cbn [fst]. intros u (k0 & n & H). unfold rule_declared. rewrite set_prefix_uris.
    rewrite set_prefix_items in H. apply Hur. now exists k0, n.
  - destruct (resolve_list d ts) as [sels|] eqn:E; cbn [fst]; [|exact Hur].
    apply append_style_ur; [exact Hur|]. intros k u n H.
    destruct (resolve_list_uri _ _ _ _ _ _ E H) as (p & Hp). apply lookup_In in Hp.
    cbn [op_ok_at] in Hok. rewrite forallb_forall in Hok. specialize (Hok _ Hp). cbn [snd] in Hok.
    now apply mem_In in Hok.
Qed.

Theorem used_declared_rules ops : forall s, ur s -> ok_history s ops = true -> ur (run ops s).
Proof.
  induction ops as [|o ops IH]; intros s Hur H; cbn [run fold_left]; [exact Hur|].
  cbn [ok_history] in H. apply andb_true_iff in H. destruct H as [H1 H2].
  fold (run ops (step_state s o)). apply IH; [|exact H2]. now apply used_declared_step.
Qed.

Lemma ur_nil : ur [].
Proof. intros u (k & n & []). Qed.

(* from "some rule declares it" to "the mapping declares it": needs distinct
   prefixes among the effective rules [finding C15-duplicate-prefix] *)
Theorem declared_in_view s u :
  NoDup (map fst (effective s)) -> rule_declared s u -> exists p, lookup (view s) p = Some u.
Proof.
  intros Hd Hr. unfold rule_declared in Hr. rewrite in_rev, <- map_rev in Hr.
  destruct (uniq_complete (rev (ns_list s)) [] u Hr eq_refl) as (p & Hp).
  exists p. now apply view_complete.
Qed.

Theorem used_declared ops u :
  ok_history [] ops = true -> NoDup (map fst (effective (run ops []))) ->
  used (run ops []) u -> exists p, lookup (view (run ops [])) p = Some u.
Proof.
  intros Hok Hd Hu. apply declared_in_view; [exact Hd|].
  exact (used_declared_rules ops [] ur_nil Hok u Hu).
Qed.

Lemma has_value_false d u p : has_value d u = false -> lookup d p <> Some u.
Proof.
  intros H Hl. apply lookup_In in Hl. unfold has_value in H.
  assert (E : existsb (fun kv => str_eqb u (snd kv)) d = true).
  { apply existsb_exists. exists (p, u). split; [exact Hl|apply seqb_refl]. }
  congruence.
Qed.

(* both guards are needed *)
Definition ops_dup : list op :=
  [ONsSet [97] [117; 49]; ONsSet [98] [117; 50];
   OAddStyle false [[(KType, PPfx [98], [120])]]; OSetPrefix 1 [97]].
Definition ops_attach : list op :=
  [OAttach false [([104], [104; 116])] [[(KType, PPfx [104], [97])]]].

Lemma used_declared_refuted_dup_w :
  ok_history [] ops_dup = true /\
  In (SNs KType (RUri [117; 50]) [120]) (all_items (run ops_dup [])) /\
  has_value (view (run ops_dup [])) [117; 50] = false.
Proof. vm_compute. repeat split. now left. Qed.

Lemma used_declared_refuted_attach_w :
  In (SNs KType (RUri [104; 116]) [97]) (all_items (run ops_attach [])) /\
  has_value (view (run ops_attach [])) [104; 116] = false.
Proof. vm_compute. split; [now left|reflexivity]. Qed.

Theorem used_declared_refuted :
  exists ops u, used (run ops []) u /\ forall p, lookup (view (run ops [])) p <> Some u.
Proof.
  exists ops_dup, [117; 50]. destruct used_declared_refuted_dup_w as (_ & H1 & H2). split.
  - now exists KType, [120].
  - intros p. now apply has_value_false.
Qed.

(* ---------- clean states: the mapping is exactly the rule set ---------- *)
Definition clean_state (s : sheet) : Prop :=
  NoDup (map fst (ns_list s)) /\ NoDup (map snd (ns_list s)).

Lemma uniq_nodup_filter l : forall seen, NoDup (map snd l) ->
  uniq_by_uri l seen = filter (fun x => negb (mem (snd x) seen)) l.
Proof.
  induction l as [|[p0 u0] l IH]; intros seen Hd; cbn [uniq_by_uri filter snd map]; [reflexivity|].
  cbn [map snd] in Hd. apply NoDup_cons_iff in Hd. destruct Hd as [Hn Hd].
  fold (mem u0 seen). destruct (mem u0 seen) eqn:E; cbn [negb].
  - now apply IH.
  - f_equal. rewrite IH by assumption. apply filter_ext_in. intros [p1 u1] Hi. cbn [snd].
    unfold mem at 1. cbn [existsb]. destruct (str_eqb u1 u0) eqn:E1; [|reflexivity].
    apply seqb_spec in E1. subst. exfalso. apply Hn. apply (in_map snd) in Hi. exact Hi.
Qed.

Lemma filter_all {A} (f : A -> bool) l : (forall x, In x l -> f x = true) -> filter f l = l.
Proof.
  induction l as [|x l IH]; intros H; cbn [filter]; [reflexivity|].
  rewrite (H x (or_introl eq_refl)). f_equal. apply IH. intros y Hy. apply H. now right.
Qed.

Lemma effective_clean s : NoDup (map snd (ns_list s)) -> effective s = rev (ns_list s).
Proof.
  intros H. unfold effective. rewrite uniq_nodup_filter.
  - apply filter_all. reflexivity.
  - rewrite map_rev. now apply NoDup_rev.
Qed.

Theorem clean_state_view s r v :
  clean_state s -> (lookup (view s) r = Some v <-> In (r, v) (ns_list s)).
Proof.
  intros [Hf Hs]. pose proof (effective_clean s Hs) as He. split.
  - intros H. apply view_sound in H. rewrite He in H. now apply in_rev.
  - intros H. apply view_complete.
    + rewrite He, map_rev. now apply NoDup_rev.
    + rewrite He. now apply in_rev in H.
Qed.

(* ---------- where add() puts an @namespace rule ---------- *)
Lemma is_ns_false_ns_of r : is_ns r = false -> ns_of r = [].
Proof. destruct r; [reflexivity|discriminate|reflexivity]. Qed.

Lemma last_ns_end_spec s : forall i0 acc,
  match last_ns_end s i0 acc with
  | Some j => (acc = Some j /\ ns_list s = []) \/ (exists k, j = (i0 + k)%nat /\ ns_list (skipn k s) = [])
  | None => acc = None /\ ns_list s = []
  end.
Proof.
  induction s as [|r t IH]; intros i0 acc; cbn [last_ns_end].
  - destruct acc as [j|]; [left|]; split; reflexivity.
  - specialize (IH (S i0) (if is_ns r then Some (S i0) else acc)).
    destruct (last_ns_end t (S i0) (if is_ns r then Some (S i0) else acc)) as [j|].
    + destruct IH as [[Ha Hn]|(k & -> & Hk)].
      * destruct (is_ns r) eqn:Er.
        -- inversion Ha; subst. right. exists 1%nat. split; [lia|]. cbn [skipn]. exact Hn.
        -- left. split; [exact Ha|]. cbn [ns_list flat_map]. rewrite (is_ns_false_ns_of _ Er). exact Hn.
      * right. exists (S k). split; [lia|]. cbn [skipn]. exact Hk.
    + destruct IH as [Ha Hn]. destruct (is_ns r) eqn:Er; [discriminate|].
      split; [exact Ha|]. cbn [ns_list flat_map]. rewrite (is_ns_false_ns_of _ Er). exact Hn.
Qed.

Lemma ns_list_skipn_nil s i : ns_list s = [] -> ns_list (skipn i s) = [].
Proof.
  intros H. rewrite <- (firstn_skipn i s), ns_list_app in H. apply app_eq_nil in H. tauto.
Qed.

Lemma inorder_tail s : ns_list (skipn (inorder_index s) s) = [].
Proof.
  unfold inorder_index. pose proof (last_ns_end_spec s 0 None) as H.
  destruct (last_ns_end s 0 None) as [j|].
  - destruct H as [[H _]|(k & -> & Hk)]; [discriminate|exact Hk].
  - destruct H as [_ H]. now apply ns_list_skipn_nil.
Qed.

Lemma ns_list_cons r s : ns_list (r :: s) = ns_of r ++ ns_list s.
Proof. reflexivity. Qed.

Lemma ns_list_insert_inorder s p u :
  ns_list (insert_at (inorder_index s) (RNs p u) s) = ns_list s ++ [(p, u)].
Proof.
  assert (H : ns_list s = ns_list (firstn (inorder_index s) s)).
  { rewrite <- (firstn_skipn (inorder_index s) s) at 1. rewrite ns_list_app, inorder_tail. apply app_nil_r. }
  rewrite insert_at_split, ns_list_app, ns_list_cons, inorder_tail, <- H. reflexivity.
Qed.

(* ---------- the clean-up never fails when every dropped rule is shadowed
   by a kept rule of the same URI; it keeps exactly the mapping's rules ---------- *)
Definition keep (items : dict) (r : rule) : bool :=
  match r with RNs p u => has_item items p u | _ => true end.

Lemma In_rule_ns p u s : In (RNs p u) s <-> In (p, u) (ns_list s).
Proof.
  unfold ns_list. rewrite in_flat_map. split.
  - intros H. exists (RNs p u). split; [exact H|now left].
  - intros (r & Hr & Hi). destruct r as [|p' u'|m sels]; cbn [ns_of In] in Hi; try contradiction.
    destruct Hi as [Hi|[]]. inversion Hi; subst. exact Hr.
Qed.

Lemma count_app u a b : count_uri u (a ++ b) = (count_uri u a + count_uri u b)%nat.
Proof. unfold count_uri. now rewrite ns_list_app, filter_app, app_length. Qed.

Lemma count_cons_ns u p b : count_uri u (RNs p u :: b) = S (count_uri u b).
Proof.
  unfold count_uri. cbn [ns_list flat_map ns_of app]. fold (ns_list b). cbn [filter snd].
  now rewrite seqb_refl.
Qed.

Lemma count_ge1 u p s : In (RNs p u) s -> (1 <= count_uri u s)%nat.
Proof.
  intros H. apply In_rule_ns in H. unfold count_uri.
  assert (Hf : In (p, u) (filter (fun pu => str_eqb u (snd pu)) (ns_list s))).
  { apply filter_In. split; [exact H|]. cbn [snd]. apply seqb_refl. }
  destruct (filter (fun pu => str_eqb u (snd pu)) (ns_list s)); [contradiction|]. cbn [length]. lia.
Qed.

Lemma clean_loop_ok items : forall todo done,
  (forall p u, In (RNs p u) todo -> has_item items p u = false ->
     exists q, has_item items q u = true /\ In (RNs q u) (done ++ todo)) ->
  clean_loop items done todo = (done ++ filter (keep items) todo, Ok).
Proof.
  induction todo as [|x todo IH]; intros done H; cbn [clean_loop filter].
  - now rewrite app_nil_r.
  - assert (Hkeep : forall y, (forall p u, In (RNs p u) todo -> has_item items p u = false ->
                exists q, has_item items q u = true /\ In (RNs q u) ((done ++ [y]) ++ todo)) ->
              y = x -> keep items x = true ->
              clean_loop items (done ++ [x]) todo = (done ++ x :: filter (keep items) todo, Ok)).
    { intros y Hy -> _. rewrite IH by exact Hy. now rewrite <- app_assoc. }
    assert (Hsub : forall p u, In (RNs p u) todo -> has_item items p u = false ->
                exists q, has_item items q u = true /\ In (RNs q u) ((done ++ [x]) ++ todo)).
    { intros p u Hi Hf. destruct (H p u (or_intror Hi) Hf) as (q & Hq & Hin).
      exists q. split; [exact Hq|]. now rewrite <- app_assoc. }
    destruct x as [|p u|m sels]; cbn [keep].
    + now apply (Hkeep RCharset).
    + destruct (has_item items p u) eqn:E.
      * apply (Hkeep (RNs p u)); [exact Hsub|reflexivity|exact E].
      * destruct (H p u (or_introl eq_refl) E) as (q & Hq & Hin).
        assert (Hg : guarded u (done ++ RNs p u :: todo) = false).
        { unfold guarded.
          assert (Hc : (2 <= count_uri u (done ++ RNs p u :: todo))%nat).
          { rewrite count_app, count_cons_ns. apply in_app_iff in Hin. destruct Hin as [Hin|[Hin|Hin]].
            - apply count_ge1 in Hin. lia.
            - inversion Hin; subst. congruence.
            - apply count_ge1 in Hin. lia. }
          destruct (count_uri u (done ++ RNs p u :: todo)) as [|[|n]]; try lia.
          cbn [Nat.eqb]. apply andb_false_r. }
        rewrite Hg. apply IH. intros p' u' Hi Hf.
        destruct (H p' u' (or_intror Hi) Hf) as (q' & Hq' & Hin').
        exists q'. split; [exact Hq'|]. apply in_app_iff in Hin'. apply in_app_iff.
        destruct Hin' as [Hin'|[Hin'|Hin']]; [now left| |now right].
        inversion Hin'; subst. congruence.
    + now apply (Hkeep (RStyle m sels)).
Qed.

Lemma ns_list_filter_keep items s :
  ns_list (filter (keep items) s) = filter (fun pu => has_item items (fst pu) (snd pu)) (ns_list s).
Proof.
  induction s as [|r s IH]; [reflexivity|]. destruct r as [|p u|m sels]; cbn [filter keep].
  - cbn [ns_list flat_map ns_of app]. exact IH.
  - cbn [ns_list flat_map ns_of app filter fst snd]. fold (ns_list s).
    destruct (has_item items p u); cbn [ns_list flat_map ns_of app]; [f_equal|]; exact IH.
  - cbn [ns_list flat_map ns_of app]. exact IH.
Qed.

Lemma has_item_In d p u : has_item d p u = true <-> In (p, u) d.
Proof.
  unfold has_item. rewrite existsb_exists. split.
  - intros ([p' u'] & Hi & He). cbn [fst snd] in He. apply andb_true_iff in He. destruct He as [H1 H2].
    apply seqb_spec in H1. apply seqb_spec in H2. now subst.
  - intros H. exists (p, u). split; [exact H|]. cbn [fst snd]. now rewrite !seqb_refl.
Qed.

Lemma has_item_view s p u :
  NoDup (map fst (effective s)) -> (has_item (view s) p u = true <-> In (p, u) (effective s)).
Proof.
  intros Hd. rewrite has_item_In. split.
  - intros H. apply view_sound. apply In_lookup; [apply view_keys_distinct|exact H].
  - intros H. apply lookup_In. now apply view_complete.
Qed.

Lemma map_fst_filter_In {A B} (f : A * B -> bool) l x :
  In x (map fst (filter f l)) -> In x (map fst l).
Proof.
  rewrite !in_map_iff. intros (y & Hy & Hi). apply filter_In in Hi. exists y. tauto.
Qed.

Lemma nodup_fst_filter {A B} (f : A * B -> bool) l : NoDup (map fst l) -> NoDup (map fst (filter f l)).
Proof.
  induction l as [|x l IH]; cbn [map filter]; intros H; [constructor|].
  apply NoDup_cons_iff in H. destruct H as [Hn Hd]. destruct (f x); cbn [map]; [|now apply IH].
  constructor; [|now apply IH]. intros Hi. apply Hn. now apply map_fst_filter_In in Hi.
Qed.

Lemma map_snd_filter_In {A B} (f : A * B -> bool) l x :
  In x (map snd (filter f l)) -> In x (map snd l).
Proof.
  rewrite !in_map_iff. intros (y & Hy & Hi). apply filter_In in Hi. exists y. tauto.
Qed.

Lemma nodup_snd_filter {A B} (f : A * B -> bool) l : NoDup (map snd l) -> NoDup (map snd (filter f l)).
Proof.
  induction l as [|x l IH]; cbn [map filter]; intros H; [constructor|].
  apply NoDup_cons_iff in H. destruct H as [Hn Hd]. destruct (f x); cbn [map]; [|now apply IH].
  constructor; [|now apply IH]. intros Hi. apply Hn. now apply map_snd_filter_In in Hi.
Qed.

Lemma find_last_ns_none s p : ~ In p (map fst (ns_list s)) -> forall i acc, find_last_ns s p i acc = acc.
Proof.
  induction s as [|r s IH]; intros Hn i acc; cbn [find_last_ns]; [reflexivity|].
  destruct r as [|p' u'|m sels].
  - apply IH. exact Hn.
  - cbn [ns_list flat_map ns_of app map fst] in Hn. fold (ns_list s) in Hn.
    destruct (str_eqb p p') eqn:E.
    + apply seqb_spec in E. subst. exfalso. apply Hn. now left.
    + apply IH. intros H. apply Hn. now right.
  - apply IH. exact Hn.
Qed.

Definition not_uri (u : str) (pu : str * str) : bool := negb (str_eqb (snd pu) u).

(* namespaces[q] = u  for a fresh prefix q in a clean state: one new rule at
   the end of the @namespace rules, the previous declaration of u (if any)
   is removed, nothing else changes *)
Lemma rebind_rules s q u :
  clean_state s -> ~ In q (map fst (ns_list s)) -> u <> [] ->
  exists s', step s (ONsSet q u) = (s', Ok) /\
             ns_list s' = filter (not_uri u) (ns_list s) ++ [(q, u)].
Proof.
  intros [Hf Hs] Hq Hu. cbn [step]. unfold ns_set. rewrite (find_last_ns_none s q Hq).
  unfold insert_ns. destruct u as [|c ut]; [congruence|]. cbv beta iota zeta. set (u := c :: ut) in *.
  assert (Hlq : lookup (view s) q = None).
  { destruct (lookup (view s) q) as [v|] eqn:E; [|reflexivity]. exfalso. apply Hq.
    apply (clean_state_view s q v (conj Hf Hs)) in E. apply (in_map fst) in E. exact E. }
  rewrite Hlq. cbv beta iota. set (s1 := insert_at (inorder_index s) (RNs q u) s).
  assert (Hn1 : ns_list s1 = ns_list s ++ [(q, u)]) by apply ns_list_insert_inorder.
  assert (He1 : effective s1 = (q, u) :: filter (not_uri u) (rev (ns_list s))).
  { unfold effective. rewrite Hn1, rev_app_distr. cbn [rev app uniq_by_uri existsb]. f_equal.
    rewrite uniq_nodup_filter by (rewrite map_rev; now apply NoDup_rev).
    apply filter_ext. intros [p1 u1]. unfold not_uri, mem. cbn [snd existsb]. now rewrite orb_false_r. }
  assert (Hd1 : NoDup (map fst (effective s1))).
  { rewrite He1. cbn [map fst]. constructor.
    - intros Hi. apply map_fst_filter_In in Hi. rewrite map_rev, <- in_rev in Hi. contradiction.
    - apply nodup_fst_filter. rewrite map_rev. now apply NoDup_rev. }
  assert (Hitem : forall p' u', has_item (view s1) p' u' = true <->
                    (p', u') = (q, u) \/ (In (p', u') (ns_list s) /\ u' <> u)).
  { intros p' u'. rewrite (has_item_view s1 p' u' Hd1), He1. cbn [In]. rewrite filter_In, <- in_rev.
    unfold not_uri. cbn [snd]. rewrite negb_true_iff, seqb_false. split.
    - intros [H|H]; [left; now symmetry|now right].
    - intros [H|H]; [left; now symmetry|now right]. }
  unfold clean_or_restore, clean. rewrite clean_loop_ok.
  - cbn [app]. eexists. split; [reflexivity|].
    rewrite ns_list_filter_keep. fold s1. rewrite Hn1, filter_app. f_equal.
    + apply filter_ext_in. intros [p' u'] Hi. cbn [fst snd]. unfold not_uri. cbn [snd].
      destruct (has_item (view s1) p' u') eqn:E.
      * apply Hitem in E. destruct E as [E|[_ E]].
        -- inversion E; subst. exfalso. apply Hq. apply (in_map fst) in Hi. exact Hi.
        -- symmetry. apply negb_true_iff. now apply seqb_false.
      * symmetry. apply negb_false_iff. apply seqb_spec.
        destruct (str_eqb u' u) eqn:E2; [now apply seqb_spec in E2|].
        exfalso. apply seqb_false in E2.
        assert (Ht : has_item (view s1) p' u' = true) by (apply Hitem; right; now split). congruence.
    + cbn [filter fst snd].
      assert (Ht : has_item (view s1) q u = true) by (apply Hitem; now left). now rewrite Ht.
  - cbn [app]. fold s1. intros p' u' Hi Hfalse.
    (* a dropped rule has URI u: it is shadowed by the new rule *)
    assert (Hu' : u' = u).
    { apply In_rule_ns in Hi. rewrite Hn1 in Hi. apply in_app_iff in Hi.
      destruct (str_eqb u' u) eqn:E2; [now apply seqb_spec in E2|]. apply seqb_false in E2.
      exfalso. assert (Ht : has_item (view s1) p' u' = true).
      { apply Hitem. destruct Hi as [Hi|[Hi|[]]]; [right; now split|left; now symmetry]. }
      congruence. }
    subst u'. exists q. split.
    + apply Hitem. now left.
    + apply In_rule_ns. rewrite Hn1. apply in_or_app. right. now left.
Qed.

Theorem rebinding_changes_prefix_only s q u :
  clean_state s -> ~ In q (map fst (ns_list s)) -> u <> [] ->
  exists s', step s (ONsSet q u) = (s', Ok) /\
    styles s' = styles s /\
    clean_state s' /\
    (forall r v, lookup (view s') r = Some v <->
                 (r, v) = (q, u) \/ (lookup (view s) r = Some v /\ v <> u)).
Proof.
  intros Hc Hq Hu. destruct (rebind_rules s q u Hc Hq Hu) as (s' & Hstep & Hns).
  exists s'. split; [exact Hstep|].
  assert (Hst : styles s' = styles s).
  { pose proof (meaning_frame_step s (ONsSet q u) eq_refl) as H. unfold step_state in H. now rewrite Hstep in H. }
  assert (Hc' : clean_state s').
  { destruct Hc as [Hf Hs]. unfold clean_state. rewrite Hns, !map_app. cbn [map fst snd]. split.
    - apply NoDup_snoc; [now apply nodup_fst_filter|]. intros Hi. apply map_fst_filter_In in Hi. contradiction.
    - apply NoDup_snoc; [now apply nodup_snd_filter|]. rewrite in_map_iff. intros ([p' u'] & He & Hi).
      cbn [snd] in He. subst u'. apply filter_In in Hi. destruct Hi as [_ Hi]. unfold not_uri in Hi.
      cbn [snd] in Hi. now rewrite seqb_refl in Hi. }
  split; [exact Hst|]. split; [exact Hc'|].
  intros r v. rewrite (clean_state_view s' r v Hc'), Hns, in_app_iff, filter_In. cbn [In].
  unfold not_uri. cbn [snd]. rewrite negb_true_iff, seqb_false, (clean_state_view s r v Hc). split.
  - intros [[H1 H2]|[H|[]]]; [right; now split|left; now symmetry].
  - intros [H|[H1 H2]]; [right; left; now symmetry|left; now split].
Qed.

Lemma ser_item_prefix m k u n q :
  NoDup (map fst m) ->
  (forall p1 p2, lookup m p1 = Some u -> lookup m p2 = Some u -> p1 = p2) ->
  lookup m q = Some u -> q <> [] ->
  ser_item m (SNs k (RUri u) n) = (k, PPfx q, n).
Proof.
  intros Hk Huniq Hl Hq. cbn [ser_item].
  assert (Hp : prefix_for m u = Some q).
  { destruct (prefix_for m u) as [p'|] eqn:Ep.
    - f_equal. apply Huniq; [|exact Hl]. apply In_lookup; [exact Hk|]. now apply prefix_for_In.
    - exfalso. apply (prefix_for_None _ _ q Ep). now apply lookup_In. }
  assert (Hm : mk_pspec q = PPfx q) by (destruct q; [congruence|reflexivity]).
  destruct (lookup m []) as [du|] eqn:Ed.
  - destruct (str_eqb du u) eqn:E.
    + apply seqb_spec in E. subst du. exfalso. apply Hq. symmetry. now apply Huniq.
    + now rewrite Hp, Hm.
  - now rewrite Hp, Hm.
Qed.

(* ... and every stored name of that URI is now written with the new prefix *)
Theorem rebinding_serialises_new_prefix s q u k n :
  clean_state s -> ~ In q (map fst (ns_list s)) -> u <> [] -> q <> [] ->
  ser_item (view (step_state s (ONsSet q u))) (SNs k (RUri u) n) = (k, PPfx q, n).
Proof.
  intros Hc Hq Hu Hq0.
  destruct (rebinding_changes_prefix_only s q u Hc Hq Hu) as (s' & Hstep & _ & _ & Hv).
  unfold step_state. rewrite Hstep. cbn [fst]. apply ser_item_prefix.
  - apply view_keys_distinct.
  - intros p1 p2. apply view_one_prefix_per_uri.
  - apply Hv. now left.
  - exact Hq0.
Qed.

(* a detached rule serialises against its own dictionary (any Python dict) *)
Theorem reserialise_resolves_dict d sel :
  sel_ok (dict_of d) sel = true -> resolve (dict_of d) (ser_sel (dict_of d) sel) = Some sel.
Proof. apply resolve_ser_sel. apply dict_of_keys_nodup. Qed.

(* non-vacuity helpers *)
Definition ex_sheet : sheet :=
  [RNs [97] [117; 49]; RNs [] [117; 50];
   RStyle false [[SNs KType (RUri [117; 49]) [120]; SNs KAttr (RUri [117; 49]) [121]; SPlain [122]];
                 [SNs KUniv (RUri [117; 50]) [42]; SNs KType RAny [113]; SNs KType REmpty [119]]]].
Lemma ex_sheet_clean : clean_state ex_sheet.
Proof.
  split; cbn; repeat constructor; cbn; intuition discriminate.
Qed.
