(* Proofs/AtomicFacts.v — a mutator whose phase list has every rejection point
   before every unprotected observable commit leaves the observation unchanged
   when it rejects, for every state and every input; the side condition is
   computed for every modelled mutator (for every number of nested items);
   read-only objects reject; the early-committing phase lists are refuted. *)
From Coq Require Import List NArith Bool Arith Lia.
From CssV Require Import Model.Atomic.
Import ListNotations.

Definition eqs (s1 s2 : state) : Prop := forall g, s1 g = s2 g.

Lemma memn_In f l : memn f l = true <-> In f l.
Proof.
  unfold memn. rewrite existsb_exists. split.
  - intros (y & Hy & He). apply Nat.eqb_eq in He. now subst.
  - intros H. exists f. split; [assumption|apply Nat.eqb_refl].
Qed.

Lemma restore_ext snaps : forall s1 s2, eqs s1 s2 -> eqs (restore snaps s1) (restore snaps s2).
Proof.
  induction snaps as [|[f v] r IH]; intros s1 s2 H; cbn [restore]; [exact H|].
  apply IH. intro g. unfold set. destruct (Nat.eqb g f); [reflexivity|apply H].
Qed.

(* a write to f is invisible after the restore at every field other than f,
   and at f itself when a snapshot of f exists *)
Lemma restore_set snaps : forall f v s g,
  g <> f \/ In f (map fst snaps) -> restore snaps (set f v s) g = restore snaps s g.
Proof.
  induction snaps as [|[f' v'] r IH]; intros f v s g H; cbn [restore].
  - destruct H as [H|[]]. unfold set. destruct (Nat.eqb_spec g f); [contradiction|reflexivity].
  - destruct (Nat.eq_dec f' f) as [E|Hne].
    + subst f'. apply restore_ext. intro h. unfold set. destruct (Nat.eqb h f); reflexivity.
    + transitivity (restore r (set f v (set f' v' s)) g).
      * apply restore_ext. intro h. unfold set.
        destruct (Nat.eqb_spec h f'), (Nat.eqb_spec h f); try reflexivity. subst. contradiction.
      * apply IH. destruct H as [H|H]; [left; exact H|].
        cbn [map fst In] in H. destruct H as [H|H]; [contradiction|right; exact H].
Qed.

Lemma restore_app a : forall b s, restore (a ++ b) s = restore b (restore a s).
Proof. induction a as [|[f v] a IH]; intros b s; cbn [app restore]; [reflexivity|apply IH]. Qed.

(* restoring snapshots just taken changes nothing *)
Lemma restore_self (s0 : state) fs : forall s, eqs s s0 -> eqs (restore (map (fun f => (f, s0 f)) fs) s) s0.
Proof.
  induction fs as [|f fs IH]; intros s H; cbn [map restore]; [exact H|].
  apply IH. intro g. unfold set. destruct (Nat.eqb_spec g f); [now subst|apply H].
Qed.

(* ---- the invariant: while no unprotected observable commit has happened,
   restoring the snapshots gives back the original observation ---- *)
Lemma run_inv obsf O0 x : forall ps snaps s prot dirty gp s' c e,
  (forall f, In f prot -> In f (map fst snaps)) ->
  (dirty = false -> map (restore snaps s) obsf = O0) ->
  (gp = true -> s 0%nat = 0%N) ->
  cac obsf prot dirty gp ps = true ->
  run ps x snaps s = (s', Rejected c e) ->
  map s' obsf = O0.
Proof.
  induction ps as [|p ps IH]; intros snaps s prot dirty gp s' c e Hprot Hclean Hgp Hcac Hrun.
  - cbn in Hrun. discriminate.
  - destruct p as [|c0 e0|f|fs]; cbn [cac run] in Hcac, Hrun.
    + apply andb_true_iff in Hcac. destruct Hcac as [Hd Hcac].
      destruct (N.eqb_spec (s 0%nat) 0) as [E|E].
      * eapply (IH snaps s prot dirty true); [exact Hprot|exact Hclean|intros _; exact E|exact Hcac|exact Hrun].
      * inversion Hrun; subst. apply Hclean.
        destruct gp; [now elim E; apply Hgp|]. cbn in Hd. now apply negb_true_iff in Hd.
    + apply andb_true_iff in Hcac. destruct Hcac as [Hd Hcac]. apply negb_true_iff in Hd.
      destruct (fails x c0).
      * inversion Hrun; subst. now apply Hclean.
      * eapply IH; eassumption.
    + eapply IH; [exact Hprot| | |exact Hcac|exact Hrun].
      * intros Hd. apply orb_false_iff in Hd. destruct Hd as [Hd Hf].
        rewrite <- (Hclean Hd). apply map_ext_in. intros g Hg. apply restore_set.
        apply andb_false_iff in Hf. destruct Hf as [Hf|Hf].
        -- left. intros ->. apply memn_In in Hg. congruence.
        -- right. apply negb_false_iff in Hf. apply memn_In in Hf. now apply Hprot.
      * intros Hg. apply andb_true_iff in Hg. destruct Hg as [Hg Hf]. apply negb_true_iff in Hf.
        unfold set. rewrite Nat.eqb_sym, Hf. now apply Hgp.
    + eapply IH; [| |exact Hgp|exact Hcac|exact Hrun].
      * intros f Hf. rewrite map_app, map_map. cbn [fst]. rewrite map_id.
        apply in_app_iff. apply in_app_iff in Hf. destruct Hf as [Hf|Hf]; [left; exact Hf|right; now apply Hprot].
      * intros Hd. rewrite <- (Hclean Hd). apply map_ext_in. intros g _.
        rewrite restore_app. apply restore_ext. apply restore_self. intro h; reflexivity.
Qed.

Theorem rejected_unchanged_gen m n s x s' c e :
  commits_after_checks m n = true ->
  step m n s x = (s', Rejected c e) ->
  obs m s' = obs m s.
Proof.
  unfold commits_after_checks, step, obs. intros Hc Hr.
  eapply (run_inv (observable m) (map s (observable m)) x (phases m n) [] s [] false false); try eassumption.
  - intros f [].
  - intros _. reflexivity.
  - discriminate.
Qed.

(* ---- the side condition over a prefix and over the nested-item loops ---- *)
Fixpoint cac_state (obsf prot : list nat) (dirty gp : bool) (ps : list phase) : option (list nat * bool * bool) :=
  match ps with
  | [] => Some (prot, dirty, gp)
  | Guard :: r => if gp || negb dirty then cac_state obsf prot dirty true r else None
  | Check _ _ :: r => if dirty then None else cac_state obsf prot dirty gp r
  | Commit f :: r => cac_state obsf prot (dirty || (memn f obsf && negb (memn f prot))) (gp && negb (Nat.eqb f 0)) r
  | Save fs :: r => cac_state obsf (fs ++ prot) dirty gp r
  end.

Lemma cac_app obsf p : forall prot dirty gp q,
  cac obsf prot dirty gp (p ++ q)
  = match cac_state obsf prot dirty gp p with
    | Some (prot', dirty', gp') => cac obsf prot' dirty' gp' q
    | None => false
    end.
Proof.
  induction p as [|a p IH]; intros prot dirty gp q; cbn [app cac cac_state]; [reflexivity|].
  destruct a as [|c e|f|fs].
  - destruct (gp || negb dirty); cbn [andb]; [apply IH|reflexivity].
  - destruct dirty; cbn [negb andb]; [reflexivity|apply IH].
  - apply IH.
  - apply IH.
Qed.

Lemma cac_nested obsf prot gp after rest n :
  (forall rest', cac obsf prot false gp (after ++ rest') = cac obsf prot false gp rest') ->
  cac obsf prot false gp (nested n after ++ rest) = cac obsf prot false gp rest.
Proof.
  intros H. unfold nested. generalize (seq 0 n). intros l.
  induction l as [|i l IH]; cbn [flat_map app]; [reflexivity|].
  rewrite <- !app_assoc. unfold item_checks at 1. cbn [app cac negb andb]. rewrite H. exact IH.
Qed.

Ltac prefix_tac :=
  match goal with
  | |- context [cac_state ?a ?b ?c ?g ?d] =>
    let r := eval vm_compute in (cac_state a b c g d) in change (cac_state a b c g d) with r
  end; cbv iota beta.

Ltac nested_tac :=
  let n := fresh "n" in
  intro n; unfold commits_after_checks;
  match goal with |- context [phases ?m] => let m' := eval hnf in m in change m with m' end;
  cbn [phases observable];
  rewrite cac_app; prefix_tac; rewrite cac_nested by (intro; reflexivity); reflexivity.

(* every mutator listed as atomic satisfies the side condition, for every
   number of nested items *)
Theorem atomic_mutators_ok : Forall (fun m => forall n, commits_after_checks m n = true) atomic_mutators.
Proof.
  unfold atomic_mutators.
  repeat (apply Forall_cons; [first [ (intro n; vm_compute; reflexivity) | nested_tac ] |]).
  apply Forall_nil.
Qed.

Theorem rejected_unchanged m n s x s' c e :
  In m atomic_mutators ->
  step m n s x = (s', Rejected c e) ->
  obs m s' = obs m s.
Proof.
  intros Hin. apply rejected_unchanged_gen.
  exact (proj1 (Forall_forall _ _) atomic_mutators_ok m Hin n).
Qed.

(* ---- read-only objects ---- *)
Theorem readonly_rejects_gen ps x s :
  guarded ps = true -> s 0%nat <> 0%N ->
  exists s', run ps x [] s = (s', Rejected 0 1) /\ eqs s' s.
Proof.
  intros Hg Hs. destruct ps as [|[|c e|f|fs] ps]; try discriminate.
  - cbn [run]. destruct (N.eqb_spec (s 0%nat) 0); [contradiction|].
    exists s. split; [reflexivity|intro; reflexivity].
  - destruct ps as [|[|c e|f|fs'] ps]; try discriminate.
    cbn [run]. destruct (N.eqb_spec (s 0%nat) 0); [contradiction|].
    eexists. split; [reflexivity|]. rewrite app_nil_r. apply restore_self. intro; reflexivity.
Qed.

Theorem guarded_mutators_ok : Forall (fun m => forall n, guarded (phases m n) = true) guarded_mutators.
Proof. unfold guarded_mutators. repeat (apply Forall_cons; [intro n; reflexivity|]). apply Forall_nil. Qed.

Theorem readonly_rejects_all m n s x :
  In m guarded_mutators -> s 0%nat <> 0%N ->
  exists s', step m n s x = (s', Rejected 0 1) /\ obs m s' = obs m s.
Proof.
  intros Hin Hs. unfold step.
  destruct (readonly_rejects_gen (phases m n) x s
              (proj1 (Forall_forall _ _) guarded_mutators_ok m Hin n) Hs) as (s' & Hr & He).
  exists s'. split; [exact Hr|]. unfold obs. apply map_ext. exact He.
Qed.

(* ---- refutations: a concrete rejected step that changes the observation ---- *)
Definition s_zero : state := fun _ => 0%N.
Definition s_readonly : state := fun f => match f with O => 1%N | _ => 0%N end.
Definition x_fail (c : N) : input := mkInput (N.eqb c) (fun _ => 1%N).
Definition x_none : input := mkInput (fun _ => false) (fun _ => 1%N).

Definition same_obs (a b : list N) : bool := if list_eq_dec N.eq_dec a b then true else false.

(* failing exactly check c (with n nested items) rejects and leaves a changed observation *)
Definition refutes (m : mutator) (n : nat) (c : N) : bool :=
  match step m n s_zero (x_fail c) with
  | (s', Rejected c' _) => N.eqb c' c && negb (same_obs (obs m s') (obs m s_zero))
  | (_, Ok) => false
  end.

Lemma refutes_sound m n c :
  refutes m n c = true ->
  exists s x s' e, step m n s x = (s', Rejected c e) /\ obs m s' <> obs m s.
Proof.
  unfold refutes. destruct (step m n s_zero (x_fail c)) as [s' [|c' e]] eqn:E; [discriminate|].
  intros H. apply andb_true_iff in H. destruct H as [Hc H]. apply N.eqb_eq in Hc. subst c'.
  exists s_zero, (x_fail c), s', e. split; [exact E|].
  unfold same_obs in H. destruct (list_eq_dec N.eq_dec (obs m s') (obs m s_zero)); [discriminate|assumption].
Qed.

(* the witnesses: (mutator, nested items, failing check) *)
Definition refutation_witnesses : list (mutator * nat * N) :=
  [(m_sheet_cssText_pinned, 2%nat, 103%N);        (* syntax error in the second rule of the new sheet text *)
   (m_media_cssText_pinned, 2%nat, 103%N);        (* syntax error in the second nested rule *)
   (m_media_cssText_pinned, 0%nat, 3%N);          (* bad media query: the media list is already replaced *)
   (m_namespace_cssText_pinned, 0%nat, 4%N);      (* other URI: the prefix is already replaced *)
   (m_margin_cssText_pinned, 0%nat, 3%N);         (* bad declaration: margin set, style emptied *)
   (m_prop_cssText_pinned, 0%nat, 4%N);           (* bad value after a good name *)
   (m_prop_cssText_pinned, 0%nat, 6%N);           (* bad priority: name, value and priority committed *)
   (m_prop_priority_pinned, 0%nat, 6%N);          (* "!x" is stored, then refused *)
   (m_ml_mediaText_pinned, 0%nat, 3%N);           (* no content: wellformed already cleared *)
   (m_sheet_insertRule_ns_pinned, 0%nat, 9%N);    (* clean-up of the older @namespace rule refused *)
   (m_sheet_insertRule_import_pinned, 0%nat, 10%N);      (* imported sheet refused after the insertion *)
   (m_sheet_insertRule_list_pinned, 2%nat, 105%N);       (* second rule of the list refused (hierarchy) *)
   (m_media_insertRule_list_pinned, 2%nat, 105%N);
   (m_page_insertRule_list_pinned, 2%nat, 105%N);
   (m_import_cssText_fetch_pinned, 0%nat, 10%N);
   (m_import_href_fetch_pinned, 0%nat, 10%N)].

Theorem refutation_witnesses_ok :
  forallb (fun w => refutes (fst (fst w)) (snd (fst w)) (snd w)) refutation_witnesses = true.
Proof. vm_compute. reflexivity. Qed.

Theorem non_atomic_covered :
  forallb (fun m => existsb (fun w => N.eqb (mid (fst (fst w))) (mid m)) refutation_witnesses) non_atomic_mutators = true.
Proof. vm_compute. reflexivity. Qed.

Theorem non_atomic_flagged :
  forallb (fun w => negb (commits_after_checks (fst (fst w)) (snd (fst w)))) refutation_witnesses = true.
Proof. vm_compute. reflexivity. Qed.

Theorem refuted_witness m n c :
  In (m, n, c) refutation_witnesses ->
  exists s x s' e, step m n s x = (s', Rejected c e) /\ obs m s' <> obs m s.
Proof.
  intros Hin. apply refutes_sound.
  exact (proj1 (forallb_forall _ _) refutation_witnesses_ok (m, n, c) Hin).
Qed.

(* a mutator without the guard accepts on a read-only object and changes it *)
Definition accepts_readonly (m : mutator) : bool :=
  match step m 0 s_readonly x_none with
  | (s', Ok) => negb (same_obs (obs m s') (obs m s_readonly))
  | _ => false
  end.

Theorem unguarded_accept : forallb accepts_readonly unguarded_mutators = true.
Proof. vm_compute. reflexivity. Qed.

Lemma accepts_readonly_sound m :
  accepts_readonly m = true ->
  exists s x s', s 0%nat <> 0%N /\ step m 0 s x = (s', Ok) /\ obs m s' <> obs m s.
Proof.
  unfold accepts_readonly. destruct (step m 0 s_readonly x_none) as [s' [|c e]] eqn:E; [|discriminate].
  intros H. exists s_readonly, x_none, s'. split; [cbn; discriminate|]. split; [exact E|].
  unfold same_obs in H. destruct (list_eq_dec N.eq_dec (obs m s') (obs m s_readonly)); [discriminate|assumption].
Qed.

Theorem readonly_refuted m :
  In m unguarded_mutators ->
  exists s x s', s 0%nat <> 0%N /\ step m 0 s x = (s', Ok) /\ obs m s' <> obs m s.
Proof.
  intros Hin. apply accepts_readonly_sound.
  exact (proj1 (forallb_forall _ _) unguarded_accept m Hin).
Qed.

(* the ids of the catalogue are distinct (the flat interface looks mutators up by id) *)
Theorem mids_distinct : NoDup (map mid all_mutators).
Proof.
  apply (NoDup_count_occ' N.eq_dec). intros x Hx.
  repeat (destruct Hx as [<-|Hx]; [vm_compute; reflexivity|]). destruct Hx.
Qed.

(* ---- named instances used by Props/C11.v ---- *)
Ltac in_list := repeat (first [left; reflexivity | right]).

Definition refuted_at (m : mutator) (n : nat) (c : N) : Prop :=
  exists s x s' e, step m n s x = (s', Rejected c e) /\ obs m s' <> obs m s.

Lemma sheet_cssText_pinned_refuted : refuted_at m_sheet_cssText_pinned 2 103.
Proof. apply refuted_witness. in_list. Qed.
Lemma media_cssText_pinned_refuted : refuted_at m_media_cssText_pinned 2 103.
Proof. apply refuted_witness. in_list. Qed.
Lemma media_cssText_pinned_refuted_query : refuted_at m_media_cssText_pinned 0 3.
Proof. apply refuted_witness. in_list. Qed.
Lemma namespace_cssText_pinned_refuted : refuted_at m_namespace_cssText_pinned 0 4.
Proof. apply refuted_witness. in_list. Qed.
Lemma margin_cssText_pinned_refuted : refuted_at m_margin_cssText_pinned 0 3.
Proof. apply refuted_witness. in_list. Qed.
Lemma prop_cssText_pinned_refuted_value : refuted_at m_prop_cssText_pinned 0 4.
Proof. apply refuted_witness. in_list. Qed.
Lemma prop_cssText_pinned_refuted_priority : refuted_at m_prop_cssText_pinned 0 6.
Proof. apply refuted_witness. in_list. Qed.
Lemma prop_priority_pinned_refuted : refuted_at m_prop_priority_pinned 0 6.
Proof. apply refuted_witness. in_list. Qed.
Lemma ml_mediaText_pinned_refuted : refuted_at m_ml_mediaText_pinned 0 3.
Proof. apply refuted_witness. in_list. Qed.
Lemma sheet_insertRule_ns_pinned_refuted : refuted_at m_sheet_insertRule_ns_pinned 0 9.
Proof. apply refuted_witness. in_list. Qed.
Lemma sheet_insertRule_import_pinned_refuted : refuted_at m_sheet_insertRule_import_pinned 0 10.
Proof. apply refuted_witness. in_list. Qed.
Lemma sheet_insertRule_list_pinned_refuted : refuted_at m_sheet_insertRule_list_pinned 2 105.
Proof. apply refuted_witness. in_list. Qed.
Lemma media_insertRule_list_pinned_refuted : refuted_at m_media_insertRule_list_pinned 2 105.
Proof. apply refuted_witness. in_list. Qed.
Lemma page_insertRule_list_pinned_refuted : refuted_at m_page_insertRule_list_pinned 2 105.
Proof. apply refuted_witness. in_list. Qed.
Lemma import_cssText_fetch_pinned_refuted : refuted_at m_import_cssText_fetch_pinned 0 10.
Proof. apply refuted_witness. in_list. Qed.
Lemma import_href_fetch_pinned_refuted : refuted_at m_import_href_fetch_pinned 0 10.
Proof. apply refuted_witness. in_list. Qed.

(* pinned: a list of rules is inserted atomically as long as it has at most one element *)
Definition list_mutators := [m_sheet_insertRule_list_pinned; m_media_insertRule_list_pinned; m_page_insertRule_list_pinned].
Lemma rulelist_short_ok :
  forallb (fun m => commits_after_checks m 0 && commits_after_checks m 1) list_mutators = true.
Proof. vm_compute. reflexivity. Qed.

Theorem rulelist_short_unchanged m n s x s' c e :
  In m list_mutators -> (n <= 1)%nat ->
  step m n s x = (s', Rejected c e) -> obs m s' = obs m s.
Proof.
  intros Hin Hn. apply rejected_unchanged_gen.
  pose proof (proj1 (forallb_forall _ _) rulelist_short_ok m Hin) as H.
  apply andb_true_iff in H. destruct H as [H0 H1].
  destruct n as [|[|n]]; [exact H0|exact H1|lia].
Qed.

(* non-vacuity: an atomic mutator does reject, and does commit when nothing fails *)
Lemma example_rejects :
  snd (step m_media_cssText 2 s_zero (x_fail 103)) = Rejected 103 3
  /\ obs m_media_cssText (fst (step m_media_cssText 2 s_zero (x_fail 103))) = [0; 0; 0]%N
  /\ snd (step m_media_cssText 2 s_zero x_none) = Ok
  /\ obs m_media_cssText (fst (step m_media_cssText 2 s_zero x_none)) = [1; 1; 1]%N
  /\ In m_media_cssText atomic_mutators.
Proof. repeat split; try (vm_compute; reflexivity). unfold atomic_mutators. in_list. Qed.
